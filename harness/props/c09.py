"""C09 — over-sampling partitions pixels uniformly and bins by exact per-pixel means.

Case kinds
  uniform : OverSamplerUniform(mask, sub_size) tables — over_sampled_grid, slim_for_sub_slim,
            sub_mask_native_for_sub_mask_slim, sub_pixel_areas, binned_array_2d_from(distinct values)
  func    : a user function (expression tree, see `ev_frac`/`ev_np`) through array_via_func_from /
            the @over_sample decorator (with and without @to_array, Grid2DOverSampled, custom grid
            values, over_sampling=None) with uniform over-sampling
  iterate : OverSamplerIterate.array_via_func_from / decorator with OverSamplingIterate, for an
            expression tree or for an explicit per-level value table (a callable that answers its k-th
            call with level k of the table)

  decade  : an ordinary case with the function values / the geometry scaled by powers of two or the origin moved far away
            (round 5/6; observation and model value transformed back exactly, judged in the base world)
  own     : ownership history: three rounds of observe -> overwrite every array handed in / out -> rebuild from fresh inputs
  large   : recipe-sized cases judged by a vectorised oracle; history: typed histories on reused objects
  (layout / container variants, configuration in force at call time and constructor-option crossing are keys of the
   ordinary cases: mask_as, ps_as, origin_as, sub_as, values_as, ret_as, grid_as, conf, pre_conf, opt, ds_opts)

The oracle re-states the property with Fractions from the mask geometry alone (pixel squares, uniform
partition, means, first-agreeing level) and never calls the code under test or the Lean model.
"""
from __future__ import annotations

import json
import math
import sys
from fractions import Fraction
from pathlib import Path

import numpy as np

import common
import gen
from common import PropertyCheck, Skip, load_autoarray, mask_json, q, qlist

F = Fraction
BAND = F(1, 10 ** 9)
# near-duplicate twins (history stream) perturb a parameter by ~1e-6: the exact rational model values of a rational
# user function then have numerators of several thousand digits, beyond Python's default int <-> str limit
if hasattr(sys, "set_int_max_str_digits"):
    sys.set_int_max_str_digits(200000)

# ------------------------------------------------------------------------------------------------
# known-findings fragment: the orchestrator merges known_findings.d/*.json into known_findings.json;
# until it has done so this check reads its own fragment so that it is self-contained.
# ------------------------------------------------------------------------------------------------
_orig_load_known = common.load_known


def _load_known_with_fragment():
    k = _orig_load_known()
    frag = common.VERIF / "known_findings.d" / "C09.json"
    if frag.exists():
        try:
            d = json.loads(frag.read_text())
            have = {(f.get("property"), f.get("id")) for f in k.get("findings", [])}
            for f in d.get("findings", []):
                if (f.get("property"), f.get("id")) not in have:
                    k.setdefault("findings", []).append(f)
        except Exception:
            pass
    return k


common.load_known = _load_known_with_fragment


# ------------------------------------------------------------------------------------------------
# user functions as data
#   ["c","p/q"] | ["y"] | ["x"] | ["add",a,b] | ["sub",a,b] | ["mul",a,b] | ["neg",a] | ["div",a,b]
#   | ["gt0",e,a,b]  (a if e > 0 else b) | ["lookup",ey,ex,H,W,[values]] (floor, clip, table)
# ------------------------------------------------------------------------------------------------
ERRK = F(1, 10 ** 13)   # |double evaluation - exact| <= ERRK * mag  (>= 4x the a-priori bound for <= 200 ops)


def fits_double(v):
    """v is exactly a (normal-range) double"""
    d = v.denominator
    return (d & (d - 1)) == 0 and d <= 1 << 200 and abs(v.numerator).bit_length() <= 53


def ev3(e, y, x, margins, cex):
    """exact evaluation -> (value, mag, exact).
    `exact`: the implementation's double evaluation of this sub-tree is known to give exactly `value`
    (operands exact and the result representable; `cex` says whether the point coordinates themselves
    are computed without rounding).  Otherwise the rounding error is bounded by ERRK*mag, `mag` being
    the tree evaluated on absolute values (first order for divisions).  Appends to `margins`, for
    every discrete decision, its exact distance to the tie minus the rounding bound of the tested
    quantity."""
    k = e[0]
    if k == "c":
        v = F(e[1])
        return v, abs(v), fits_double(v)
    if k == "y":
        return y, abs(y), cex
    if k == "x":
        return x, abs(x), cex
    if k in ("add", "sub", "mul"):
        a, ma, ea = ev3(e[1], y, x, margins, cex)
        b, mb, eb = ev3(e[2], y, x, margins, cex)
        if k == "mul":
            v, m = a * b, ma * mb
            if (ea and a == 0) or (eb and b == 0):
                return F(0), F(0), True    # an exact zero factor: 0 * finite = 0
        else:
            v, m = (a + b if k == "add" else a - b), ma + mb
        return v, m, (ea and eb and fits_double(v))
    if k == "neg":
        a, ma, ea = ev3(e[1], y, x, margins, cex)
        return -a, ma, ea
    if k == "div":
        a, ma, ea = ev3(e[1], y, x, margins, cex)
        d, md, ed = ev3(e[2], y, x, margins, cex)
        margins.append(abs(d) - (0 if ed else ERRK * md))  # (near-)zero denominators are not generated
        v = a / d
        return v, ma / abs(d) + abs(a) * md / (d * d), (ea and ed and fits_double(v))
    if k == "gt0":
        t, mt, et = ev3(e[1], y, x, margins, cex)
        margins.append(abs(t) - (0 if et else ERRK * mt) if t != 0 or not et else F(1))
        return ev3(e[2], y, x, margins, cex) if t > 0 else ev3(e[3], y, x, margins, cex)
    if k == "lookup":
        ty, my, ey = ev3(e[1], y, x, margins, cex)
        tx, mx, ex = ev3(e[2], y, x, margins, cex)
        h, w, tab = e[3], e[4], e[5]
        for t, mt, et in ((ty, my, ey), (tx, mx, ex)):
            fl = math.floor(t)
            if not (et and t == fl):      # an exactly computed integer floors to itself
                margins.append(min(t - fl, fl + 1 - t) - (0 if et else ERRK * mt))
        iy = min(max(math.floor(ty), 0), h - 1)
        ix = min(max(math.floor(tx), 0), w - 1)
        v = F(tab[iy * w + ix])
        return v, abs(v), fits_double(v)
    raise ValueError(k)


def ev_frac(e, y, x, margins):
    return ev3(e, y, x, margins, False)[0]


def mean_with_err(f, pts, margins, cex=False, s=1):
    """exact mean of f over the points and a bound on the error of the implementation's double value
    (0 when every step is known to be exact: exact point values, power-of-two count)"""
    vs = [ev3(f, a, b, margins, cex) for a, b in pts]
    n = len(vs)
    mean = sum(v for v, _, _ in vs) / n
    if all(ex for _, _, ex in vs) and is_pow2(n) and fits_double(mean) \
            and all(fits_double(v / n) for v, _, _ in vs):
        return mean, F(0)
    return mean, ERRK * max(max(m for _, m, _ in vs), abs(mean))


def ev_np(e, Y, X):
    k = e[0]
    if k == "c":
        return np.full(Y.shape, float(F(e[1])))
    if k == "y":
        return Y
    if k == "x":
        return X
    if k == "add":
        return ev_np(e[1], Y, X) + ev_np(e[2], Y, X)
    if k == "sub":
        return ev_np(e[1], Y, X) - ev_np(e[2], Y, X)
    if k == "mul":
        return ev_np(e[1], Y, X) * ev_np(e[2], Y, X)
    if k == "neg":
        return -ev_np(e[1], Y, X)
    if k == "div":
        return ev_np(e[1], Y, X) / ev_np(e[2], Y, X)
    if k == "gt0":
        return np.where(ev_np(e[1], Y, X) > 0, ev_np(e[2], Y, X), ev_np(e[3], Y, X))
    if k == "lookup":
        h, w = e[3], e[4]
        tab = np.array([float(F(v)) for v in e[5]])
        iy = np.clip(np.floor(ev_np(e[1], Y, X)).astype(int), 0, h - 1)
        ix = np.clip(np.floor(ev_np(e[2], Y, X)).astype(int), 0, w - 1)
        return tab[iy * w + ix]
    raise ValueError(k)


def C(v):
    return ["c", q(F(v))]


def add(*es):
    out = es[0]
    for e in es[1:]:
        out = ["add", out, e]
    return out


def mul(*es):
    out = es[0]
    for e in es[1:]:
        out = ["mul", out, e]
    return out


def affine(a, b, c):
    """a*y + b*x + c"""
    return add(mul(C(a), ["y"]), mul(C(b), ["x"]), C(c))


def power(e, n):
    return mul(*([e] * n)) if n > 0 else C(1)


def poly(terms):
    """sum of c * y^i * x^j"""
    es = [mul(C(c), power(["y"], i), power(["x"], j)) for c, i, j in terms]
    return add(*es) if es else C(0)


# ------------------------------------------------------------------------------------------------
# geometry of the property, from the statement (independent of the code's formulas)
# ------------------------------------------------------------------------------------------------
def geom_of(case):
    return tuple(F(v) for v in case["geom"])


def unmasked_pixels(mj):
    h, w = mj["h"], mj["w"]
    return [(i // w, i % w) for i, c in enumerate(mj["bits"]) if c == "0"]


def pixel_centre(h, w, g, y, x):
    sy, sx, oy, ox = g
    return (oy + (F(h - 1, 2) - y) * sy, ox + (x - F(w - 1, 2)) * sx)


def sub_centres(g, P, s):
    """centres of the uniform s×s partition of the pixel square centred on P: rows from the top edge
    downwards, columns from the left edge rightwards."""
    sy, sx, _, _ = g
    top, left = P[0] + sy / 2, P[1] - sx / 2
    return [(top - F(2 * a + 1, 2 * s) * sy, left + F(2 * b + 1, 2 * s) * sx)
            for a in range(s) for b in range(s)]


def expand_sub(case, n):
    ad = (case.get("conf") or {}).get("adaptive")
    if ad and case.get("path") == "none":
        # over_sampling=None: the sub-size map is what the configuration in force at call time prescribes
        if "_amap" not in case:
            mg = []
            case["_amap"] = adaptive_sub_map(case["mask"], geom_of(case), tuple(F(v) for v in case["centre"]),
                                             [int(v) for v in ad["ssl"]], [F(v) for v in ad["rfl"]], mg)
            case["_amargin"] = min(mg) if mg else None
        return list(case["_amap"])
    s = case["sub"]
    return [s] * n if isinstance(s, int) else list(s)


def level_table(mj, g, f, steps, margins, errs=None):
    """v[l][k]: level 0 = f at the pixel centre, level l>=1 = mean of f over the sub_steps[l-1]^2
    sub-centres of pixel k.  If `errs` is a list it receives the matching table of rounding bounds."""
    # memo (harness-internal, results are never mutated): the generator, the margin check in run_impl, the
    # comparison and the oracle all ask for the table of the same world
    key = (mj["h"], mj["w"], mj["bits"], tuple(g), json.dumps(f), tuple(steps))
    hit = _LT_MEMO.get(key)
    if hit is None:
        h, w = mj["h"], mj["w"]
        px = unmasked_pixels(mj)
        tab, et, mg = [], [], []
        for s in [None] + list(steps):
            row, erow = [], []
            for (y, x) in px:
                P = pixel_centre(h, w, g, y, x)
                cex = geom_float_exact(g) and (s is None or is_pow2(s))
                v, e = mean_with_err(f, [P] if s is None else sub_centres(g, P, s), mg, cex)
                row.append(v)
                erow.append(e)
            tab.append(row)
            et.append(erow)
        if len(_LT_MEMO) > 6000:
            _LT_MEMO.clear()
        hit = _LT_MEMO[key] = (tab, et, mg)
    tab, et, mg = hit
    margins.extend(mg)
    if errs is not None:
        errs.extend(et)
    return tab


_LT_MEMO = {}


def is_pow2(n):
    return n > 0 and (n & (n - 1)) == 0


def geom_float_exact(g):
    """pixel scales are powers of two and the origin a small dyadic: the implementation's pixel-centre
    coordinates are then computed without rounding."""
    sy, sx, oy, ox = g
    for s in (sy, sx):
        if not ((s.numerator == 1 and is_pow2(s.denominator)) or (s.denominator == 1 and is_pow2(s.numerator))):
            return False
    for o in (oy, ox):
        if not (is_pow2(o.denominator) and o.denominator <= 1 << 10 and abs(o.numerator) <= 1 << 14):
            return False
    return True


def tie_safe_ratio(lo, hi):
    """an exact tie of the ratio test is decided identically in doubles when both quotients the code
    forms are exact: lo/hi is dyadic (<= 1, no reciprocal taken) or a power of two (> 1)."""
    if hi == 0:
        return False
    r = lo / hi
    if r <= 1:
        return is_pow2(r.denominator) and r.denominator <= 1 << 20
    return r.denominator == 1 and is_pow2(r.numerator)


def iterate_expected(table, fr, rel, exact, errs=None):
    """per pixel: the value the property prescribes and whether the pixel has to be left out of the
    comparison because a decision on its way lies in the tie band (1e-9 plus the rounding bound of the
    implementation's doubles, errs[l][k]) or the selected value itself is not known to 1e-9.
    table[l][k], l = 0..n."""
    n = len(table) - 1
    out, band = [], []
    for k in range(len(table[0])):
        val, eval_, inband = table[n][k], (errs[n][k] if errs else 0), False
        for l in range(1, n):
            lo, hi = table[l - 1][k], table[l][k]
            elo, ehi = (errs[l - 1][k], errs[l][k]) if errs else (0, 0)
            # each test is True / False / None (= inside the tie band)
            st_ratio, st_rel = True, True
            if fr is not None:
                # ratio of the smaller to the larger value, defined only when the previous value is
                # positive; a non-positive current value never agrees with a positive previous one
                # (fractional accuracies are positive)
                if lo > elo:
                    if hi > ehi:
                        ratio = min(lo, hi) / max(lo, hi)
                        slack = 2 * ratio * (elo / lo + ehi / hi)
                        d = abs(ratio - fr)
                        if d <= BAND + slack and not (d == 0 and slack == 0 and exact
                                                      and tie_safe_ratio(lo, hi)):
                            st_ratio = None
                        else:
                            st_ratio = ratio >= fr
                    else:
                        st_ratio = False   # current value <= 0 (or indistinguishable from 0): ratio <= ~0
                elif lo <= -elo:
                    st_ratio = False
                else:
                    st_ratio = None        # sign of the previous value not decided by doubles
            if rel is not None:
                d = abs(abs(lo - hi) - rel)
                if d <= BAND + elo + ehi and not (d == 0 and elo == 0 and ehi == 0 and exact):
                    st_rel = None
                else:
                    st_rel = abs(lo - hi) <= rel
            if st_ratio is False or st_rel is False:
                ok = False
            elif st_ratio is None or st_rel is None:
                inband = True
                break
            else:
                ok = True
            if ok:
                val, eval_ = hi, ehi
                break
        if 2 * eval_ > BAND * max(1, abs(val)):
            inband = True
        out.append(val)
        band.append(inband)
    return out, band


# ------------------------------------------------------------------------------------------------
# round 5/6 (R5-C): the same numbers in another container / memory layout / dtype
# ------------------------------------------------------------------------------------------------
def _garbage(a):
    return ~a if a.dtype == bool else (a + 12345).astype(a.dtype)


def strided_view(a):
    """equal values as a non-contiguous view: every second entry (1-D, or row of an (N,2) array) / every second
    row and third column (2-D masks) of a buffer whose other entries are garbage"""
    a = np.asarray(a)
    if a.ndim == 2 and a.dtype == bool:
        big = np.repeat(np.repeat(_garbage(a), 2, axis=0), 3, axis=1)
        big[::2, ::3] = a
        return big[::2, ::3]
    big = np.empty((2 * a.shape[0],) + a.shape[1:], dtype=a.dtype)
    big[1::2] = _garbage(a)
    big[::2] = a
    return big[::2]


def array_variant(a, how):
    """`a` (ndarray) handed over as `how`; None / unknown -> unchanged"""
    if not how or how in ("ndarray", "f64"):
        return a
    if how == "fortran":
        return np.asfortranarray(a)
    if how == "tview":                       # C-contiguous buffer of the transpose, seen through .T
        return np.ascontiguousarray(a.T).T
    if how == "strided":
        return strided_view(a)
    if how == "reversed":                    # negative strides
        return np.ascontiguousarray(a[::-1])[::-1]
    if how == "readonly":
        o = a.copy()
        o.setflags(write=False)
        return o
    if how == "list":
        return a.tolist()
    if how == "tuple":
        return tuple(a.tolist())
    if how == "tuple_rows":
        return [tuple(r) for r in a.tolist()]
    if how in ("f32", "i64", "i32", "i16", "u8", "int01"):
        return a.astype({"f32": np.float32, "i64": np.int64, "i32": np.int32, "i16": np.int16, "u8": np.uint8,
                         "int01": np.int64}[how])
    return a


def ret_variant(out, how, aa):
    """what the user function hands back (R5-C)"""
    if not how:
        return out
    if how == "irregular":
        return aa.ArrayIrregular(values=out)
    return array_variant(np.asarray(out), how)


def pow2(k):
    return F(2) ** int(k)


def subst(e, ey, ex):
    """the expression tree with (y, x) replaced by the trees (ey, ex)"""
    k = e[0]
    if k == "y":
        return ey
    if k == "x":
        return ex
    if k == "c":
        return e
    if k == "lookup":
        return ["lookup", subst(e[1], ey, ex), subst(e[2], ey, ex), e[3], e[4], e[5]]
    return [k] + [subst(c, ey, ex) for c in e[1:]]


# ------------------------------------------------------------------------------------------------
# round 5/6 (R5-D): the configuration values the anchored code reads through `conf.instance[...]`
# ------------------------------------------------------------------------------------------------
CONF_PROFILE = "MockGrid2DLikeObj"
CONF_KEYS = {
    "native_only": ("general", "structures", "native_binned_only", None),
    "ssl": ("grids", "over_sampling", "sub_size_list", CONF_PROFILE),
    "rfl": ("grids", "over_sampling", "radial_factor_list", CONF_PROFILE),
}


def _conf_slot(name):
    from autoconf import conf

    a, b, c, d = CONF_KEYS[name]
    sec = conf.instance[a][b]
    return (sec, c) if d is None else (sec[c], d)


class conf_overrides:
    """context: the named configuration values are in force; the previous values are put back on exit (also on
    exceptions)."""

    def __init__(self, cfg):
        self.cfg = dict(cfg or {})
        self.old = []

    def __enter__(self):
        for k, v in self.cfg.items():
            sec, key = _conf_slot(k)
            self.old.append((sec, key, sec[key]))
            sec[key] = v
        return self

    def __exit__(self, *exc):
        for sec, key, v in reversed(self.old):
            sec[key] = v
        return False


def conf_of(case):
    """case["conf"] = {"adaptive": {"ssl": [...], "rfl": ["p/q", ...]}} -> override dict for `conf_overrides`"""
    ad = (case.get("conf") or {}).get("adaptive")
    if not ad:
        return {}
    return {"ssl": [int(v) for v in ad["ssl"]], "rfl": [float(F(v)) for v in ad["rfl"]]}


def adaptive_sub_map(mj, g, centre, ssl, rfl, margins):
    """what the configuration entries `sub_size_list` / `radial_factor_list` mean (grids.yaml, docstring of
    OverSamplingUniform.from_radial_bins): circles of radius min(pixel scale) * factor around the centre of the pixel
    that contains the profile centre; a pixel whose centre lies inside the j-th circle (and in none before) gets
    sub_size_list[j], pixels outside every circle the last entry.  Appends the relative distance of every decision
    (pixel edge for the snapping, circle for the bins) to its tie to `margins`."""
    h, w = mj["h"], mj["w"]
    sy, sx, oy, ox = g
    ty, tx = (oy + F(h, 2) * sy - centre[0]) / sy, (centre[1] - (ox - F(w, 2) * sx)) / sx   # pixel units from the top-left corner
    iy, ix = math.floor(ty), math.floor(tx)
    margins.append(min(ty - iy, iy + 1 - ty, tx - ix, ix + 1 - tx))
    margins.append(F(1) if (0 <= iy < h and 0 <= ix < w) else F(0))      # only centres inside the frame are generated
    cy, cx = pixel_centre(h, w, g, iy, ix)
    out = []
    for (y, x) in unmasked_pixels(mj):
        py, px = pixel_centre(h, w, g, y, x)
        r2 = (py - cy) ** 2 + (px - cx) ** 2
        s = ssl[-1]
        for j, rf in enumerate(rfl):
            R2 = (min(sy, sx) * rf) ** 2
            margins.append(abs(r2 - R2) / R2)
            if r2 < R2:
                s = ssl[j]
                break
        out.append(int(s))
    return out


def rows_contiguous(mj):
    """the unmasked pixels occupy consecutive rows (Grid2D.is_uniform, which gates the adaptive scheme, looks at
    the differences of successive y coordinates)"""
    rows = sorted({y for y, _ in unmasked_pixels(mj)})
    return not rows or rows[-1] - rows[0] + 1 == len(rows)


# ------------------------------------------------------------------------------------------------
# the mock profile classes (the class name is looked up in the pinned config when
# over_sampling is None: MockGrid2DLikeObj has sub_size_list [1, 1])
# ------------------------------------------------------------------------------------------------
_classes = {}


def profile_classes():
    if _classes:
        return _classes
    aa = load_autoarray()

    def plain(obj, grid, *args, **kwargs):
        g = np.asarray(grid)
        return obj.evaluate(g)

    class MockGrid2DLikeObj:
        def __init__(self, f=None, table=None, geom=None, shape=None, ret_int=False,
                     raise_at=None, raise_cls=ValueError, short=False, ret_as=None, centre=(0.0, 0.0)):
            self.centre = centre
            self.ret_int = ret_int   # hand back an integer-dtype array (values are integral)
            self.ret_as = ret_as     # round 5/6 (R5-C): container / layout / dtype of the returned values
            self.f = f
            self.table = table
            self.geom = geom
            self.shape = shape
            self.calls = 0
            # injected faults (history stream only; off by default): raise on the `raise_at`-th evaluation,
            # hand back one value too few
            self.evals = 0
            self.raise_at = raise_at
            self.raise_cls = raise_cls
            self.short = short

        def evaluate(self, g):
            self.evals += 1
            if self.raise_at is not None and self.evals >= self.raise_at:
                raise self.raise_cls("injected fault: the user function rejects this evaluation")
            if self.short:
                return self._evaluate(g)[:-1]
            out = self._evaluate(g)
            chk = CHECK
            if chk._cap is not None:          # ownership histories (R5-B): the argument and the result are
                chk._cap.append(g)            # scribbled over after the call
                chk._cap.append(out)
            if chk._cb_edit and isinstance(g, np.ndarray) and g.flags.writeable:
                # a user function that edits its argument in place, after it has used it
                try:
                    if chk._cb_edit == "nan":
                        g[...] = np.nan
                    else:
                        g += 1.5
                except Exception:
                    pass
            return ret_variant(out, self.ret_as, aa)

        def _evaluate(self, g):
            if self.table is not None:
                lvl = min(self.calls, len(self.table) - 1)
                self.calls += 1
                sy, sx, oy, ox = self.geom
                h, w = self.shape
                iy = np.clip(np.floor((oy + h * sy / 2 - g[:, 0]) / sy).astype(int), 0, h - 1)
                ix = np.clip(np.floor((g[:, 1] - (ox - w * sx / 2)) / sx).astype(int), 0, w - 1)
                out = np.asarray(self.table[lvl])[iy * w + ix]
                return out.astype(np.int64) if self.ret_int else out
            out = ev_np(self.f, g[:, 0].astype(float), g[:, 1].astype(float))
            return out.astype(np.int64) if self.ret_int else out

        @aa.over_sample
        @aa.grid_dec.to_array
        def image_2d_from(self, grid, *args, **kwargs):
            return self.evaluate(np.asarray(grid))

        @aa.over_sample
        def raw_from(obj, grid, *args, **kwargs):
            # no inner decorator: the wrapper calls `func(obj=obj, grid=grid)` when over-sampling is
            # off, so the first parameter has to be called `obj`
            return obj.evaluate(np.asarray(grid))

    _classes["cls"] = MockGrid2DLikeObj
    _classes["plain"] = plain
    return _classes


def _slim(res):
    try:
        res = res.slim
    except AttributeError:
        pass
    return qlist(np.asarray(res, dtype=float).ravel())


# ------------------------------------------------------------------------------------------------
# generators
# ------------------------------------------------------------------------------------------------
SCALES = [F(1, 4), F(1, 2), F(3, 4), F(1), F(3, 2), F(2), F(3), F(1, 8), F(5, 4), F(1, 10), F(7, 10)]


def rand_geom(rng, exact=False):
    if exact:
        sy, sx = rng.choice([F(1, 4), F(1, 2), F(1), F(2)]), rng.choice([F(1, 4), F(1, 2), F(1), F(2)])
        oy, ox = sy * rng.randint(-6, 6) / 2, sx * rng.randint(-6, 6) / 2
    else:
        sy, sx = rng.choice(SCALES), rng.choice(SCALES)
        if rng.random() < 0.25:
            oy, ox = F(0), F(0)
        else:
            oy, ox = gen.dyadic(rng, -4, 4, 3), gen.dyadic(rng, -4, 4, 3)
    return [q(sy), q(sx), q(oy), q(ox)]


def rand_int_geom(rng):
    """integral pixel scales and origin (passed to Mask2D as Python ints)"""
    return [q(F(rng.choice([1, 1, 2, 3, 4]))), q(F(rng.choice([1, 2, 2, 3]))),
            q(F(rng.randint(-4, 4))), q(F(rng.randint(-4, 4)))]


def degenerate_mask(rng):
    """zero / one unmasked pixel, 1x1, 1xN, Nx1, all unmasked"""
    k = rng.choice(["all_masked", "single", "1x1", "1xN", "Nx1", "all_unmasked"])
    if k == "1x1":
        return [[rng.random() < 0.3]], k
    if k == "1xN":
        w = rng.randint(2, 6)
        return [[rng.random() < 0.4 for _ in range(w)]], k
    if k == "Nx1":
        h = rng.randint(2, 6)
        return [[rng.random() < 0.4] for _ in range(h)], k
    h, w = rng.randint(1, 4), rng.randint(1, 4)
    if k == "all_masked":
        return [[True] * w for _ in range(h)], k
    if k == "all_unmasked":
        return [[False] * w for _ in range(h)], k
    m = [[True] * w for _ in range(h)]
    m[rng.randrange(h)][rng.randrange(w)] = False
    return m, k


def rand_mask(rng, hmax=6, wmax=6, max_unmasked=None):
    for _ in range(50):
        h, w = rng.randint(1, hmax), rng.randint(1, wmax)
        m, kind = gen.random_mask(rng, h, w)
        n = sum(1 for r in m for b in r if not b)
        if n >= 1 and (max_unmasked is None or n <= max_unmasked):
            return m, kind
    return [[False]], "single"


def rand_sub(rng, n, budget=1600):
    """a per-pixel sub-size map in 1..8 (or one int), total sub-pixels bounded."""
    mode = rng.choice(["int", "int", "arr", "arr", "arr", "spike", "ones_arr", "two_level"])
    if mode == "int":
        smax = max(1, min(8, int(math.isqrt(budget // max(1, n)))))
        return rng.randint(1, smax), "int"
    if mode == "ones_arr":
        return [1] * n, "ones_arr"
    if mode == "spike":
        sub = [1] * n
        sub[rng.randrange(n)] = rng.randint(2, 8)
        return sub, "spike"
    if mode == "two_level":
        a, b = rng.randint(1, 4), rng.randint(2, 8)
        sub = [a if rng.random() < 0.6 else b for _ in range(n)]
    else:
        sub = [rng.randint(1, 8) for _ in range(n)]
    while sum(s * s for s in sub) > budget:
        i = max(range(n), key=lambda j: sub[j])
        sub[i] = max(1, sub[i] - 1)
    return sub, mode


def rand_func(rng, mj, g, positive=False):
    """a user function of (y,x) as an expression tree + its class name."""
    h, w = mj["h"], mj["w"]
    sy, sx, oy, ox = g
    px = unmasked_pixels(mj) or [(0, 0)]
    cy, cx = pixel_centre(h, w, g, *rng.choice(px))
    d = lambda lo=-4, hi=4, bits=2: gen.dyadic(rng, lo, hi, bits)
    kinds = ["const", "affine", "poly", "product", "rational", "step", "lattice", "peak", "mixed"]
    if positive:
        kinds = ["peak", "peak", "rational", "lattice_pos", "poly_pos", "step_pos", "product", "mixed"]
    kind = rng.choice(kinds)
    if kind == "const":
        return C(d()), kind
    if kind == "affine":
        return affine(d(), d(), d()), kind
    if kind in ("poly", "poly_pos"):
        terms = [(d(-3, 3), rng.randint(0, 3), rng.randint(0, 3)) for _ in range(rng.randint(1, 4))]
        e = poly([(c, i, j) for c, i, j in terms if i + j <= 3] or [(F(1), 1, 1)])
        if kind == "poly_pos":
            e = add(mul(e, e), C(F(rng.randint(0, 4), 4)))
        return e, kind
    if kind == "product":
        # product of lines, some through a pixel centre / a pixel corner: zeros and sign changes
        fs = []
        for _ in range(rng.randint(2, 3)):
            a, b = d(-2, 2), d(-2, 2)
            if a == 0 and b == 0:
                a = F(1)
            py, pxx = (cy, cx) if rng.random() < 0.5 else (cy + sy / 2, cx - sx / 2)
            if rng.random() < 0.3:
                py, pxx = py + d(-1, 1, 3), pxx + d(-1, 1, 3)
            fs.append(affine(a, b, -(a * py + b * pxx)))
        return mul(*fs), kind
    if kind == "rational":
        num = poly([(d(-3, 3), rng.randint(0, 2), rng.randint(0, 2)) for _ in range(rng.randint(1, 3))])
        if positive:
            num = add(mul(num, num), C(F(1, 4)))
        l1 = affine(d(-2, 2), d(-2, 2), d())
        return ["div", num, add(C(F(rng.randint(1, 8), 4)), mul(l1, l1))], kind
    if kind == "peak":
        # 1 / (eps + a (y-y0)^2 + b (x-x0)^2): converges late near (y0,x0), early far away
        y0, x0 = cy + sy * d(-1, 1, 3), cx + sx * d(-1, 1, 3)
        eps = F(rng.choice([1, 1, 2, 4, 16]), 16)
        dy, dx = affine(1, 0, -y0), affine(0, 1, -x0)
        den = add(C(eps), mul(C(F(rng.randint(1, 8), 2)), dy, dy), mul(C(F(rng.randint(1, 8), 2)), dx, dx))
        return ["div", C(F(rng.randint(1, 12), 4)), den], kind
    if kind in ("step", "step_pos"):
        a, b = d(-2, 2), d(-2, 2)
        if a == 0 and b == 0:
            b = F(1)
        line = affine(a, b, -(a * cy + b * cx) + F(rng.choice([-3, -1, 1, 3]), 16) * (abs(a) * sy + abs(b) * sx + 1))
        if kind == "step_pos":
            return ["gt0", line, C(F(rng.randint(1, 16), 4)), C(F(rng.randint(1, 16), 4))], kind
        return ["gt0", line, affine(d(), d(), d()), C(d())], kind
    if kind in ("lattice", "lattice_pos"):
        # piecewise constant on an odd L×L lattice per pixel: no sub-centre of any sub-size ever lies
        # on a lattice line (L(2j+1) is odd, 2si is even)
        L = rng.choice([3, 3, 5]) if h * w > 12 else rng.choice([3, 5, 7, 9])
        hh, ww = h * L, w * L
        if kind == "lattice_pos":
            tab = [F(rng.randint(1, 64), 8) for _ in range(hh * ww)]
            if rng.random() < 0.5:   # smooth-ish: mostly equal values with a few outliers
                base = F(rng.randint(8, 32), 8)
                tab = [base if rng.random() < 0.8 else v for v in tab]
        else:
            tab = [rng.choice([F(0), F(0), d(-4, 4, 3), d(-4, 4, 3), F(1)]) for _ in range(hh * ww)]
        ey = mul(C(F(L) / sy), affine(-1, 0, oy + h * sy / 2))
        ex = mul(C(F(L) / sx), affine(0, 1, -(ox - w * sx / 2)))
        return ["lookup", ey, ex, hh, ww, qlist(tab)], kind
    # mixed: sum / product of two simpler ones
    e1, _ = rand_func(rng, mj, g, positive)
    e2, _ = rand_func(rng, mj, g, positive)
    return ([rng.choice(["add", "mul"]), e1, e2] if not positive else ["add", e1, e2]), "mixed"


def expr_size(e):
    if not isinstance(e, list):
        return 1
    if e[0] == "lookup":
        return 1 + expr_size(e[1]) + expr_size(e[2])
    return 1 + sum(expr_size(c) for c in e[1:])


def hug(rng, v):
    """a double within 2^-20 (relative) of the positive rational v, on a random side."""
    if rng.random() < 0.5:
        t = v * (1 + F(1, 1 << 20))
    else:
        t = v * (1 - F(1, 1 << 20))
    return F(float(t))


# ------------------------------------------------------------------------------------------------
# LARGE cases (round 4, DESIGN §13): sizes on both sides of an integer constant that appeared in the
# anchored source.  A large case is a compact RECIPE (frame, rectangles, sub-size pattern, function
# tree); the mask / sub-size map are expanded when it runs.  No model comparison: the oracle states
# the property directly with vectorised numpy on the implementation's raw output.
# ------------------------------------------------------------------------------------------------
LARGE_CAP = {"sub_pixels": 300_000, "unmasked": 140_000, "frame": 1_200_000, "sub_size": 40}


def large_mask(rec):
    """recipe -> boolean mask (True = masked).  `base` fills the frame, `rects` [y0,y1,x0,x1,v] paint
    rectangles in order, `skip` masks the first `skip` unmasked pixels (row-major) so that the number
    of unmasked pixels is exact."""
    h, w = rec["h"], rec["w"]
    m = np.full((h, w), rec.get("base", "unmasked") == "masked", dtype=bool)
    for y0, y1, x0, x1, v in rec.get("rects", []):
        m[y0:y1, x0:x1] = bool(v)
    skip = rec.get("skip", 0)
    if skip:
        flat = m.reshape(-1)
        flat[np.flatnonzero(~flat)[:skip]] = True
    return m


def large_sub(spec, n):
    """int | {"pattern": [...], "tail": [...]} -> per-pixel sub-size array of length n"""
    if isinstance(spec, int):
        return np.full(n, spec, dtype=int)
    tail = [int(s) for s in spec.get("tail", [])]
    body = np.resize(np.array(spec["pattern"], dtype=int), max(0, n - len(tail)))
    return np.concatenate([body, np.array(tail, dtype=int)]).astype(int)[:n] if n else np.zeros(0, dtype=int)


def sub_spec_for_total(total, pattern):
    """a cyclic per-pixel pattern plus a short tail whose squares sum to exactly `total`
    -> (spec, number of pixels)"""
    sq = [s * s for s in pattern]
    cycles = total // sum(sq)
    k, rem, i = cycles * len(pattern), total - cycles * sum(sq), 0
    while rem >= sq[i % len(pattern)]:
        rem -= sq[i % len(pattern)]
        k += 1
        i += 1
    tail = []
    while rem > 0:
        s = min(8, math.isqrt(rem))
        tail.append(s)
        rem -= s * s
    return {"pattern": list(pattern), "tail": tail}, k + len(tail)


def mask_recipe_for_unmasked(n, rng):
    """a non-square frame with a masked strip on the top edge and a hole, exactly n unmasked pixels,
    touching three frame edges"""
    w = max(3, int(math.isqrt(max(1, int(n * rng.choice([0.55, 0.7, 1.45, 1.9]))))) | 1)
    h = -(-(n + 16) // w) + 1
    rects = [[0, 1, 0, min(w, 7), 1]]
    if h >= 6 and w >= 6:
        rects.append([h // 2, h // 2 + 3, w // 2, w // 2 + 2, 1])
    rec = {"h": h, "w": w, "base": "unmasked", "rects": rects, "skip": 0}
    u = int((~large_mask(rec)).sum())
    if u < n:   # tiny n: plain strip
        rec = {"h": 1, "w": n, "base": "unmasked", "rects": [], "skip": 0}
        u = n
    rec["skip"] = u - n
    return rec


def mask_recipe_for_frame(total, rng):
    """a frame of exactly `total` pixels (non-square when `total` has a divisor pair), masked except for a
    small region that touches the bottom-right corner and a few isolated pixels near the top-left"""
    h = 1
    for d in range(math.isqrt(total), 0, -1):
        if total % d == 0 and d * d != total:
            h = d
            break
    else:
        h = math.isqrt(total) if math.isqrt(total) ** 2 == total else 1
    w = total // h
    if rng.random() < 0.5 and h > 1:
        h, w = w, h
    rects = [[max(0, h - 4), h, max(0, w - 6), w, 0]]
    if h > 6 and w > 8:
        rects += [[1, 2, 2, 3, 0], [2, 3, 0, 1, 0], [max(0, h - 6), max(1, h - 5), max(0, w - 7), max(1, w - 6), 0]]
    return {"h": h, "w": w, "base": "masked", "rects": rects, "skip": 0}


def large_values(total):
    """distinct-ish exact integer sub-values for the binning clause"""
    j = np.arange(total, dtype=np.int64)
    return ((j * 2654435761) % 2003 - 1001).astype(float)


def large_geometry(rec, g, sub):
    """the property's geometry, vectorised: pixel (iy, ix), centres, and for every sub-pixel its pixel k,
    its row a and column b inside the pixel, and its centre (y, x)"""
    sy, sx, oy, ox = (float(v) for v in g)
    m = large_mask(rec)
    h, w = m.shape
    iy, ix = np.nonzero(~m)            # row-major == slim order
    yc = oy + ((h - 1) / 2.0 - iy) * sy
    xc = ox + (ix - (w - 1) / 2.0) * sx
    sq = sub.astype(np.int64) ** 2
    cum = np.concatenate([[0], np.cumsum(sq)]).astype(np.int64)
    k = np.repeat(np.arange(len(sub)), sq)
    loc = np.arange(cum[-1], dtype=np.int64) - cum[k]
    sk = sub[k]
    a, b = loc // np.maximum(sk, 1), loc % np.maximum(sk, 1)
    y = yc[k] + sy / 2.0 - (2 * a + 1) / (2.0 * sk) * sy
    x = xc[k] - sx / 2.0 + (2 * b + 1) / (2.0 * sk) * sx
    return {"iy": iy, "ix": ix, "yc": yc, "xc": xc, "cum": cum, "k": k, "a": a, "b": b, "y": y, "x": x,
            "sq": sq, "sy": sy, "sx": sx}


def ev_np_abs(e, Y, X):
    """the tree evaluated on absolute values: magnitude against which rounding is judged"""
    k = e[0]
    if k == "c":
        return np.full(Y.shape, abs(float(F(e[1]))))
    if k == "y":
        return np.abs(Y)
    if k == "x":
        return np.abs(X)
    if k in ("add", "sub"):
        return ev_np_abs(e[1], Y, X) + ev_np_abs(e[2], Y, X)
    if k == "mul":
        return ev_np_abs(e[1], Y, X) * ev_np_abs(e[2], Y, X)
    if k == "neg":
        return ev_np_abs(e[1], Y, X)
    if k == "div":
        return ev_np_abs(e[1], Y, X) / np.abs(ev_np(e[2], Y, X))
    raise ValueError(k)


def pixel_means(f, geo):
    """per-pixel mean of f over the pixel's own sub-centres, and the magnitude of the summands"""
    starts = geo["cum"][:-1]
    v = np.add.reduceat(ev_np(f, geo["y"], geo["x"]), starts) / geo["sq"]
    mag = np.add.reduceat(ev_np_abs(f, geo["y"], geo["x"]), starts) / geo["sq"]
    return v, mag


def large_func(rng, centre, scales, positive=False):
    """smooth, no discrete decisions: affine part (absent when positive) + a rational peak near `centre`"""
    cy, cx = centre
    sy, sx = scales
    y0, x0 = cy + sy * gen.dyadic(rng, -1, 1, 3), cx + sx * gen.dyadic(rng, -1, 1, 3)
    dy, dx = affine(1, 0, -y0), affine(0, 1, -x0)
    den = add(C(F(rng.choice([1, 2, 4, 16]), 16)), mul(C(F(rng.randint(1, 8), 2)), dy, dy),
              mul(C(F(rng.randint(1, 8), 2)), dx, dx))
    peak = ["div", C(F(rng.randint(1, 12), 4)), den]
    if positive:
        return add(C(F(rng.randint(1, 8), 8)), peak)
    a, b = gen.dyadic(rng, -4, 4, 2), gen.dyadic(rng, -4, 4, 2)
    return add(affine(a or F(3), b or F(-5), gen.dyadic(rng, -4, 4, 2)), peak)


def _digest(arr):
    a = np.ascontiguousarray(arr)
    import hashlib

    return {"len": int(a.shape[0]) if a.ndim else 1, "sha1": hashlib.sha1(a.tobytes()).hexdigest()[:12],
            "head": [float(v) for v in a.reshape(-1)[:4]]}


class C09(PropertyCheck):
    pid = "C09"
    generated_modules = ["OverSample"]  # second tie: translated sub-grid formulas = Model/OverSample.lean (over any field)
    title = "over-sampling: uniform partition, per-pixel means, decorator, iterate rule"
    rtol = F(1, 10 ** 9)
    nontrivial_rule = (
        "uniform: some sub-size >= 2; func: over-sampling performed (not all sub-sizes 1) or a "
        "non-constant function; iterate: schedule of >= 2 sub-sizes and at least two pixels stopping at "
        "different levels or a threshold-hugging case; distinct = distinct case dict"
    )
    exhaustive_note = {
        "quick": "uniform tables: every mask with >=1 unmasked pixel for every shape with H*W <= 4, with every sub-size map in {1,2,3}^N",
        "thorough": "uniform tables: every mask with >=1 unmasked pixel for every shape with H*W <= 6, with every sub-size map in {1,2,3}^N (N <= 4) / {1,2}^N (N > 4)",
    }
    trusted_extra = [
        "IEEE-754 rounding in the implementation (model and oracle are exact rationals; reals compared to 1e-9, threshold decisions inside the 1e-9 band are not compared)",
        "Array2D / Grid2D / Grid2DIrregular / ArrayIrregular constructors and the to_array decorator wrapping the user function (C01 / C17 territory) are exercised, not modelled",
        "the adaptive sub-size scheme taken when over_sampling is None (config driven; all ones under the pinned config) is an input of the model, not modelled",
        "functools.wraps / *args / **kwargs plumbing of the decorator; cached_property on the over sampler",
    ]
    # loop ties (DESIGN §12): regenerated from the source on every run, tie theorems proved for all sizes
    loop_tie_modules = ["LoopsOverSample", "LoopsOverSample3", "LoopsOverSample2"]
    modelled_functions = [
        "autoarray/geometry/geometry_util.py:central_pixel_coordinates_2d_from",
        "autoarray/geometry/geometry_util.py:central_scaled_coordinate_2d_from",
        "autoarray/structures/grids/grid_2d_util.py:grid_2d_slim_via_mask_from",
        "autoarray/mask/derive/grid_2d.py:DeriveGrid2D.unmasked",
        "autoarray/mask/mask_2d_util.py:total_pixels_2d_from",
        "autoarray/operators/over_sampling/over_sample_util.py:total_sub_pixels_2d_from",
        "autoarray/operators/over_sampling/over_sample_util.py:grid_2d_slim_over_sampled_via_mask_from",
        "autoarray/operators/over_sampling/over_sample_util.py:slim_index_for_sub_slim_index_via_mask_2d_from",
        "autoarray/operators/over_sampling/over_sample_util.py:native_sub_index_for_slim_sub_index_2d_from",
        "autoarray/operators/over_sampling/over_sample_util.py:binned_array_2d_from",
        "autoarray/operators/over_sampling/uniform.py:OverSamplingUniform.__init__",
        "autoarray/operators/over_sampling/uniform.py:OverSamplingUniform.over_sampler_from",
        "autoarray/operators/over_sampling/uniform.py:OverSamplerUniform.__init__",
        "autoarray/operators/over_sampling/uniform.py:OverSamplerUniform.sub_total",
        "autoarray/operators/over_sampling/uniform.py:OverSamplerUniform.sub_pixel_areas",
        "autoarray/operators/over_sampling/uniform.py:OverSamplerUniform.over_sampled_grid",
        "autoarray/operators/over_sampling/uniform.py:OverSamplerUniform.binned_array_2d_from",
        "autoarray/operators/over_sampling/uniform.py:OverSamplerUniform.array_via_func_from",
        "autoarray/operators/over_sampling/uniform.py:OverSamplerUniform.sub_mask_native_for_sub_mask_slim",
        "autoarray/operators/over_sampling/uniform.py:OverSamplerUniform.slim_for_sub_slim",
        "autoarray/operators/over_sampling/decorator.py:perform_over_sampling_from",
        "autoarray/operators/over_sampling/decorator.py:over_sample",
        "autoarray/operators/over_sampling/grid_oversampled.py:Grid2DOverSampled.__init__",
        "autoarray/operators/over_sampling/iterate.py:OverSamplingIterate.__init__",
        "autoarray/operators/over_sampling/iterate.py:OverSamplingIterate.over_sampler_from",
        "autoarray/operators/over_sampling/iterate.py:threshold_mask_via_arrays_jit_from",
        "autoarray/operators/over_sampling/iterate.py:iterated_array_jit_from",
        "autoarray/operators/over_sampling/iterate.py:OverSamplerIterate.__init__",
        "autoarray/operators/over_sampling/iterate.py:OverSamplerIterate.array_at_sub_size_from",
        "autoarray/operators/over_sampling/iterate.py:OverSamplerIterate.threshold_mask_from",
        "autoarray/operators/over_sampling/iterate.py:OverSamplerIterate.array_via_func_from",
        "autoarray/structures/grids/uniform_2d.py:Grid2D.over_sampler",
        "autoarray/structures/arrays/array_2d_util.py:array_2d_native_from",
        "autoarray/structures/arrays/array_2d_util.py:array_2d_slim_from",
    ]
    assumptions = [
        "sub-size maps have one integer entry in 1..8 per unmasked pixel; schedules are non-empty lists of Python ints",
        "the user function is a pure function of the (y,x) points (plus, for the table generator, of the call count) returning finite values",
        "fractional_accuracy > 0 when set",
        "the user function returns an ndarray-like (ndarray of any layout / float or int dtype, ArrayIrregular); Python lists / tuples are rejected by the library itself",
        "objects built while general.structures.native_binned_only is set are not reused after it is cleared",
    ]

    # -------------------------------------------------------------------------------- generation
    def generate(self, tier, rng):
        quick = tier == "quick"
        # 0. thorough tier only: a first portion of the history stream leads (the escalation phase and the
        #    failing-input search cut the thorough stream by time); the quick stream is unchanged
        n_hist_first = 0 if quick else self.N_HISTORIES_FIRST
        for _ in range(n_hist_first):
            hc = self._history_case(rng, quick)
            if hc:
                yield hc
        # 1. exhaustive small masks × sub maps (index tables, grid, binning)
        cells = 4 if quick else 6
        for (h, w) in gen.shapes_upto(cells):
            geom = rand_geom(rng)
            for m in gen.all_masks(h, w, min_unmasked=0):
                n = sum(1 for r in m for b in r if not b)
                alphabet = (1, 2, 3) if n <= 4 else (1, 2)
                import itertools

                for sub in itertools.product(alphabet, repeat=n):
                    yield self._uniform_case(rng, m, geom, list(sub), "uniform_exhaustive")
        # 2. structured random uniform cases
        for _ in range(150 if quick else 1500):
            if rng.random() < 0.2:
                m, kind = degenerate_mask(rng)
            else:
                m, kind = rand_mask(rng, 7, 7)
            n = sum(1 for r in m for b in r if not b)
            sub, smode = rand_sub(rng, n, 900 if quick else 2500) if n else (rng.choice([1, 2, []]), "empty")
            geom = rand_int_geom(rng) if rng.random() < 0.2 else rand_geom(rng)
            yield self._uniform_case(rng, m, geom, sub, f"uniform_{smode}")
        # 3. user functions through every dispatch path
        for _ in range(260 if quick else 2600):
            yield self._func_case(rng, quick)
        # 4. iterate, expression trees
        for _ in range(260 if quick else 2600):
            c = self._iterate_case(rng, quick)
            if c:
                yield c
        # 5. iterate, explicit tables (exact doubles: exact ties are compared)
        for _ in range(260 if quick else 2600):
            yield self._table_case(rng, quick)
        # 6. functions vanishing at every pixel centre (the early-return class)
        for _ in range(6 if quick else 40):
            yield self._zero_centre_case(rng)
        # 7. HISTORY stream (round 4): short typed histories on real reused objects; every observation
        #    is compared with the model / oracle value of a FRESH object in that state
        for _ in range(self.N_HISTORIES["quick" if quick else "thorough"] - n_hist_first):
            hc = self._history_case(rng, quick)
            if hc:
                yield hc
        # 8. round 5/6: decades, ownership histories, container / layout variants, configuration histories, option
        #    crossing, always-on sizes beyond 2^15 / 2^16 (after everything else, so that the earlier streams of a seed
        #    are what they were)
        yield from self._r56_stream(tier, rng)

    N_HISTORIES = {"quick": 330, "thorough": 2400}
    N_HISTORIES_FIRST = 400   # thorough tier: this many histories lead the stream (time-cut searches see them)

    def _uniform_case(self, rng, m, geom, sub, tag):
        n = sum(1 for r in m for b in r if not b)
        total = sum(s * s for s in (sub if isinstance(sub, list) else [sub] * n))
        vals = gen.distinct_ints(rng, total)
        values_as = rng.choice(["f64", "f64", "f64", "f64", "i64", "i64", "list_int", "tuple_int", "f32",
                                "list_float"])
        if values_as in ("f64", "f32", "list_float") and rng.random() < 0.6:
            vals = [F(v, 8) for v in vals]
        routes = ["direct", "over_sampling", "grid", "util", "dataset_grids"]
        if n == len(m) * len(m[0]):
            routes += ["grid_uniform", "grid_uniform"]
        geom_as = "int" if all(F(v).denominator == 1 for v in geom) and rng.random() < 0.8 else "float"
        return {"tag": tag, "kind": "uniform", "mask": mask_json(m), "geom": geom, "sub": sub,
                "values": qlist(vals), "route": rng.choice(routes), "values_as": values_as,
                "geom_as": geom_as, "sub_as": rng.choice(["ndarray", "list"])}

    def _func_case(self, rng, quick, force_paths=None):
        if rng.random() < 0.15:
            m, mkind = degenerate_mask(rng)
        else:
            m, mkind = rand_mask(rng, 6, 6)
        mj = mask_json(m)
        n = mj["bits"].count("0")
        geom = rand_int_geom(rng) if rng.random() < 0.2 else rand_geom(rng)
        g = tuple(F(v) for v in geom)
        paths = ["sampler", "decorator", "decorator", "decorator_raw", "oversampled_grid",
                 "custom_grid", "none", "dataset_grids"]
        if n == mj["h"] * mj["w"]:
            paths += ["grid_uniform", "grid_uniform"]
        if force_paths:   # history stream: the dispatch path is chosen by the history script
            paths = list(force_paths)
        path = rng.choice(paths)
        if path == "none":
            sub, smode = [1] * n, "adaptive_ones"
        elif path == "custom_grid" and rng.random() < 0.5:
            sub, smode = (1 if rng.random() < 0.5 else [1] * n), "ones"
        elif n == 0:
            sub, smode = rng.choice([1, 2, []]), "empty"
        else:
            sub, smode = rand_sub(rng, n, 500 if quick else 1500)
        f, fkind = rand_func(rng, mj, g)
        case = {"tag": f"func_{path}_{fkind}", "kind": "func", "mask": mj, "geom": geom, "sub": sub,
                "f": f, "path": path, "sub_as": rng.choice(["ndarray", "list"]),
                "geom_as": "int" if all(F(v).denominator == 1 for v in geom) else "float"}
        if f[0] == "c" and F(f[1]).denominator == 1 and rng.random() < 0.7:
            case["ret_int"] = True          # the user function returns an integer-dtype array
        if path == "custom_grid":
            if rng.random() < 0.4:           # integer-dtype grid values (Python int lists / int64)
                case["grid"] = [[q(F(rng.randint(-6, 6))), q(F(rng.randint(-6, 6)))] for _ in range(n)]
                case["grid_as"] = rng.choice(["list_int", "i64"])
            else:
                case["grid"] = [[q(gen.dyadic(rng, -6, 6, 3)), q(gen.dyadic(rng, -6, 6, 3))] for _ in range(n)]
                case["grid_as"] = rng.choice(["f64", "list_float"])
        return case

    def _steps(self, rng, n, quick):
        pool = [[2], [3], [2, 4], [2, 3], [2, 4, 8], [1, 2], [2, 2], [4, 2], [3, 5], [2, 3, 4],
                [2, 4, 6], [1, 2, 3, 4], [2, 4, 8, 16], [5], [8], [1], [3, 3, 3], [2, 5, 3]]
        for _ in range(20):
            st = rng.choice(pool)
            if n * sum(s * s for s in st) <= (1500 if quick else 4000):
                return st
        return [2, 3]

    def _thresholds(self, rng, table, exact):
        """thresholds hugging actual ratios / differences of the exact level table."""
        n = len(table) - 1
        ratios, diffs = [], []
        for l in range(1, max(n, 2)):
            if l > n:
                break
            for k in range(len(table[0])):
                lo, hi = table[l - 1][k], table[l][k]
                if lo > 0 and hi > 0:
                    ratios.append((min(lo, hi) / max(lo, hi), lo, hi))
                diffs.append(abs(lo - hi))
        mode = rng.choice(["hug", "hug", "hug", "fixed", "fixed", "one", "tie"])
        fr = F(float(rng.choice([F(1, 2), F(9, 10), F(99, 100), F(9999, 10000), F(9999, 10000), F(1, 4)])))
        if mode == "one":
            fr = F(1)
        elif mode in ("hug", "tie") and ratios:
            r, lo, hi = rng.choice(ratios)
            if mode == "tie" and exact and tie_safe_ratio(lo, hi) and r > 0:
                fr = r
            else:
                fr = hug(rng, r)
        if fr <= 0:
            fr = F(1, 2)
        rmode = rng.choice(["none", "none", "big", "hug", "hug", "tie", "small", "zero"])
        rel = None
        nz = [d for d in diffs if d > 0]
        if rmode == "big":
            rel = F(1000)
        elif rmode == "small":
            rel = F(1, 1 << 12)
        elif rmode == "zero":
            rel = F(0)                       # set, but falsy: agreement then needs equal values
        elif rmode in ("hug", "tie") and nz:
            dsel = rng.choice(nz)
            rel = dsel if (rmode == "tie" and exact and F(float(dsel)) == dsel) else hug(rng, dsel)
        if rng.random() < 0.04:
            fr = None
        return fr, rel

    def _call_style(self, rng, geom):
        """how the same reals are handed to the API: kwargs equal to the defaults omitted or explicit,
        schedule as list or tuple, integral thresholds as Python ints, integral geometry as ints."""
        return {"kw_style": rng.choice(["explicit", "explicit", "omit_defaults"]),
                "steps_as": rng.choice(["list", "list", "tuple"]),
                "num_as": rng.choice(["float", "int"]),
                "geom_as": "int" if all(F(v).denominator == 1 for v in geom) else "float"}

    def _iterate_case(self, rng, quick):
        if rng.random() < 0.1:
            m, mkind = degenerate_mask(rng)
        else:
            m, mkind = rand_mask(rng, 6, 6, max_unmasked=14 if quick else 24)
        mj = mask_json(m)
        n = mj["bits"].count("0")
        geom = rand_int_geom(rng) if rng.random() < 0.15 else rand_geom(rng)
        g = tuple(F(v) for v in geom)
        steps = self._steps(rng, n, quick)
        f, fkind = rand_func(rng, mj, g, positive=rng.random() < 0.75)
        if expr_size(f) > 120:
            return None
        margins = []
        try:
            table = level_table(mj, g, f, steps, margins)
        except ZeroDivisionError:
            return None
        fr, rel = self._thresholds(rng, table, False)
        return {"tag": f"iterate_{fkind}", "kind": "iterate", "mask": mj, "geom": geom, "f": f,
                "fr": None if fr is None else q(fr), "rel": None if rel is None else q(rel),
                "steps": steps, "path": rng.choice(["sampler", "sampler", "decorator", "via_over_sampling"]),
                **self._call_style(rng, geom)}

    def _table_case(self, rng, quick):
        if rng.random() < 0.1:
            m, mkind = degenerate_mask(rng)
        else:
            m, mkind = rand_mask(rng, 5, 5, max_unmasked=12)
        mj = mask_json(m)
        h, w = mj["h"], mj["w"]
        n = mj["bits"].count("0")
        exact = rng.random() < 0.7
        steps = rng.choice([[2, 4], [2, 4, 8], [2, 2, 2], [1, 2, 4], [4, 2], [2], [2, 4, 2, 4], [1, 1]]
                           if exact else [[2, 3], [3, 5, 2], [2, 3, 4], [3], [2, 6], [3, 3]])
        nl = len(steps) + 1
        style = rng.choice(["converging", "random", "signed", "zeros", "plateau", "ints"])
        table = []
        for l in range(nl):
            row = []
            for i in range(h * w):
                if style == "converging":
                    base = F(rng.randint(4, 40), 4)
                    v = base + F(rng.randint(-8, 8), 4 << (2 * l))
                elif style == "random":
                    v = F(rng.randint(1, 64), 8)
                elif style == "signed":
                    v = F(rng.randint(-32, 32), 8)
                elif style == "zeros":
                    v = rng.choice([F(0), F(0), F(1), F(2), F(-1), F(1, 2)])
                elif style == "ints":
                    v = F(rng.choice([1, 2, 2, 3, 4, 4, 6, 8, 0, -1]))
                else:
                    v = F(rng.choice([1, 2, 3, 4, 6, 8]), rng.choice([1, 2, 4]))
                row.append(v)
            table.append(row)
        if style == "converging":   # per-pixel persistent base so that ratios approach 1
            for i in range(h * w):
                base = F(rng.randint(4, 40), 4)
                for l in range(nl):
                    table[l][i] = base + F(rng.randint(-8, 8), 4 << (2 * l))
        slim_idx = [i for i, c in enumerate(mj["bits"]) if c == "0"]
        tslim = [[row[i] for i in slim_idx] for row in table]
        fr, rel = self._thresholds(rng, tslim, exact)
        geom = rand_geom(rng, exact=True)
        case = {"tag": f"table_{style}_{'exact' if exact else 'inexact'}", "kind": "iterate", "mask": mj,
                "geom": geom, "table": [qlist(r) for r in table],
                "fr": None if fr is None else q(fr), "rel": None if rel is None else q(rel),
                "steps": steps, "path": rng.choice(["sampler", "decorator", "via_over_sampling"]),
                "exact": exact, **self._call_style(rng, geom)}
        if style == "ints":
            case["ret_int"] = True           # the callable answers with integer-dtype arrays
        return case

    def _zero_centre_case(self, rng):
        """f = a (y - Y0)^2 on a single-row mask whose pixel centres all have y = Y0 (or the x twin):
        zero at every centre, positive on every sub-grid."""
        if rng.random() < 0.5:
            h, w = rng.choice([1, 3]), rng.randint(1, 4)
            row = h // 2
            m = [[not (y == row and rng.random() < 0.8) for x in range(w)] for y in range(h)]
            if all(b for r in m for b in r):
                m[row][0] = False
        else:
            h, w = 2, 2
            m = [[True, True], [True, True]]
            m[rng.randrange(2)][rng.randrange(2)] = False
        mj = mask_json(m)
        geom = rand_geom(rng, exact=rng.random() < 0.75)
        g = tuple(F(v) for v in geom)
        P = pixel_centre(mj["h"], mj["w"], g, *unmasked_pixels(mj)[0])
        dy, dx = affine(1, 0, -P[0]), affine(0, 1, -P[1])
        if len(unmasked_pixels(mj)) == 1:
            f = add(mul(dy, dy), mul(C(F(rng.randint(0, 3))), dx, dx))
        else:
            f = mul(C(F(rng.randint(1, 4))), dy, dy)
        return {"tag": "iterate_zero_at_centres", "kind": "iterate", "mask": mj, "geom": geom, "f": f,
                "fr": q(F(float(F(9, 10)))), "rel": None, "steps": rng.choice([[2], [2, 4], [3, 2]]),
                "path": rng.choice(["sampler", "decorator"])}

    # -------------------------------------------------------------------------------- implementation
    def _mask(self, aa, case):
        mj = case["mask"]
        m = np.array([c == "1" for c in mj["bits"]], dtype=bool).reshape(mj["h"], mj["w"])
        sy, sx, oy, ox = self._geom_numbers(case)
        kw = self._geom_kwargs(case, sy, sx, oy, ox)
        how = case.get("mask_as")
        if how == "inverted":
            return self._keep(aa.Mask2D(mask=self._keep(~m), invert=True, **kw))
        if how in ("from_mask2d", "from_mask2d_same"):
            # a Mask2D built from a Mask2D (R5-C): the geometry explicitly passed to the outer call counts, also when
            # it is falsy (origin (0.0, 0.0)) and the inner mask has another one
            inner = aa.Mask2D(mask=self._keep(m), pixel_scales=(sy, sx), origin=(oy, ox)) if how == "from_mask2d_same" \
                else aa.Mask2D(mask=self._keep(m), pixel_scales=(3.0 * sy, 0.25 * sx), origin=(oy + 5.0, ox - 7.0))
            return self._keep(aa.Mask2D(mask=inner, **kw))
        return self._keep(aa.Mask2D(mask=self._keep(array_variant(m, how)), **kw))

    @staticmethod
    def _geom_kwargs(case, sy, sx, oy, ox):
        """pixel scales / origin in the container the case asks for (same numbers)"""
        ps_as, og_as = case.get("ps_as"), case.get("origin_as")
        ps = (sy, sx)
        if ps_as == "list":
            ps = [sy, sx]
        elif ps_as == "np64":
            ps = (np.float64(sy), np.float64(sx))
        elif ps_as == "nparr":
            ps = np.array([sy, sx], dtype=float)
        elif ps_as == "scalar" and sy == sx:
            ps = sy
        kw = {"pixel_scales": ps}
        og = (oy, ox)
        if og_as == "list":
            og = [oy, ox]
        elif og_as == "np64":
            og = (np.float64(oy), np.float64(ox))
        elif og_as == "nparr":
            og = np.array([oy, ox], dtype=float)
        if not (og_as == "omit" and oy == 0 and ox == 0):
            kw["origin"] = og
        return kw

    @staticmethod
    def _geom_numbers(case):
        """pixel scales / origin as Python floats, or as Python ints when integral and asked for"""
        fr = [F(v) for v in case["geom"]]
        if case.get("geom_as") == "int" and all(v.denominator == 1 for v in fr):
            return tuple(int(v) for v in fr)
        return tuple(float(v) for v in fr)

    def _sub_size(self, aa, case, mask):
        s = case["sub"]
        if isinstance(s, int):
            return int(s)
        how = case.get("sub_as")
        if how == "list":
            return self._keep(aa.Array2D(values=[int(v) for v in s], mask=mask))
        arr = np.array([int(v) for v in s], dtype=int)
        if how == "native":                       # natively stored map (zeros under the mask)
            nat = np.zeros(mask.shape_native, dtype=int)
            nat[~np.array(mask)] = arr
            return self._keep(aa.Array2D(values=self._keep(nat), mask=mask))
        if how == "from_array2d":                 # a structure built from a structure
            return self._keep(aa.Array2D(values=aa.Array2D(values=self._keep(arr), mask=mask), mask=mask))
        return self._keep(aa.Array2D(values=self._keep(array_variant(arr, how)), mask=mask))

    @staticmethod
    def _values_arg(case):
        """the sub-values in the container / dtype the case asks for (same real numbers)"""
        fr = [F(v) for v in case["values"]]
        how = case.get("values_as", "f64")
        if how == "i64":
            return np.array([int(v) for v in fr], dtype=np.int64)
        if how == "list_int":
            return [int(v) for v in fr]
        if how == "tuple_int":
            return tuple(int(v) for v in fr)
        if how == "f32":
            return np.array([float(v) for v in fr], dtype=np.float32)
        if how == "list_float":
            return [float(v) for v in fr]
        if how in ("i32", "i16"):
            return np.array([int(v) for v in fr], dtype=np.int32 if how == "i32" else np.int16)
        return array_variant(np.array([float(v) for v in fr]), how)

    def _uniform_grid(self, aa, case, mask, os_):
        """alternative constructors of the same Grid2D (property anchors: dataset/grids.py, Grid2D)"""
        path = case.get("route") if case["kind"] == "uniform" else case["path"]
        if path == "dataset_grids":
            from autoarray.dataset.grids import GridsDataset

            o = case.get("ds_opts") or {}
            kw, gkw = {"uniform": os_}, {}
            for name in ("non_uniform", "pixelization"):        # R5-F: the sibling options must not matter
                v = o.get(name, "omit")
                if v == "iterate":
                    kw[name] = aa.OverSamplingIterate(fractional_accuracy=0.5, sub_steps=[2, 3])
                elif v != "omit":
                    kw[name] = None if v is None else aa.OverSamplingUniform(sub_size=int(v))
            if o.get("psf"):
                gkw["psf"] = aa.Kernel2D.no_blur(pixel_scales=mask.pixel_scales)
            gd = GridsDataset(mask=mask, over_sampling=aa.OverSamplingDataset(**kw), **gkw)
            for nm in o.get("touch", []):                       # sibling grids read first
                try:
                    getattr(gd, nm)
                except Exception:
                    pass
            return gd.uniform
        if path == "grid_uniform":
            sy, sx, oy, ox = self._geom_numbers(case)
            return aa.Grid2D.uniform(shape_native=(case["mask"]["h"], case["mask"]["w"]),
                                     pixel_scales=(sy, sx), origin=(oy, ox), over_sampling=os_)
        return aa.Grid2D.from_mask(mask=mask, over_sampling=os_)

    # ---- round 5/6 plumbing: capture of every array handed in / handed back (ownership histories), user
    #      functions that edit their argument, configuration in force at call time -------------------------
    _cap = None        # list while an ownership history records the arrays of one round
    _cb_edit = None    # "nan" / "shift": the mock user function edits its argument in place after using it

    def _keep(self, x):
        if self._cap is not None:
            self._cap.append(x)
        return x

    def _sv(self, res):
        self._keep(res)
        return _slim(res)

    def _pre(self, case, thunk, obj=None):
        """R5-D: before the observed call, the same call is made on the same objects while other configuration
        values are in force (its result is not judged; it may fail); then the configuration is put back"""
        pre = case.get("pre_conf")
        if not pre:
            return
        try:
            with conf_overrides(pre):
                thunk()
        except Exception:
            pass
        if obj is not None:
            obj.calls = 0

    def _obj_kwargs(self, case):
        kw = {"ret_as": case.get("ret_as")}
        if case.get("centre"):
            kw["centre"] = tuple(float(F(v)) for v in case["centre"])
        return kw

    def run_impl(self, case):
        kind = case["kind"]
        if kind == "large":
            return self._run_large(case)
        if kind == "history":
            return self._run_history(case)
        if kind == "decade":
            return self._run_decade(case)
        if kind == "own":
            return self._run_own(case)
        if kind != "uniform":
            # a discrete decision of the user function itself (step / lattice cell / denominator) within
            # 1e-9 of its tie: nothing about this case can be compared
            self._check_margin(self._analysis(case))
        aa = load_autoarray()
        pre = case.get("pre_conf")
        if pre and "native_only" in pre:
            # `native_binned_only` changes what the structures store, so objects built while it is set are not
            # expected to serve later calls: the whole world is built and used once on throw-away objects while the
            # value is in force (first use in a process, when this is the corpus case), then the observed world is
            # built from fresh objects under the pinned configuration
            case = {k: v for k, v in case.items() if k != "pre_conf"}
            try:
                with conf_overrides(pre):
                    self._run_ordinary(aa, dict(case))
            except Exception:
                pass
        with conf_overrides(conf_of(case)):
            return self._run_ordinary(aa, case)

    def _run_ordinary(self, aa, case):
        pc = profile_classes()
        mask = self._mask(aa, case)
        kind = case["kind"]
        if kind == "uniform":
            ss = self._sub_size(aa, case, mask)
            route = case.get("route", "direct")
            if route in ("direct", "util"):
                ov = aa.OverSamplerUniform(mask=mask, sub_size=ss)
            elif route == "over_sampling":
                ov = aa.OverSamplingUniform(sub_size=ss).over_sampler_from(mask=mask)
            else:
                ov = self._uniform_grid(aa, case, mask, aa.OverSamplingUniform(sub_size=ss)).over_sampler
            self._keep(ov)
            vals = self._keep(self._values_arg(case))
            if route == "util":
                # the jitted utilities called directly, as autoarray.util.over_sample exposes them
                u = aa.util.over_sample
                n = case["mask"]["bits"].count("0")
                sub_arr = np.array(expand_sub(case, n), dtype=int)
                m2 = np.array(mask)
                b1 = u.binned_array_2d_from(array_2d=np.asarray(vals), mask_2d=m2, sub_size=sub_arr)
                b2 = b1
                grid_v = u.grid_2d_slim_over_sampled_via_mask_from(
                    mask_2d=m2, pixel_scales=mask.pixel_scales, sub_size=sub_arr, origin=mask.origin)
                sfs_v = u.slim_index_for_sub_slim_index_via_mask_2d_from(mask_2d=m2, sub_size=sub_arr)
                nat_v = u.native_sub_index_for_slim_sub_index_2d_from(mask_2d=m2, sub_size=sub_arr)
            else:
                self._pre(case, lambda: (ov.binned_array_2d_from(array=vals), ov.over_sampled_grid))
                b1 = ov.binned_array_2d_from(array=vals)
                b2 = ov.binned_array_2d_from(array=aa.ArrayIrregular(values=np.asarray(vals)))
                grid_v, sfs_v, nat_v = ov.over_sampled_grid, ov.slim_for_sub_slim, ov.sub_mask_native_for_sub_mask_slim
            areas = self._keep(ov.sub_pixel_areas)
            ug = self._keep(mask.derive_grid.unmasked)
            for x in (b1, b2, grid_v, sfs_v, nat_v):
                self._keep(x)
            return {
                "grid": [qlist(p) for p in np.asarray(grid_v, dtype=float).reshape(-1, 2)],
                "slim_for_sub_slim": [int(v) for v in sfs_v],
                "sub_native": [[int(a), int(b)] for a, b in np.asarray(nat_v).reshape(-1, 2)],
                "areas": qlist(np.asarray(areas, dtype=float)),
                "unmasked_grid": [qlist(p) for p in np.asarray(ug, dtype=float).reshape(-1, 2)],
                "binned": _slim(b1),
                "binned_irregular": _slim(b2),
                "sub_total": int(ov.sub_total),
            }
        if kind == "func":
            obj = pc["cls"](f=case["f"], ret_int=bool(case.get("ret_int")), **self._obj_kwargs(case))
            path = case["path"]
            if path == "none":
                grid = self._keep(aa.Grid2D.from_mask(mask=mask))
                call = lambda: obj.image_2d_from(grid=grid)
            else:
                ss = self._sub_size(aa, case, mask)
                if path == "sampler":
                    ov = self._keep(aa.OverSamplerUniform(mask=mask, sub_size=ss))
                    call = lambda: ov.array_via_func_from(func=pc["plain"], obj=obj)
                elif path == "oversampled_grid":
                    ov = self._keep(aa.OverSamplerUniform(mask=mask, sub_size=ss))
                    gos = aa.Grid2DOverSampled(grid=ov.over_sampled_grid, over_sampler=ov,
                                               pixels_in_mask=mask.pixels_in_mask)
                    call = lambda: obj.image_2d_from(grid=gos)
                else:
                    os_ = aa.OverSamplingUniform(sub_size=ss)
                    if path == "custom_grid":
                        gv = self._keep(self._custom_grid_values(case))
                        grid = aa.Grid2D(values=gv, mask=mask, over_sampling=os_)
                    else:
                        grid = self._uniform_grid(aa, case, mask, os_)
                    if case.get("grid_store") == "native":
                        grid = grid.native                  # the natively stored twin of the same grid (R5-C)
                    self._keep(grid)
                    meth = obj.raw_from if path == "decorator_raw" else obj.image_2d_from
                    call = lambda: meth(grid=grid)
            self._pre(case, call, obj)
            return {"values": self._sv(call())}
        if kind == "iterate":
            kw = self._iter_kw(case)
            if "table" in case:
                tab = [self._keep(np.array([float(F(v)) for v in row])) for row in case["table"]]
                sy, sx, oy, ox = (float(F(v)) for v in case["geom"])
                obj = pc["cls"](table=tab, geom=(sy, sx, oy, ox), shape=(case["mask"]["h"], case["mask"]["w"]),
                                ret_int=bool(case.get("ret_int")), **self._obj_kwargs(case))
            else:
                obj = pc["cls"](f=case["f"], **self._obj_kwargs(case))
            if case["path"] == "sampler":
                it = aa.OverSamplerIterate(mask=mask, **kw)
                call = lambda: it.array_via_func_from(func=pc["plain"], obj=obj)
            elif case["path"] == "via_over_sampling":
                it = aa.OverSamplingIterate(**kw).over_sampler_from(mask=mask)
                call = lambda: it.array_via_func_from(func=pc["plain"], obj=obj)
            else:
                os_ = aa.OverSamplingIterate(**kw)
                grid = self._keep(aa.Grid2D.from_mask(mask=mask, over_sampling=os_))
                call = lambda: obj.image_2d_from(grid=grid)
            self._pre(case, call, obj)
            return {"values": self._sv(call())}
        raise ValueError(kind)

    # -------------------------------------------------------------------------------- model
    def model_requests(self, case, impl_obs):
        kind = case["kind"]
        if kind == "large":
            return []      # judged by the vectorised oracle alone
        if kind == "history":
            return self._history_requests(case, impl_obs)
        if kind == "decade":
            return self.model_requests(dict(self._decade_scaled(case)), None)    # the model sees the transformed world
        if kind == "own":
            rounds = impl_obs.get("rounds") if isinstance(impl_obs, dict) else None
            return self.model_requests(self._inner(case), rounds[0] if rounds else None)
        mj = case["mask"]
        n = mj["bits"].count("0")
        if kind == "uniform":
            sub = expand_sub(case, n)
            return [{"op": "c09.uniform", "mask": mj, "sub": sub, "geom": case["geom"]},
                    {"op": "c09.binned", "mask": mj, "sub": sub, "values": case["values"]}]
        if kind == "func":
            path = case["path"]
            if path in ("sampler", "oversampled_grid"):
                return [{"op": "c09.via_func", "mask": mj, "sub": expand_sub(case, n),
                         "geom": case["geom"], "f": case["f"]}]
            s = case["sub"]
            if path == "none" and (case.get("conf") or {}).get("adaptive"):
                s = expand_sub(case, n)      # the map the configuration in force prescribes (an input of the model)
            os_ = {"kind": "int", "sub": s} if isinstance(s, int) else {"kind": "arr", "sub": s}
            if path == "custom_grid":
                gv = case["grid"]
            else:
                g = geom_of(case)
                gv = [[q(a), q(b)] for a, b in
                      (pixel_centre(mj["h"], mj["w"], g, y, x) for y, x in unmasked_pixels(mj))]
            return [{"op": "c09.decorate", "mask": mj, "geom": case["geom"], "f": case["f"],
                     "os": os_, "grid": gv}]
        if kind == "iterate":
            if "table" in case:
                return [{"op": "c09.iterate_table", "mask": mj, "table": case["table"],
                         "fr": case["fr"], "rel": case["rel"]}]
            if case["path"] in ("sampler", "via_over_sampling"):
                return [{"op": "c09.iterate", "mask": mj, "geom": case["geom"], "f": case["f"],
                         "fr": case["fr"], "rel": case["rel"], "steps": case["steps"]}]
            g = geom_of(case)
            gv = [[q(a), q(b)] for a, b in
                  (pixel_centre(mj["h"], mj["w"], g, y, x) for y, x in unmasked_pixels(mj))]
            return [{"op": "c09.decorate", "mask": mj, "geom": case["geom"], "f": case["f"], "grid": gv,
                     "os": {"kind": "iterate", "fr": case["fr"], "rel": case["rel"],
                            "steps": case["steps"]}}]
        raise ValueError(kind)

    def model_obs(self, case, responses):
        if case["kind"] == "history":
            return self._history_model_obs(case, responses)
        if case["kind"] == "decade":
            return self._decade_unscale(case, self.model_obs(dict(self._decade_scaled(case)), responses))
        if case["kind"] == "own":
            return self.model_obs(self._inner(case), responses)
        for r in responses:
            if "ok" not in r:
                return {"err": r.get("err")}
        if case["kind"] == "uniform":
            u = dict(responses[0]["ok"])
            u["binned"] = responses[1]["ok"]
            u["binned_irregular"] = responses[1]["ok"]
            u["sub_total"] = len(u["grid"])
            return u
        return {"values": responses[0]["ok"]}

    # -------------------------------------------------------------------------------- analysis shared by compare / oracle
    def _analysis(self, case):
        """exact expectation of the property for this case + tie-band information (cached)."""
        if "_analysis" in case:
            return case["_analysis"]
        mj = case["mask"]
        h, w = mj["h"], mj["w"]
        g = geom_of(case)
        px = unmasked_pixels(mj)
        n = len(px)
        kind = case["kind"]
        a = {}
        if kind == "uniform":
            sub = expand_sub(case, n)
            grid, sfs, nat = [], [], []
            for k, (y, x) in enumerate(px):
                pts = sub_centres(g, pixel_centre(h, w, g, y, x), sub[k])
                grid += pts
                sfs += [k] * (sub[k] ** 2)
                nat += [(y * sub[k] + a1, x * sub[k] + b1) for a1 in range(sub[k]) for b1 in range(sub[k])]
            a.update(grid=grid, sfs=sfs, nat=nat, sub=sub)
        elif kind == "func":
            margins = []
            sub = expand_sub(case, n)
            if "_amap" in case:
                # decisions of the adaptive scheme (pixel that contains the profile centre, radial bins) closer than
                # 1e-8 (relative) to their tie, or a mask whose rows are not consecutive (not "uniform"): not compared
                margins.append(F(case["_amargin"]) / 10 if rows_contiguous(mj) else F(0))
            f = case["f"]
            exp, err = [], []
            if all(s == 1 for s in sub) and case["path"] == "custom_grid":
                for p in case["grid"]:
                    v, e = mean_with_err(f, [(F(p[0]), F(p[1]))], margins, True)
                    exp.append(v)
                    err.append(e)
            else:
                for k, (y, x) in enumerate(px):
                    pts = sub_centres(g, pixel_centre(h, w, g, y, x), sub[k])
                    v, e = mean_with_err(f, pts, margins, geom_float_exact(g) and is_pow2(sub[k]))
                    exp.append(v)
                    err.append(e)
            a.update(loose=[2 * e > BAND * max(1, abs(v)) for v, e in zip(exp, err)])
            a.update(expected=exp, margin=min(margins) if margins else None)
        else:
            margins = []
            errs = []
            if "table" in case:
                idx = [i for i, c in enumerate(mj["bits"]) if c == "0"]
                table = [[F(row[i]) for i in idx] for row in case["table"]]
                # binning a per-pixel constant: exact for power-of-two sub-sizes, else a few ulps
                errs = [[F(0) if case.get("exact") else ERRK * abs(v) for v in row] for row in table]
            else:
                table = level_table(mj, g, case["f"], case["steps"], margins, errs)
            fr = None if case["fr"] is None else F(case["fr"])
            rel = None if case["rel"] is None else F(case["rel"])
            exp, band = iterate_expected(table, fr, rel, bool(case.get("exact")), errs)
            all_zero = all(v == 0 for v in table[0])
            # the early return tests `np.any(array_sub_1)`: a discrete decision on real values.  When
            # every exact level-0 value is within the band of zero it is only compared if the doubles
            # the implementation sees are known (explicit table, or exactly representable geometry
            # and an evaluation that gives the same all-zero verdict in doubles).
            uncertain = all(abs(v) <= BAND for v in table[0]) and any(e > 0 for e in errs[0])
            a.update(expected=exp, band=band, table=table, margin=min(margins) if margins else None,
                     all_zero_level0=all_zero, early_uncertain=uncertain)
        case["_analysis"] = a
        return a

    def _check_margin(self, a):
        if a.get("margin") is not None and a["margin"] <= BAND:
            raise Skip("a discrete decision of the user function lies within 1e-9 of its tie")

    def compare(self, case, impl_obs, model_obs, cmp):
        if case["kind"] == "history":
            return self._history_compare(case, impl_obs, model_obs, cmp)
        if case["kind"] == "decade":
            dd = self.compare(self._inner(case), impl_obs, model_obs, cmp)
            return (self._decade_words(case) + str(dd)) if dd else dd
        if case["kind"] == "own":
            rounds = impl_obs.get("rounds") if isinstance(impl_obs, dict) else None
            if not isinstance(rounds, list):
                return f"ownership history did not run: {str(impl_obs)[:200]}"
            for r, o in enumerate(rounds):
                dd = self.compare(self._inner(case), o, model_obs, cmp)
                if dd:
                    return f"ownership history, round {r}: {dd}"
            return None
        if case["kind"] == "iterate":
            a = self._analysis(case)
            self._check_margin(a)
            if a["early_uncertain"]:
                raise Skip("all level-0 values within 1e-9 of zero: the all-zero early return is inside the tie band")
            iv, mv = impl_obs.get("values"), model_obs.get("values")
            if isinstance(iv, list) and isinstance(mv, list) and len(iv) == len(mv) == len(a["band"]):
                iv = [None if b else v for v, b in zip(iv, a["band"])]
                mv = [None if b else v for v, b in zip(mv, a["band"])]
                return cmp.diff({"values": iv}, {"values": mv})
        elif case["kind"] == "func":
            a = self._analysis(case)
            self._check_margin(a)
            iv, mv = impl_obs.get("values"), model_obs.get("values")
            if any(a["loose"]) and isinstance(iv, list) and isinstance(mv, list) \
                    and len(iv) == len(mv) == len(a["loose"]):
                iv = [None if b else v for v, b in zip(iv, a["loose"])]
                mv = [None if b else v for v, b in zip(mv, a["loose"])]
                return cmp.diff({"values": iv}, {"values": mv})
        return cmp.diff(impl_obs, model_obs)

    # -------------------------------------------------------------------------------- oracle
    @staticmethod
    def _close(a, b):
        a, b = F(a), F(b)
        return abs(a - b) <= BAND * max(1, abs(a), abs(b))

    def oracle(self, case, obs):
        if case["kind"] == "large":
            return self._oracle_large(case, obs)
        if case["kind"] == "history":
            return self._history_oracle(case, obs)
        if case["kind"] == "decade":
            holds, detail = self.oracle(self._inner(case), obs)
            return holds, (detail if holds else self._decade_words(case) + detail)
        if case["kind"] == "own":
            rounds = obs.get("rounds") if isinstance(obs, dict) else None
            if not isinstance(rounds, list) or len(rounds) != int(case.get("rounds", 3)):
                return False, f"ownership history did not run: {str(obs)[:200]}"
            for r, o in enumerate(rounds):
                holds, detail = self.oracle(self._inner(case), o)
                if not holds:
                    return False, (f"ownership history, round {r} of {len(rounds)}: a world rebuilt from fresh, equal inputs "
                                   f"does not give what a fresh world gives after every array handed to or handed back by "
                                   f"the API in the earlier rounds was overwritten in place (mode {case.get('scribble')}"
                                   + (f", the user function edits its argument in place: {case['cb_edit']}"
                                      if case.get("cb_edit") else "") + f"): {detail}")
            return True, ""
        if not isinstance(obs, dict) or "err" in obs:
            return False, f"implementation raised {obs}"
        a = self._analysis(case)
        kind = case["kind"]
        mj = case["mask"]
        n = mj["bits"].count("0")
        g = geom_of(case)
        if kind == "uniform":
            sub = a["sub"]
            if obs["sub_total"] != sum(s * s for s in sub) or len(obs["grid"]) != len(a["grid"]):
                return False, "over-sampled grid does not hold sub_size^2 points per unmasked pixel"
            for i, (p, e) in enumerate(zip(obs["grid"], a["grid"])):
                if not (self._close(p[0], e[0]) and self._close(p[1], e[1])):
                    return False, (f"over-sampled grid point {i} = ({float(F(p[0]))}, {float(F(p[1]))}) is not the "
                                   f"centre ({float(e[0])}, {float(e[1])}) of its cell of the uniform partition "
                                   f"(pixel {a['sfs'][i]}, sub {sub[a['sfs'][i]]})")
            if obs["slim_for_sub_slim"] != a["sfs"]:
                return False, "slim_for_sub_slim is not each slim index repeated sub^2 times in order"
            vals = [F(v) for v in case["values"]]
            off = 0
            for k in range(n):
                blk = vals[off:off + sub[k] ** 2]
                off += sub[k] ** 2
                mean = sum(blk) / len(blk)
                for key in ("binned", "binned_irregular"):
                    if not self._close(obs[key][k], mean):
                        return False, f"{key}[{k}] = {float(F(obs[key][k]))} is not the mean {float(mean)} of the pixel's own sub-values"
            sy, sx = g[0], g[1]
            ar = [F(v) for v in obs["areas"]]
            if len(ar) != len(a["grid"]):
                return False, "sub_pixel_areas does not have one entry per sub-pixel"
            if not self._close(sum(ar), n * sy * sx):
                return False, "sub-pixel areas do not sum to the unmasked area"
            cen = [pixel_centre(mj["h"], mj["w"], g, y, x) for y, x in unmasked_pixels(mj)]
            # the mean of each pixel's sub-centres is its centre (affine functions reproduced)
            off = 0
            for k in range(n):
                blk = obs["grid"][off:off + sub[k] ** 2]
                off += sub[k] ** 2
                my = sum(F(p[0]) for p in blk) / len(blk)
                mx = sum(F(p[1]) for p in blk) / len(blk)
                if not (self._close(my, cen[k][0]) and self._close(mx, cen[k][1])):
                    return False, f"mean of pixel {k}'s sub-centres is not the pixel centre"
            return True, ""
        self._check_margin(a)
        if a.get("early_uncertain") and not a["all_zero_level0"]:
            raise Skip("all level-0 values within 1e-9 of zero but not exactly zero")
        vals = obs.get("values")
        if not isinstance(vals, list) or len(vals) != n:
            return False, f"result does not have one value per unmasked pixel: {str(vals)[:100]}"
        if any(not common.Cmp._rat.match(v) for v in vals):
            return False, f"non-finite value in result: {vals[:8]}"
        if kind == "func":
            for k, (v, e) in enumerate(zip(vals, a["expected"])):
                if a["loose"][k]:
                    continue   # cancellation: the double result is not determined to 1e-9
                if not self._close(v, e):
                    return False, (f"pixel {k}: result {float(F(v))} is not the mean {float(e)} of the function over "
                                   f"the pixel's sub-centres (path {case['path']}, sub {case['sub']})")
            return True, ""
        for k, (v, e, b) in enumerate(zip(vals, a["expected"], a["band"])):
            if b:
                continue
            if not self._close(v, e):
                col = [float(r[k]) for r in a["table"]]
                return False, (f"pixel {k}: result {float(F(v))} is not the value {float(e)} the stopping rule "
                               f"selects; level values {col}, fractional_accuracy {case['fr']}, "
                               f"relative_accuracy {case['rel']}, schedule {case['steps']}")
        return True, ""

    # ================================================================================ LARGE cases
    def generate_large(self, hints, rng):
        """cases whose size — total sub-pixels, unmasked pixels, frame pixels H·W (non-square), the
        sub-size itself for small constants — is c-1, c, c+1, c + c//3 + 1 and 2c+1 for every new integer
        constant c of the anchored source, with non-square off-origin anisotropic frames, holes, per-pixel
        sub-size maps with odd sizes, smooth sign-changing functions.  Judged by the vectorised oracle only."""
        patterns = [[3, 5, 2, 7, 1, 3, 6], [3], [5, 3], [1, 2, 3, 4, 5, 6, 7, 8], [7, 3, 3], [6, 1, 5]]
        it_steps = [[3, 5], [5, 2], [3, 2, 4], [7, 3], [3, 3]]
        f_paths = ["sampler", "decorator", "decorator_raw", "oversampled_grid", "dataset_grids"]
        u_routes = ["direct", "over_sampling", "grid", "dataset_grids"]
        for c in sorted({int(h) for h in hints if int(h) >= 2}):
            targets = [t for t in (c + c // 3 + 1, c + 1, c, c - 1, 2 * c + 1) if t >= 1]
            k = 0
            # (a) total number of sub-pixels
            if 2 * c + 1 <= LARGE_CAP["sub_pixels"]:
                for t in targets:
                    k += 1
                    spec, n = sub_spec_for_total(t, patterns[k % len(patterns)])
                    yield self._large_case(rng, "func", "sub_pixels", c, t, mask_recipe_for_unmasked(n, rng), spec,
                                           path=f_paths[k % len(f_paths)])
                    s = [3, 5, 7, 6][k % 4]
                    yield self._large_case(rng, "func", "sub_pixels", c, t,
                                           mask_recipe_for_unmasked(-(-t // (s * s)), rng), s,
                                           path=f_paths[(k + 1) % len(f_paths)])
                    spec, n = sub_spec_for_total(t, patterns[(k + 2) % len(patterns)])
                    yield self._large_case(rng, "uniform", "sub_pixels", c, t, mask_recipe_for_unmasked(n, rng), spec,
                                           route=u_routes[k % len(u_routes)])
                    st = it_steps[k % len(it_steps)]
                    yield self._large_case(rng, "iterate", "sub_pixels", c, t,
                                           mask_recipe_for_unmasked(-(-t // (st[0] ** 2)), rng), None, steps=st,
                                           path=["sampler", "decorator", "via_over_sampling"][k % 3])
            # (b) number of unmasked pixels
            if 2 * c + 1 <= LARGE_CAP["unmasked"]:
                for t in targets:
                    k += 1
                    spec = {"pattern": [[1, 1, 1, 2, 1, 1, 3, 1], [1, 2, 1, 1], [1, 1, 3]][k % 3], "tail": []}
                    yield self._large_case(rng, "func", "unmasked", c, t, mask_recipe_for_unmasked(t, rng), spec,
                                           path=f_paths[k % len(f_paths)])
                    yield self._large_case(rng, "uniform", "unmasked", c, t, mask_recipe_for_unmasked(t, rng),
                                           spec if k % 2 else 1, route=u_routes[k % len(u_routes)])
                    yield self._large_case(rng, "iterate", "unmasked", c, t, mask_recipe_for_unmasked(t, rng), None,
                                           steps=[[2, 3], [2, 2], [3]][k % 3],
                                           path=["sampler", "decorator", "via_over_sampling"][k % 3])
            # (c) frame pixels H·W with a small unmasked region in a corner
            if 2 * c + 1 <= LARGE_CAP["frame"]:
                for t in targets:
                    k += 1
                    rec = mask_recipe_for_frame(t, rng)
                    spec = {"pattern": [rng.randint(1, 8) for _ in range(11)], "tail": []}
                    yield self._large_case(rng, "func", "frame", c, t, rec, spec, path=f_paths[k % len(f_paths)])
                    yield self._large_case(rng, "uniform", "frame", c, t, rec, spec, route=u_routes[k % len(u_routes)])
                    yield self._large_case(rng, "iterate", "frame", c, t, rec, None, steps=it_steps[k % len(it_steps)],
                                           path=["sampler", "decorator", "via_over_sampling"][k % 3])
            # (d) the sub-size itself (schedules reach 16 by default)
            if c <= LARGE_CAP["sub_size"]:
                for t in targets:
                    k += 1
                    rec = {"h": 2, "w": 3, "base": "unmasked", "rects": [[0, 1, 1, 2, 1]], "skip": 0}
                    for spec in (t, {"pattern": [1, t, 2, t], "tail": []}):
                        yield self._large_case(rng, "func", "sub_size", c, t, rec, spec, path=f_paths[k % len(f_paths)])
                        yield self._large_case(rng, "uniform", "sub_size", c, t, rec, spec,
                                               route=u_routes[k % len(u_routes)])
                    yield self._large_case(rng, "iterate", "sub_size", c, t, rec, None, steps=[2, t, t + 1],
                                           path=["sampler", "decorator", "via_over_sampling"][k % 3])

    def _large_case(self, rng, what, dim, c, t, rec, sub, path=None, route=None, steps=None):
        while True:
            sy, sx = rng.choice(SCALES), rng.choice(SCALES)
            if sy != sx:
                break
        geom = [q(sy), q(sx), q(gen.dyadic(rng, -4, 4, 3) or F(3, 8)), q(gen.dyadic(rng, -4, 4, 3) or F(-5, 8))]
        g = tuple(F(v) for v in geom)
        m = large_mask(rec)
        iy, ix = np.nonzero(~m)
        j = rng.randrange(len(iy))
        centre = pixel_centre(rec["h"], rec["w"], g, int(iy[j]), int(ix[j]))
        case = {"tag": f"large_{what}_{dim}", "kind": "large", "what": what, "dim": dim, "hint": c, "target": t,
                "mask_recipe": rec, "geom": geom, "unmasked": int(len(iy))}
        if what == "uniform":
            case.update(sub=sub, route=route)
        elif what == "func":
            case.update(sub=sub, path=path, f=large_func(rng, centre, (g[0], g[1])))
        else:
            case.update(steps=steps, path=path, f=large_func(rng, centre, (g[0], g[1]), positive=True),
                        fr=q(F(float(rng.choice([F(99, 100), F(999, 1000), F(9, 10)])))),
                        rel=rng.choice([None, None, q(F(1, 1 << 7))]))
        return case

    def _run_large(self, case):
        aa = load_autoarray()
        pc = profile_classes()
        rec = case["mask_recipe"]
        m = large_mask(rec)
        sy, sx, oy, ox = (float(F(v)) for v in case["geom"])
        mask = aa.Mask2D(mask=m, pixel_scales=(sy, sx), origin=(oy, ox))
        n = int((~m).sum())
        what = case["what"]
        raw = {}
        if what != "iterate":
            s = case["sub"]
            ss = int(s) if isinstance(s, int) else aa.Array2D(values=large_sub(s, n), mask=mask)
        if what == "uniform":
            route = case.get("route") or "direct"
            if route == "direct":
                ov = aa.OverSamplerUniform(mask=mask, sub_size=ss)
            elif route == "over_sampling":
                ov = aa.OverSamplingUniform(sub_size=ss).over_sampler_from(mask=mask)
            elif route == "dataset_grids":
                from autoarray.dataset.grids import GridsDataset

                ov = GridsDataset(mask=mask, over_sampling=aa.OverSamplingDataset(
                    uniform=aa.OverSamplingUniform(sub_size=ss))).uniform.over_sampler
            else:
                ov = aa.Grid2D.from_mask(mask=mask, over_sampling=aa.OverSamplingUniform(sub_size=ss)).over_sampler
            total = int(ov.sub_total)
            vals = large_values(int((large_sub(case["sub"], n) ** 2).sum()))
            raw = {"grid": np.asarray(ov.over_sampled_grid, dtype=float).reshape(-1, 2),
                   "sfs": np.asarray(ov.slim_for_sub_slim).astype(np.int64),
                   "nat": np.asarray(ov.sub_mask_native_for_sub_mask_slim).astype(np.int64).reshape(-1, 2),
                   "areas": np.asarray(ov.sub_pixel_areas, dtype=float),
                   "unmasked_grid": np.asarray(mask.derive_grid.unmasked, dtype=float).reshape(-1, 2),
                   "binned": np.asarray(ov.binned_array_2d_from(array=vals).slim, dtype=float).ravel(),
                   "binned_irregular": np.asarray(
                       ov.binned_array_2d_from(array=aa.ArrayIrregular(values=vals)).slim, dtype=float).ravel(),
                   "sub_total": np.array([total])}
        else:
            obj = pc["cls"](f=case["f"])
            path = case["path"]
            if what == "func":
                if path == "sampler":
                    res = aa.OverSamplerUniform(mask=mask, sub_size=ss).array_via_func_from(func=pc["plain"], obj=obj)
                elif path == "oversampled_grid":
                    ov = aa.OverSamplerUniform(mask=mask, sub_size=ss)
                    res = obj.image_2d_from(grid=aa.Grid2DOverSampled(
                        grid=ov.over_sampled_grid, over_sampler=ov, pixels_in_mask=mask.pixels_in_mask))
                else:
                    os_ = aa.OverSamplingUniform(sub_size=ss)
                    if path == "dataset_grids":
                        from autoarray.dataset.grids import GridsDataset

                        grid = GridsDataset(mask=mask, over_sampling=aa.OverSamplingDataset(uniform=os_)).uniform
                    else:
                        grid = aa.Grid2D.from_mask(mask=mask, over_sampling=os_)
                    res = obj.raw_from(grid=grid) if path == "decorator_raw" else obj.image_2d_from(grid=grid)
            else:
                kw = {"fractional_accuracy": float(F(case["fr"])),
                      "relative_accuracy": None if case["rel"] is None else float(F(case["rel"])),
                      "sub_steps": [int(s) for s in case["steps"]]}
                if path == "sampler":
                    res = aa.OverSamplerIterate(mask=mask, **kw).array_via_func_from(func=pc["plain"], obj=obj)
                elif path == "via_over_sampling":
                    res = aa.OverSamplingIterate(**kw).over_sampler_from(mask=mask).array_via_func_from(
                        func=pc["plain"], obj=obj)
                else:
                    res = obj.image_2d_from(grid=aa.Grid2D.from_mask(mask=mask, over_sampling=aa.OverSamplingIterate(**kw)))
            try:
                res = res.slim
            except AttributeError:
                pass
            raw = {"values": np.asarray(res, dtype=float).ravel()}
        case["_raw"] = raw
        # the observation proper stays in memory (case["_raw"]); what is recorded is a digest
        return {"large": True, "unmasked": n, **{k: _digest(v) for k, v in raw.items()}}

    @staticmethod
    def _first_bad(got, want, tol):
        """index of the first entry with |got - want| > tol (arrays), or None"""
        if got.shape != want.shape:
            return -1
        bad = np.flatnonzero(~(np.abs(got - want) <= tol))
        return int(bad[0]) if len(bad) else None

    def _oracle_large(self, case, obs):
        if not isinstance(obs, dict) or "err" in obs:
            return False, f"implementation raised {obs}"
        if "_verdict" in case:
            return case["_verdict"]
        if "_raw" not in case:
            self._run_large(case)
        raw = case.pop("_raw")
        v = self._oracle_large_raw(case, raw)
        case["_verdict"] = v
        return v

    def _oracle_large_raw(self, case, raw):
        rec, g = case["mask_recipe"], geom_of(case)
        what = case["what"]
        n = int((~large_mask(rec)).sum())
        where = (f"[{what}, {case['dim']} = {case['target']} (constant {case['hint']}), frame {rec['h']}x{rec['w']}, "
                 f"{n} unmasked, sub {case.get('sub', case.get('steps'))}, path {case.get('path') or case.get('route')}] ")
        if what == "uniform":
            sub = large_sub(case["sub"], n)
            geo = large_geometry(rec, g, sub)
            total = int(geo["cum"][-1])
            if int(raw["sub_total"][0]) != total or raw["grid"].shape != (total, 2):
                return False, where + f"over-sampled grid holds {raw['grid'].shape[0]} points, sub_total " \
                                      f"{int(raw['sub_total'][0])}; sum of sub_size^2 is {total}"
            want = np.stack([geo["y"], geo["x"]], axis=1)
            i = self._first_bad(raw["grid"], want, 1e-9 * np.maximum(1.0, np.abs(want)))
            if i is not None:
                j = i // 2
                return False, where + (f"over-sampled grid point {j} = {raw['grid'][j].tolist()} is not the centre "
                                       f"{want[j].tolist()} of cell ({int(geo['a'][j])},{int(geo['b'][j])}) of the uniform "
                                       f"partition of pixel {int(geo['k'][j])}")
            if raw["sfs"].shape != geo["k"].shape or not np.array_equal(raw["sfs"], geo["k"]):
                j = int(np.flatnonzero(raw["sfs"] != geo["k"])[0]) if raw["sfs"].shape == geo["k"].shape else -1
                return False, where + f"slim_for_sub_slim[{j}] is not the slim index of the sub-pixel's own pixel"
            wn = np.stack([geo["iy"][geo["k"]] * sub[geo["k"]] + geo["a"], geo["ix"][geo["k"]] * sub[geo["k"]] + geo["b"]],
                          axis=1)
            if raw["nat"].shape != wn.shape or not np.array_equal(raw["nat"], wn):
                return False, where + "sub_mask_native_for_sub_mask_slim is not (y*sub + a, x*sub + b) in slim order"
            wa = geo["sy"] * geo["sx"] / geo["sq"][geo["k"]]
            i = self._first_bad(raw["areas"], wa, 1e-9 * np.maximum(1.0, wa))
            if i is not None:
                return False, where + f"sub_pixel_areas[{i}] is not pixel area / sub_size^2"
            if abs(float(raw["areas"].sum()) - n * geo["sy"] * geo["sx"]) > 1e-9 * max(1.0, n * geo["sy"] * geo["sx"]):
                return False, where + "sub-pixel areas do not sum to the unmasked area"
            wc = np.stack([geo["yc"], geo["xc"]], axis=1)
            i = self._first_bad(raw["unmasked_grid"], wc, 1e-9 * np.maximum(1.0, np.abs(wc)))
            if i is not None:
                return False, where + f"derive_grid.unmasked row {i // 2} is not the pixel centre"
            vals = large_values(total)
            wm = np.add.reduceat(vals, geo["cum"][:-1]) / geo["sq"] if n else np.zeros(0)
            for key in ("binned", "binned_irregular"):
                i = self._first_bad(raw[key], wm, 1e-9 * np.maximum(1.0, np.abs(wm)))
                if i is not None:
                    return False, where + (f"{key}[{i}] = {raw[key][i] if i >= 0 else raw[key].shape} is not the mean "
                                           f"{wm[i] if i >= 0 else wm.shape} of the pixel's own {int(geo['sq'][max(i, 0)])} sub-values")
            return True, ""
        got = raw["values"]
        if got.shape != (n,):
            return False, where + f"result has shape {got.shape}, not one value per unmasked pixel ({n})"
        if not np.all(np.isfinite(got)):
            return False, where + "non-finite value in result"
        if what == "func":
            sub = large_sub(case["sub"], n)
            want, mag = pixel_means(case["f"], large_geometry(rec, g, sub))
            i = self._first_bad(got, want, 1e-9 * np.maximum(1.0, np.abs(want)) + 1e-11 * mag)
            if i is not None:
                return False, where + (f"pixel {i} (sub {int(sub[i])}): result {float(got[i])!r} is not the mean {float(want[i])!r} of the "
                                       f"function over the pixel's own sub-centres")
            return True, ""
        # iterate: first level of the schedule agreeing with the previous one, else the last level
        steps = [int(s) for s in case["steps"]]
        fr = None if case["fr"] is None else float(F(case["fr"]))
        rel = None if case["rel"] is None else float(F(case["rel"]))
        table, mags = [], []
        for s in [1] + steps:
            v, mg = pixel_means(case["f"], large_geometry(rec, g, np.full(n, s, dtype=int)))
            table.append(v)
            mags.append(mg)
        val = table[-1].copy()
        undecided = np.ones(n, dtype=bool)
        inband = np.zeros(n, dtype=bool)
        for l in range(1, len(steps)):
            lo, hi, mg = table[l - 1], table[l], np.maximum(mags[l - 1], mags[l])
            ok = np.ones(n, dtype=bool)
            band = np.zeros(n, dtype=bool)
            if fr is not None:
                pos = (lo > 0) & (hi > 0)
                ratio = np.where(pos, np.minimum(lo, hi) / np.where(pos, np.maximum(lo, hi), 1.0), 0.0)
                ok &= pos & (ratio >= fr)
                band |= pos & (np.abs(ratio - fr) <= 1e-7)
                band |= (np.abs(lo) <= 1e-9 * mg) | (np.abs(hi) <= 1e-9 * mg)
            if rel is not None:
                d = np.abs(lo - hi)
                ok &= d <= rel
                band |= np.abs(d - rel) <= 1e-9 * np.maximum(1.0, mg)
            nb = undecided & band
            inband |= nb
            undecided &= ~nb
            sel = undecided & ok
            val[sel] = hi[sel]
            undecided &= ~sel
        tol = 1e-9 * np.maximum(1.0, np.abs(val)) + 1e-11 * mags[-1]
        tol[inband] = np.inf
        i = self._first_bad(got, val, tol)
        if i is not None:
            return False, where + (f"pixel {i}: result {float(got[i])!r} is not the value {float(val[i])!r} the stopping rule selects; "
                                   f"level values {[float(t[i]) for t in table]}, fractional_accuracy {fr}, "
                                   f"relative_accuracy {rel}, schedule {steps}")
        return True, ""

    def _shrink_large(self, case):
        """simplify one ingredient at a time (the size itself is what makes the case fail)"""
        base = {k: v for k, v in case.items() if not k.startswith("_") and k != "corpus_file"}
        rec = case["mask_recipe"]
        if case["what"] != "uniform" and not case.get("f_simple"):
            f = add(affine(3, -5, 2)) if case["what"] == "func" else add(C(2), mul(C(F(1, 1 << 20)), ["y"], ["y"]))
            yield {**base, "f": f, "f_simple": True}
        if isinstance(case.get("sub"), dict):
            pat = case["sub"]["pattern"]
            yield {**base, "sub": max(pat)}
        if len(rec.get("rects", [])) and rec.get("base") == "unmasked":
            n = int((~large_mask(rec)).sum())
            r2 = {**rec, "rects": [], "skip": 0}
            r2["skip"] = int((~large_mask(r2)).sum()) - n
            yield {**base, "mask_recipe": r2}
        if case["geom"] != ["1", "1", "0", "0"]:
            yield {**base, "geom": ["1", "1", "0", "0"]}
        if case["what"] == "iterate" and len(case["steps"]) > 2:
            yield {**base, "steps": case["steps"][:2]}

    # ================================================================================ HISTORY stream
    # A history case is {"kind": "history", "script": label, "cases": [ordinary cases], "opts": {...}}.
    # cases[i] describes the state of the world at observation i; the observation is made on REAL REUSED
    # objects (what is shared / edited in place / derived / made to fail in between is in `opts`), and is
    # compared with the model value and the oracle of cases[i] evaluated on its own — i.e. with what a
    # freshly built object in that state gives.  A step that legitimately changes the answer (an in-place
    # edit of the mask / the grid values / the sub-size map / the caller's values, a derived grid with a
    # shifted origin) is expressed by cases[i] itself being the edited world.
    def _subs(self, case):
        if "_subs" not in case:
            case["_subs"] = [dict(c) for c in case["cases"]]
        return case["_subs"]

    # ---- generation -------------------------------------------------------------------------------
    H_SCRIPTS = (["reuse"] * 4 + ["fault"] * 5 + ["fault_pollute"] * 3 + ["obj_mutate"] * 2 + ["shared_os"] * 3 + ["shared_mask"] * 2
                 + ["twins"] * 5 + ["edit_mask"] * 3 + ["edit_grid"] + ["edit_sub"] * 2 + ["edit_vals"]
                 + ["derived"] * 4)
    H_FUNC_PATHS = ["decorator", "decorator", "decorator_raw", "dataset_grids", "custom_grid", "none", "sampler",
                    "oversampled_grid"]
    H_GRID_PATHS = ["decorator", "decorator", "decorator_raw", "dataset_grids"]

    def _w_func(self, rng, quick, paths, int_sub=False, list_sub=False):
        for _ in range(30):
            c = self._func_case(rng, quick, force_paths=paths)
            n = c["mask"]["bits"].count("0")
            if int_sub and not isinstance(c["sub"], int):
                if c["path"] == "none":
                    continue
                c["sub"] = rng.randint(1, 4)
            if list_sub and (not isinstance(c["sub"], list) or n == 0 or c["path"] == "none"):
                continue
            return c
        return None

    def _w_iter(self, rng, quick, path=None):
        for _ in range(30):
            c = self._table_case(rng, quick) if rng.random() < 0.35 else self._iterate_case(rng, quick)
            if not c:
                continue
            if path:
                c["path"] = path
            try:
                if self.known_finding(c, None) is None and not self._analysis(c)["early_uncertain"]:
                    c.pop("_analysis", None)
                    return c
            except Exception:
                pass
        return None

    def _w_uniform(self, rng, routes=("direct", "over_sampling", "grid", "dataset_grids"), int_sub=False,
                   list_sub=False):
        for _ in range(30):
            m, kind = degenerate_mask(rng) if rng.random() < 0.15 else rand_mask(rng, 5, 5)
            n = sum(1 for r in m for b in r if not b)
            if n == 0 and (list_sub or rng.random() < 0.7):
                continue
            sub, smode = rand_sub(rng, n, 400) if n else (rng.choice([1, 2]), "empty")
            if int_sub and not isinstance(sub, int):
                sub = rng.randint(1, 4)
            if list_sub and not isinstance(sub, list):
                sub = [rng.randint(1, 5) for _ in range(n)]
            geom = rand_int_geom(rng) if rng.random() < 0.2 else rand_geom(rng)
            c = self._uniform_case(rng, m, geom, sub, f"uniform_{smode}")
            c["route"] = rng.choice(list(routes))
            return c
        return None

    def _h_world(self, rng, quick, kinds=("func", "iterate", "uniform"), **kw):
        k = rng.choice(kinds)
        if k == "func":
            return self._w_func(rng, quick, kw.get("paths") or self.H_FUNC_PATHS, int_sub=kw.get("int_sub", False),
                                list_sub=kw.get("list_sub", False))
        if k == "iterate":
            return self._w_iter(rng, quick, path=rng.choice(kw.get("ipaths") or ["sampler", "via_over_sampling",
                                                                                   "decorator"]))
        return self._w_uniform(rng, int_sub=kw.get("int_sub", False), list_sub=kw.get("list_sub", False),
                               **({"routes": kw["routes"]} if kw.get("routes") else {}))

    def _fresh_values(self, rng, c, total):
        vals = gen.distinct_ints(rng, total)
        if c.get("values_as") in ("f64", "f32", "list_float") and rng.random() < 0.6:
            vals = [F(v, 8) for v in vals]
        return qlist(vals)

    def _v_newf(self, rng, c):
        """the same world with a different user function / level table / sub-values"""
        c2 = {k: v for k, v in c.items() if k != "ret_int"}
        mj, g = c["mask"], geom_of(c)
        if c["kind"] == "uniform":
            c2["values"] = self._fresh_values(rng, c, len(c["values"]))
            return c2
        if "table" in c:
            how = rng.choice(["double", "shift", "reverse"])
            rows = [[F(v) for v in r] for r in c["table"]]
            if how == "double":
                rows = [[2 * v for v in r] for r in rows]
            elif how == "shift":
                rows = [[v + F(rng.choice([1, 2, 1]), rng.choice([1, 2, 4])) for v in r] for r in rows]
            else:
                rows = [list(reversed(r)) for r in rows]
            c2["table"] = [qlist(r) for r in rows]
            c2.pop("ret_int", None)
            if all(v.denominator == 1 for r in rows for v in r) and c.get("ret_int"):
                c2["ret_int"] = True
        else:
            for _ in range(8):
                f, fk = rand_func(rng, mj, g, positive=(c["kind"] == "iterate" and rng.random() < 0.75))
                if expr_size(f) <= 120:
                    break
            c2["f"] = f
            if c["kind"] == "func" and f[0] == "c" and F(f[1]).denominator == 1 and rng.random() < 0.5:
                c2["ret_int"] = True
        if c["kind"] == "iterate":
            try:
                if self.known_finding(c2, None) is not None or self._analysis(c2)["early_uncertain"]:
                    return None
            except Exception:
                return None
            c2.pop("_analysis", None)
        return c2

    def _v_newworld(self, rng, c):
        """another mask and geometry, the same sub-size / thresholds / schedule / function (shared config)"""
        c2 = dict(c)
        same_frame = rng.random() < 0.5
        for _ in range(20):
            if same_frame:
                # the hardest neighbour for a loosely keyed cache: same frame, same number of unmasked pixels,
                # same (or the same but for one entry) geometry, the unmasked pixels elsewhere
                bits = list(c["mask"]["bits"])
                rng.shuffle(bits)
                mj = {**c["mask"], "bits": "".join(bits)}
                if mj["bits"] == c["mask"]["bits"]:
                    same_frame = False
                    continue
            else:
                m, _k = degenerate_mask(rng) if rng.random() < 0.1 else rand_mask(rng, 5, 5, max_unmasked=12)
                mj = mask_json(m)
            n = mj["bits"].count("0")
            if n == 0 and c["kind"] != "uniform":
                continue
            c2["mask"] = mj
            if same_frame:
                c2["geom"] = list(c["geom"])
                if "table" not in c and rng.random() < 0.4:
                    i = rng.randrange(4)
                    c2["geom"][i] = q(self._nudge(c["geom"][i], F(rng.choice([1, 3, 10]), 10 ** 6), absolute=i >= 2))
            else:
                c2["geom"] = rand_geom(rng, exact=bool(c.get("exact"))) if "table" in c or rng.random() < 0.8 \
                    else rand_int_geom(rng)
            c2["geom_as"] = "int" if all(F(v).denominator == 1 for v in c2["geom"]) else "float"
            if c["kind"] == "uniform":
                c2["values"] = self._fresh_values(rng, c, n * c["sub"] ** 2)
            if "table" in c:
                c2["table"] = [qlist([F(rng.randint(1, 64), 8) for _ in range(mj["h"] * mj["w"])])
                               for _ in c["table"]]
                c2.pop("ret_int", None)
            if c["kind"] == "iterate":
                try:
                    if self.known_finding(c2, None) is not None or self._analysis(c2)["early_uncertain"]:
                        continue
                except Exception:
                    continue
                c2.pop("_analysis", None)
            return c2
        return None

    @staticmethod
    def _nudge(v, delta, absolute=False):
        v = F(v)
        return F(float(v + delta * max(1, abs(v)))) if absolute else F(float(v * (1 + delta)))

    def _v_twin(self, rng, c):
        """a near-duplicate: one parameter perturbed by ~1e-6..1e-5 relative (inside np.allclose's default
        tolerance, far outside the property's 1e-9), or one discrete entry changed with the shape kept"""
        delta = F(rng.choice([1, 3, 10]), 10 ** 6) * rng.choice([1, -1])
        c2 = dict(c)
        kind = c["kind"]
        n = c["mask"]["bits"].count("0")
        opts = ["scale", "scale", "origin", "origin", "mask_move"]
        if kind != "uniform":
            opts += ["const", "const"]
        if kind == "iterate":
            opts += ["fr", "fr", "rel"]
        else:
            opts += ["sub_entry", "sub_entry"]
        if kind == "uniform":
            opts += ["values"]
        for _ in range(10):
            how = rng.choice(opts)
            if how in ("scale", "origin"):
                if "table" in c:
                    continue   # the table callable answers by pixel; the geometry of a table world stays dyadic
                i = rng.choice([0, 1]) + (2 if how == "origin" else 0)
                geom = list(c["geom"])
                geom[i] = q(self._nudge(geom[i], delta, absolute=(how == "origin")))
                c2["geom"], c2["geom_as"] = geom, "float"
            elif how == "const":
                if "table" in c:
                    rows = [list(r) for r in c["table"]]
                    l, k = rng.randrange(len(rows)), rng.randrange(len(rows[0]))
                    rows[l][k] = q(self._nudge(rows[l][k], delta))
                    c2["table"] = rows
                    c2.pop("ret_int", None)
                else:
                    c2["f"] = ["add", c["f"], C(F(float(delta)))] if rng.random() < 0.5 else \
                        ["mul", c["f"], C(F(float(1 + delta)))]
                    c2.pop("ret_int", None)
            elif how == "fr":
                if c["fr"] is None:
                    continue
                fr = self._nudge(c["fr"], -abs(delta))
                if not fr > 0:
                    continue
                c2["fr"], c2["num_as"] = q(fr), "float"
            elif how == "rel":
                if c["rel"] is None:
                    continue
                c2["rel"], c2["num_as"] = q(F(float(F(c["rel"]) + F(1, 10 ** 10)))), "float"
            elif how == "sub_entry":
                if n == 0 or c.get("path") == "none":
                    continue
                sub = expand_sub(c, n)
                k = rng.randrange(n)
                sub[k] = sub[k] + 1 if sub[k] < 8 and (sub[k] == 1 or rng.random() < 0.5) else sub[k] - 1
                c2["sub"] = sub
                if kind == "uniform":
                    c2["values"] = self._fresh_values(rng, c, sum(s * s for s in sub))
            elif how == "mask_move":
                bits = c["mask"]["bits"]
                un = [i for i, b in enumerate(bits) if b == "0"]
                ma = [i for i, b in enumerate(bits) if b == "1"]
                if not un or not ma or "table" in c:
                    continue
                i, j = rng.choice(un), rng.choice(ma)
                b2 = list(bits)
                b2[i], b2[j] = "1", "0"
                c2["mask"] = {**c["mask"], "bits": "".join(b2)}
                if c.get("route") == "grid_uniform" or c.get("path") == "grid_uniform":
                    continue
            elif how == "values":
                if not c["values"]:
                    continue
                vals = list(c["values"])
                k = rng.randrange(len(vals))
                vals[k] = q(self._nudge(vals[k], delta))
                c2["values"], c2["values_as"] = vals, "f64"
            if kind == "iterate":
                try:
                    if self.known_finding(c2, None) is not None or self._analysis(c2)["early_uncertain"]:
                        c2 = dict(c)
                        continue
                except Exception:
                    c2 = dict(c)
                    continue
                c2.pop("_analysis", None)
            c2["twin"] = how
            return c2
        return None

    def _v_mask_edit(self, rng, c):
        """the same frame with one or two pixels toggled (sub-size is an int, so every length follows)"""
        bits = list(c["mask"]["bits"])
        for _ in range(rng.choice([1, 1, 2])):
            i = rng.randrange(len(bits))
            bits[i] = "0" if bits[i] == "1" else "1"
        c2 = dict(c)
        c2["mask"] = {**c["mask"], "bits": "".join(bits)}
        n = c2["mask"]["bits"].count("0")
        if c2["mask"]["bits"] == c["mask"]["bits"] or (n == 0 and c["kind"] != "uniform"):
            return None
        if c["kind"] == "uniform":
            c2["values"] = self._fresh_values(rng, c, n * c["sub"] ** 2)
        if c["kind"] == "iterate":
            try:
                if self.known_finding(c2, None) is not None or self._analysis(c2)["early_uncertain"]:
                    return None
            except Exception:
                return None
            c2.pop("_analysis", None)
        return c2

    def _history_case(self, rng, quick):
        script = rng.choice(self.H_SCRIPTS)
        decoy = rng.randrange(1, 1 << 16) if rng.random() < 0.5 else None
        all_share = {"mask": True, "os": True, "holder": True}
        steps, share, cases = None, dict(all_share), None
        if script in ("reuse", "fault", "obj_mutate"):
            a = self._h_world(rng, quick)
            if not a:
                return None
            cases = [a]
            for _ in range(rng.choice([1, 2, 2])):
                b = self._v_newf(rng, a)
                if b is None:
                    return None
                if b["kind"] == "func" and a["path"] in ("decorator", "decorator_raw"):
                    b["path"] = rng.choice(["decorator", "decorator_raw"])   # a sibling method on the same grid
                cases.append(b)
            steps = [{} for _ in cases]
            if script == "obj_mutate":
                for s in steps[1:]:
                    s["obj"] = "mutate"
            if script == "fault":
                for i, s in enumerate(steps):
                    if i == 0 and rng.random() < 0.5:
                        continue
                    kind = a["kind"]
                    ne = len(a["steps"]) + 1 if kind == "iterate" else 1   # evaluations of one iterate call
                    s["fault"] = rng.choice(["binned_short", "func_raise"] if kind == "uniform" else
                                            ["raise_1", "raise_1", "short"] if kind == "func" else
                                            ["raise_1", "raise_2", f"raise_{max(1, ne - 1)}", f"raise_{ne}",
                                             f"raise_{ne}"])
                    if kind == "iterate" and rng.random() < 0.6:
                        # the failing call evaluates a function made to leave as much behind as possible: it
                        # converges at once on one side of the frame and never on the other
                        s["pollute"] = True
                    s["exc"] = rng.choice(["ValueError", "RuntimeError", "ZeroDivisionError", "FloatingPointError",
                                           "KeyError"])
                    if kind != "uniform" and len(cases) > 1 and not s.get("pollute") and rng.random() < 0.6:
                        # the failing call evaluates ANOTHER step's function: whatever it leaves behind differs
                        # from what the observed call would write itself
                        s["fault_case"] = rng.choice([j for j in range(len(cases)) if j != i])
                if not any(s.get("fault") for s in steps):
                    steps[-1]["fault"], steps[-1]["exc"] = ("binned_short" if a["kind"] == "uniform" else "raise_1"), \
                        "ValueError"
            if a["kind"] == "uniform":
                for s in steps:
                    s["order"] = rng.randrange(1, 1 << 16)
                    if rng.random() < 0.3:
                        s["readonly"] = True     # the caller's sub-values are a read-only array
        elif script == "fault_pollute":
            # the iterate scheme, interrupted as late as possible by a function made to leave as much behind as it
            # can, then used again for a function that has pixels which never agree (their value is assembled last)
            a = None
            for _ in range(6):
                cand = self._w_iter(rng, quick, path=rng.choice(["sampler", "via_over_sampling", "decorator"]))
                if not cand or len(cand["steps"]) < 2:
                    continue
                a = a or cand
                try:
                    an = self._analysis(dict(cand))
                    nlev = len(an["table"]) - 1
                    if any(v == an["table"][nlev][k] and all(an["table"][l][k] != v for l in range(1, nlev))
                           for k, v in enumerate(an["expected"])):
                        a = cand
                        break
                except Exception:
                    pass
            if not a:
                return None
            cases = [a]
            if rng.random() < 0.5:
                b = self._v_newf(rng, a)
                if b:
                    cases = rng.choice([[a, b], [b, a]])
            ne = len(a["steps"]) + 1
            steps = [{} for _ in cases]
            for i in ([rng.randrange(len(cases))] if rng.random() < 0.7 else range(len(cases))):
                steps[i] = {"fault": f"raise_{rng.choice([ne, ne, max(3, ne - 1)])}", "pollute": True,
                            "exc": rng.choice(["ValueError", "RuntimeError", "ZeroDivisionError", "FloatingPointError"])}
        elif script == "shared_os":
            a = self._h_world(rng, quick, int_sub=True, routes=("over_sampling", "grid", "dataset_grids"),
                              paths=self.H_GRID_PATHS, ipaths=["via_over_sampling", "decorator"])
            b = a and self._v_newworld(rng, a)
            if not b:
                return None
            cases = rng.choice([[a, b], [b, a], [a, b, a], [b, a, b]])
            share = {"os": True, "obj": rng.random() < 0.5, "holder": rng.random() < 0.5, "mask": True}
        elif script == "shared_mask":
            a = self._h_world(rng, quick, kinds=("func", "uniform"))
            if not a or a.get("path") == "custom_grid":
                return None
            # a sibling scheme on the same Mask2D object: the iterate scheme / another uniform sub-size map
            b = None
            for _ in range(20):
                cand = self._w_iter(rng, quick, path=rng.choice(["sampler", "via_over_sampling", "decorator"]))
                if cand and "table" not in cand:
                    b = dict(cand)
                    b["mask"], b["geom"] = a["mask"], a["geom"]
                    b["geom_as"] = a.get("geom_as", "float")
                    try:
                        if b["mask"]["bits"].count("0") and self.known_finding(b, None) is None \
                                and not self._analysis(b)["early_uncertain"]:
                            b.pop("_analysis", None)
                            break
                    except Exception:
                        pass
                    b = None
            if not b:
                return None
            cases = rng.choice([[a, b], [b, a], [a, b, a], [b, a, b]])
            share = {"mask": True, "os": True, "holder": rng.random() < 0.5}
        elif script == "twins":
            a = self._h_world(rng, quick)
            b = a and self._v_twin(rng, a)
            if not b:
                return None
            cases = rng.choice([[a, b], [a, b, a], [b, a], [b, a, b]])
            share = {**all_share, "obj": True}
            if a["kind"] == "uniform" and rng.random() < 0.3:
                for c in (a, b):
                    c["route"] = "util"     # the module-level jitted utilities called twice
        elif script == "edit_mask":
            a = self._h_world(rng, quick, int_sub=True, paths=["decorator", "decorator_raw", "dataset_grids", "sampler",
                                                               "oversampled_grid"],
                              routes=("direct", "over_sampling", "grid", "dataset_grids"))
            if a and "table" in a:
                return None
            b = a and self._v_mask_edit(rng, a)
            if not b:
                return None
            cases = rng.choice([[a, b], [a, b, a]])
            steps = [{}] + [{"edit": "mask"} for _ in cases[1:]]
            share = {"mask": True, "os": True}
        elif script == "edit_grid":
            a = self._w_func(rng, quick, ["custom_grid"])
            n = a["mask"]["bits"].count("0") if a else 0
            if not a or n == 0:
                return None
            b = dict(a)
            rows = [list(r) for r in a["grid"]]
            ints = a.get("grid_as") in ("list_int", "i64")
            for k in rng.sample(range(n), rng.randint(1, min(2, n))):
                rows[k] = [q(F(rng.randint(-6, 6))), q(F(rng.randint(-6, 6)))] if ints else \
                    [q(gen.dyadic(rng, -6, 6, 3)), q(gen.dyadic(rng, -6, 6, 3))]
            b["grid"] = rows
            cases = [a, b] if rng.random() < 0.6 else [a, b, a]
            steps = [{}] + [{"edit": "grid"} for _ in cases[1:]]
        elif script == "edit_sub":
            a = self._h_world(rng, quick, kinds=("func", "uniform"), list_sub=True,
                              paths=["decorator", "decorator_raw", "dataset_grids", "sampler", "oversampled_grid"])
            if not a:
                return None
            b = dict(a)
            sub = list(a["sub"])
            for k in rng.sample(range(len(sub)), rng.randint(1, min(2, len(sub)))):
                sub[k] = rng.choice([s for s in range(1, 7) if s != sub[k]])
            b["sub"] = sub
            if a["kind"] == "uniform":
                b["values"] = self._fresh_values(rng, a, sum(s * s for s in sub))
            cases = [a, b] if rng.random() < 0.6 else [a, b, a]
            steps = [{}] + [{"edit": "sub"} for _ in cases[1:]]
            for c in cases:
                c["sub_as"] = "ndarray"
        elif script == "edit_vals":
            a = self._w_uniform(rng)
            if not a or not a["values"]:
                return None
            a["values_as"] = "f64"
            b = self._v_newf(rng, a)
            if rng.random() < 0.5:       # only a few entries change
                vals = list(a["values"])
                for k in rng.sample(range(len(vals)), rng.randint(1, min(3, len(vals)))):
                    vals[k] = b["values"][k]
                b["values"] = vals
            cases = [a, b] if rng.random() < 0.6 else [a, b, a]
            steps = [{"order": rng.randrange(1, 1 << 16)}] + [{"edit": "vals", "order": rng.randrange(1, 1 << 16)}
                                                              for _ in cases[1:]]
        elif script == "derived":
            a = self._w_func(rng, quick, self.H_GRID_PATHS) if rng.random() < 0.75 else \
                self._w_iter(rng, quick, path="decorator")
            if not a or "table" in a:
                return None
            how = rng.choice(["slim", "copy", "deepcopy", "arith0", "subtracted", "subtracted", "regrid_os",
                              "regrid_os", "arith_shift"])
            n = a["mask"]["bits"].count("0")
            b = self._v_newf(rng, a) if rng.random() < 0.6 else dict(a)
            if b is None:
                return None
            if how in ("subtracted", "arith_shift"):
                off = (gen.dyadic(rng, -2, 2, 3), gen.dyadic(rng, -2, 2, 3))
                if off == (0, 0):
                    off = (F(1, 2), F(-1, 4))
                g = geom_of(a)
                if how == "subtracted":
                    b["geom"] = [a["geom"][0], a["geom"][1], q(g[2] - off[0]), q(g[3] - off[1])]
                    b["geom_as"] = "float"
                else:
                    if a["kind"] != "func":
                        return None
                    mj = a["mask"]
                    b["grid"] = [[q(p[0] - off[0]), q(p[1] - off[1])] for p in
                                 (pixel_centre(mj["h"], mj["w"], g, y, x) for y, x in unmasked_pixels(mj))]
                    b["path"], b["grid_as"] = "custom_grid", "f64"
                b["offset"] = [q(off[0]), q(off[1])]
            if how == "regrid_os":
                if a["kind"] != "func" or n == 0:
                    return None
                b["sub"] = rng.choice([rng.randint(1, 5), [rng.randint(1, 5) for _ in range(n)]])
            if b["kind"] == "iterate":
                try:
                    if self.known_finding(b, None) is not None or self._analysis(b)["early_uncertain"]:
                        return None
                except Exception:
                    return None
                b.pop("_analysis", None)
            a2 = self._v_newf(rng, a) or a
            cases = [a, b, a2] if rng.random() < 0.6 else [a, b]
            steps = [{}, {"derive": how}] + ([{"back": True}] if len(cases) == 3 else [])
            decoy = decoy or rng.randrange(1, 1 << 16)   # the source grid's derived state is read first
        if not cases:
            return None
        cases = [{k: v for k, v in c.items() if not k.startswith("_")} for c in cases]
        opts = {"share": share, "decoy": decoy, "steps": steps or [{} for _ in cases]}
        return {"tag": f"hist_{script}_{cases[0]['kind']}", "kind": "history", "script": script, "cases": cases,
                "opts": opts}

    # ---- execution on real, reused objects ---------------------------------------------------------
    def _iter_kw(self, c):
        def num(v):
            v = F(v)
            return int(v) if (c.get("num_as") == "int" and v.denominator == 1) else float(v)

        fr = None if c["fr"] is None else num(c["fr"])
        rel = None if c["rel"] is None else num(c["rel"])
        steps = [int(s) for s in c["steps"]]
        if c.get("steps_as") == "tuple":
            steps = tuple(steps)
        kw = {"fractional_accuracy": fr, "relative_accuracy": rel, "sub_steps": steps}
        if c.get("kw_style") == "omit_defaults":
            if c["fr"] is not None and F(c["fr"]) == F(0.9999):
                del kw["fractional_accuracy"]
            if rel is None:
                del kw["relative_accuracy"]
            if list(steps) == [2, 4, 8, 16] and c["path"] != "sampler":
                del kw["sub_steps"]
        # round 5/6 (R5-F): per option "omit" (the value of the case is the documented default) or "sigdefault"
        # (the default read from the constructor's signature is passed explicitly)
        opt = c.get("opt") or {}
        if opt:
            import inspect

            aa = load_autoarray()
            cls = aa.OverSamplerIterate if c["path"] == "sampler" else aa.OverSamplingIterate
            params = inspect.signature(cls.__init__).parameters
            for name, key in (("fr", "fractional_accuracy"), ("rel", "relative_accuracy"), ("steps", "sub_steps")):
                how = opt.get(name)
                if how == "omit" and key in params and params[key].default is not inspect.Parameter.empty:
                    kw.pop(key, None)
                elif how == "sigdefault" and key in params and params[key].default is not inspect.Parameter.empty:
                    kw[key] = params[key].default
        return kw

    @staticmethod
    def _obj_args(c):
        extra = {"ret_as": c.get("ret_as"),
                 "centre": tuple(float(F(v)) for v in c["centre"]) if c.get("centre") else (0.0, 0.0)}
        if "table" in c:
            sy, sx, oy, ox = (float(F(v)) for v in c["geom"])
            return {"f": None, "table": [np.array([float(F(v)) for v in row]) for row in c["table"]],
                    "geom": (sy, sx, oy, ox), "shape": (c["mask"]["h"], c["mask"]["w"]),
                    "ret_int": bool(c.get("ret_int")), **extra}
        return {"f": c["f"], "table": None, "geom": None, "shape": None,
                "ret_int": bool(c.get("ret_int")) if c["kind"] == "func" else False, **extra}

    @staticmethod
    def _custom_grid_values(c):
        ga = c.get("grid_as", "f64")
        if ga == "list_int":
            gv = [[int(F(a)), int(F(b))] for a, b in c["grid"]]
        elif ga == "i64":
            gv = np.array([[int(F(a)), int(F(b))] for a, b in c["grid"]], dtype=np.int64).reshape(-1, 2)
        elif ga == "list_float":
            gv = [[float(F(a)), float(F(b))] for a, b in c["grid"]]
        else:
            gv = np.array([[float(F(a)), float(F(b))] for a, b in c["grid"]]).reshape(-1, 2)
            if ga == "native" and len(gv):        # natively stored (H, W, 2) values, zeros under the mask
                mj = c["mask"]
                nat = np.zeros((mj["h"], mj["w"], 2))
                nat[~common.mask_from_json(mj)] = gv
                return nat
            if len(gv):
                gv = array_variant(gv, ga)
        if len(gv) == 0:
            gv = np.zeros((0, 2))   # an empty Python list carries no (y,x) dimension
        return gv

    @staticmethod
    def _mkey(c):
        return (c["mask"]["h"], c["mask"]["w"], c["mask"]["bits"], tuple(c["geom"]), c.get("geom_as"))

    def _oskey(self, c):
        if c["kind"] == "iterate":
            return ("it", c["fr"], c["rel"], tuple(c["steps"]), c.get("kw_style"), c.get("steps_as"), c.get("num_as"))
        if c.get("path") == "none":
            return ("none",)
        s = c["sub"]
        return ("un", s) if isinstance(s, int) else ("un", tuple(s), c.get("sub_as"), self._mkey(c))

    @staticmethod
    def _path(c):
        return (c.get("route") or "direct") if c["kind"] == "uniform" else c["path"]

    def _h_build(self, aa, c, mask, os_=None, ss=None):
        """the real objects of world c on `mask`: config (`os`), sub-size map (`ss`), `grid` and / or `sampler`"""
        kind, path = c["kind"], self._path(c)
        o = {"mask": mask}
        if kind == "iterate":
            kw = self._iter_kw(c)
            if path == "sampler":
                o["sampler"] = aa.OverSamplerIterate(mask=mask, **kw)
            else:
                o["os"] = os_ if os_ is not None else aa.OverSamplingIterate(**kw)
                if path == "via_over_sampling":
                    o["sampler"] = o["os"].over_sampler_from(mask=mask)
                else:
                    o["grid"] = aa.Grid2D.from_mask(mask=mask, over_sampling=o["os"])
            return o
        if path == "none":
            o["grid"] = aa.Grid2D.from_mask(mask=mask)
            return o
        o["ss"] = ss if ss is not None else (os_.sub_size if os_ is not None else self._sub_size(aa, c, mask))
        if path in ("sampler", "direct", "oversampled_grid", "util"):
            o["sampler"] = aa.OverSamplerUniform(mask=mask, sub_size=o["ss"])
            return o
        o["os"] = os_ if os_ is not None else aa.OverSamplingUniform(sub_size=o["ss"])
        if path == "over_sampling":
            o["sampler"] = o["os"].over_sampler_from(mask=mask)
        elif path == "custom_grid":
            o["grid"] = aa.Grid2D(values=self._custom_grid_values(c), mask=mask, over_sampling=o["os"])
        else:
            o["grid"] = self._uniform_grid(aa, c, mask, o["os"])
        if kind == "uniform" and "sampler" not in o:
            o["sampler"] = o["grid"].over_sampler
        return o

    def _h_decoy(self, aa, pc, o, seed):
        """read every other public derived quantity / sibling API of the objects involved, in a seeded order,
        BEFORE the observed reads (none of them may change what is observed afterwards)"""
        import random as _random

        rr = _random.Random(seed)
        reads = []
        mask = o["mask"]
        for name in ("pixels_in_mask", "shape_slim", "shape_native", "pixel_scales", "origin", "is_all_true",
                     "is_all_false"):
            reads.append(lambda name=name: getattr(mask, name))
        reads.append(lambda: np.asarray(mask.derive_grid.unmasked))
        reads.append(lambda: np.asarray(mask.derive_indexes.native_for_slim))
        g = o.get("grid")
        if g is not None:
            for name in ("slim", "native", "is_uniform", "shape_native", "pixel_scales", "origin", "over_sampling",
                         "over_sampler", "flipped"):
                reads.append(lambda name=name: getattr(g, name))
        ov = o.get("sampler")
        if ov is None and g is not None and getattr(g, "over_sampling", None) is not None:
            reads.append(lambda: self._h_decoy_sampler(aa, pc, g.over_sampler, rr.randrange(1 << 16)))
        if ov is not None:
            reads.append(lambda: self._h_decoy_sampler(aa, pc, ov, rr.randrange(1 << 16)))
        rr.shuffle(reads)
        for r in reads[:rr.randint(3, len(reads))]:
            try:
                r()
            except Exception:
                pass

    def _h_decoy_sampler(self, aa, pc, ov, seed):
        import random as _random

        rr = _random.Random(seed)
        const = pc["cls"](f=C(F(3, 4)))
        reads = []
        if isinstance(ov, aa.OverSamplerUniform):
            for name in ("sub_total", "sub_length", "sub_fraction", "sub_pixel_areas", "over_sampled_grid",
                         "slim_for_sub_slim", "sub_mask_native_for_sub_mask_slim"):
                reads.append(lambda name=name: getattr(ov, name))
            reads.append(lambda: ov.binned_array_2d_from(array=np.ones(int(ov.sub_total))))
            reads.append(lambda: ov.array_via_func_from(func=pc["plain"], obj=const))
        else:
            reads.append(lambda: ov.array_at_sub_size_from(func=pc["plain"], cls=const, mask=ov.mask, sub_size=2))
            reads.append(lambda: ov.array_via_func_from(func=pc["plain"], obj=const))
            reads.append(lambda: (ov.fractional_accuracy, ov.relative_accuracy, ov.sub_steps))
        rr.shuffle(reads)
        for r in reads[:rr.randint(2, len(reads))]:
            try:
                r()
            except Exception:
                pass

    def _h_observe(self, aa, pc, c, o, obj, d):
        with conf_overrides(conf_of(c)):      # the configuration in force at THIS call (R5-D)
            return self._h_observe_(aa, pc, c, o, obj, d)

    def _h_observe_(self, aa, pc, c, o, obj, d):
        kind, path = c["kind"], self._path(c)
        if kind == "uniform":
            if path == "util":
                return self.run_impl({k: v for k, v in c.items() if not k.startswith("_")})
            ov, mask = o["sampler"], o["mask"]
            vals = o["vals"]
            if d.get("readonly") and isinstance(vals, np.ndarray):
                vals = vals.copy()
                vals.setflags(write=False)
            reads = {
                "grid": lambda: [qlist(p) for p in np.asarray(ov.over_sampled_grid, dtype=float).reshape(-1, 2)],
                "slim_for_sub_slim": lambda: [int(v) for v in ov.slim_for_sub_slim],
                "sub_native": lambda: [[int(a), int(b)] for a, b in
                                       np.asarray(ov.sub_mask_native_for_sub_mask_slim).reshape(-1, 2)],
                "areas": lambda: qlist(np.asarray(ov.sub_pixel_areas, dtype=float)),
                "unmasked_grid": lambda: [qlist(p) for p in
                                          np.asarray(mask.derive_grid.unmasked, dtype=float).reshape(-1, 2)],
                "binned": lambda: _slim(ov.binned_array_2d_from(array=vals)),
                "binned_irregular": lambda: _slim(ov.binned_array_2d_from(
                    array=aa.ArrayIrregular(values=np.asarray(vals)))),
                "sub_total": lambda: int(ov.sub_total),
            }
            names = list(reads)
            if d.get("order"):
                import random as _random

                _random.Random(d["order"]).shuffle(names)
            return {k: reads[k]() for k in names}
        if "grid" in o:
            meth = obj.raw_from if path == "decorator_raw" else obj.image_2d_from
            return {"values": _slim(meth(grid=o["grid"]))}
        if path == "oversampled_grid":
            ov = o["sampler"]
            gos = aa.Grid2DOverSampled(grid=ov.over_sampled_grid, over_sampler=ov,
                                       pixels_in_mask=o["mask"].pixels_in_mask)
            return {"values": _slim(obj.image_2d_from(grid=gos))}
        return {"values": _slim(o["sampler"].array_via_func_from(func=pc["plain"], obj=obj))}

    @staticmethod
    def _polluter_args(c):
        """a user function / table for the FAILING call of an iterate world: constant 7 on the left part of the
        frame (agrees at the first level), steep or alternating elsewhere (never agrees)"""
        mj, g = c["mask"], geom_of(c)
        h, w = mj["h"], mj["w"]
        if "table" in c:
            rows = [[7.0 if (i % w) < (w + 1) // 2 else (1.0 if l % 2 == 0 else 100.0) for i in range(h * w)]
                    for l in range(len(c["table"]))]
            sy, sx, oy, ox = (float(v) for v in g)
            return {"f": None, "table": [np.array(r) for r in rows], "geom": (sy, sx, oy, ox), "shape": (h, w),
                    "ret_int": False}
        cols = sorted({x for _, x in unmasked_pixels(mj)}) or [0]
        xm = pixel_centre(h, w, g, 0, cols[len(cols) // 2])[1] - g[1] / 2     # a pixel edge: never a sub-centre
        cy, cx = pixel_centre(h, w, g, *(unmasked_pixels(mj) or [(0, 0)])[-1])
        dy, dx = affine(1, 0, -cy), affine(0, 1, -cx)
        wild = add(C(F(1, 16)), mul(C(64), dy, dy), mul(C(64), dx, dx))
        return {"f": ["gt0", affine(0, -1, xm), C(7), wild], "table": None, "geom": None, "shape": None,
                "ret_int": False}

    def _h_fault(self, aa, pc, c, o, d, fc=None):
        """make a call on the shared objects fail half-way; the caller catches the exception and carries on"""
        import builtins

        fault = d["fault"]
        exc = getattr(builtins, d.get("exc") or "ValueError")
        if d.get("pollute") and c["kind"] == "iterate":
            try:
                k = int(fault.split("_")[1])
                self._h_observe(aa, pc, c, o, pc["cls"](**self._polluter_args(c), raise_at=k, raise_cls=exc), {})
            except Exception:
                return True
            return False
        try:
            if fault == "binned_short":
                t = int(o["sampler"].sub_total)
                if t:
                    o["sampler"].binned_array_2d_from(array=np.zeros(t - 1))
            elif fault == "func_raise":
                o["sampler"].array_via_func_from(func=pc["plain"], obj=pc["cls"](f=C(1), raise_at=1, raise_cls=exc))
            elif fault == "short":
                self._h_observe(aa, pc, c, o, pc["cls"](**self._obj_args(fc or c), short=True), {})
            else:
                k = int(fault.split("_")[1])
                self._h_observe(aa, pc, c, o, pc["cls"](**self._obj_args(fc or c), raise_at=k, raise_cls=exc), {})
        except Exception:
            return True
        return False

    def _run_history(self, case):
        import copy as _copy

        subs = self._subs(case)
        for c in subs:
            if c["kind"] != "uniform":
                self._check_margin(self._analysis(c))
        aa = load_autoarray()
        pc = profile_classes()
        opts = case.get("opts") or {}
        share = opts.get("share") or {}
        steps = opts.get("steps") or [{} for _ in subs]
        masks, oss, holders, objs = {}, {}, {}, {}
        prev, first, last_obj = None, None, None
        out = []
        for i, c in enumerate(subs):
            d = steps[i] if i < len(steps) else {}
            o = None
            try:
                mk, ok = self._mkey(c), self._oskey(c)
                hk = (mk, ok, "decorator" if self._path(c) == "decorator_raw" else self._path(c))
                if d.get("back") and first is not None:
                    o = first                                   # the source object again, after a derived one was used
                elif d.get("derive") and prev is not None:
                    pg = prev["grid"]
                    how = d["derive"]
                    if how == "slim":
                        g2 = pg.slim
                    elif how == "native":
                        g2 = pg.native
                    elif how == "copy":
                        g2 = _copy.copy(pg)
                    elif how == "deepcopy":
                        g2 = _copy.deepcopy(pg)
                    elif how == "arith0":
                        g2 = pg + 0.0
                    elif how == "subtracted":
                        g2 = pg.subtracted_from(offset=tuple(float(F(v)) for v in c["offset"]))
                    elif how == "arith_shift":
                        g2 = pg - np.array([float(F(v)) for v in c["offset"]])
                    else:   # regrid_os: the constructor the decorator itself uses for over_sampling=None
                        g2 = aa.Grid2D(values=pg, mask=pg.mask,
                                       over_sampling=aa.OverSamplingUniform(sub_size=self._sub_size(aa, c, pg.mask)))
                    o = {"mask": g2.mask, "grid": g2, "os": g2.over_sampling}
                elif d.get("edit") == "grid" and prev is not None:
                    o = prev
                    new = self._custom_grid_values(c)
                    cur = np.asarray(o["grid"])
                    for k in range(len(new)):
                        if tuple(np.asarray(new[k], dtype=float)) != tuple(np.asarray(cur[k], dtype=float)):
                            o["grid"][k] = new[k]               # public __setitem__ of the library's Grid2D
                else:
                    mask = None
                    if d.get("edit") == "mask" and prev is not None:
                        mask = prev["mask"]
                        h, w = c["mask"]["h"], c["mask"]["w"]
                        cur = np.array(mask)
                        for j, b in enumerate(c["mask"]["bits"]):
                            if bool(cur[j // w, j % w]) != (b == "1"):
                                mask[j // w, j % w] = (b == "1")  # public __setitem__ of Mask2D
                        masks = {k: v for k, v in masks.items() if v is not mask}
                        holders = {k: v for k, v in holders.items() if v["mask"] is not mask}
                    elif share.get("mask") and mk in masks:
                        mask = masks[mk]
                    if mask is None:
                        mask = self._mask(aa, c)
                    masks[mk] = mask
                    if share.get("holder") and hk in holders and d.get("edit") in (None, "vals"):
                        o = holders[hk]
                    elif d.get("edit") == "sub" and prev is not None and "ss" in prev:
                        ss = prev["ss"]
                        new = expand_sub(c, len(ss))
                        for k in range(len(new)):
                            if int(ss[k]) != new[k]:
                                ss[k] = new[k]                  # public __setitem__ of the Array2D sub-size map
                        o = self._h_build(aa, c, mask, os_=prev.get("os"), ss=ss)
                    else:
                        os_ = oss.get(ok) if share.get("os") else None
                        o = self._h_build(aa, c, mask, os_=os_)
                    if "os" in o:
                        oss[ok] = o["os"]
                    holders[hk] = o
                    if opts.get("decoy"):
                        self._h_decoy(aa, pc, o, opts["decoy"] + i)
                if first is None:
                    first = o
                # the user object
                args = self._obj_args(c) if c["kind"] != "uniform" else None
                obj = None
                if args is not None:
                    okey = json.dumps([c.get("f"), c.get("table"), c.get("ret_int")], sort_keys=True)
                    if d.get("obj") == "mutate" and last_obj is not None:
                        obj = last_obj
                        for k, v in args.items():
                            setattr(obj, k, v)                  # the caller edits the profile in place
                    elif share.get("obj") and okey in objs:
                        obj = objs[okey]
                    else:
                        obj = pc["cls"](**args)
                    obj.calls = 0
                    objs[okey] = obj
                    last_obj = obj
                else:
                    new = [float(F(v)) for v in c["values"]]
                    if d.get("edit") == "vals" and prev is not None and "vals" in prev \
                            and isinstance(prev["vals"], np.ndarray) and len(prev["vals"]) == len(new):
                        o["vals"] = prev["vals"]
                        for k in range(len(new)):
                            if o["vals"][k] != new[k]:
                                o["vals"][k] = new[k]           # numpy edit of the caller-owned sub-values
                    else:
                        o["vals"] = self._values_arg(c)
                if d.get("fault"):
                    fj = d.get("fault_case")
                    self._h_fault(aa, pc, c, o, d, subs[fj] if fj is not None and fj < len(subs) else None)
                    if obj is not None:
                        obj.calls = 0
                out.append(self._h_observe(aa, pc, c, o, obj, d))
            except Skip:
                raise
            except Exception as e:
                out.append({"err": type(e).__name__, "msg": str(e)[:200]})
            if o is not None:
                prev = o
        return {"steps": out}

    # ---- model / compare / oracle: observation i against a fresh evaluation of cases[i] -------------
    def _history_requests(self, case, impl_obs):
        reqs, counts = [], []
        steps = impl_obs.get("steps", []) if isinstance(impl_obs, dict) else []
        for c, o in zip(self._subs(case), steps):
            try:
                rs = self.model_requests(c, o)
            except Skip:
                rs = []
            counts.append(len(rs))
            reqs += rs
        case["_counts"] = counts
        return reqs

    def _history_model_obs(self, case, responses):
        out, k = [], 0
        for c, n in zip(self._subs(case), case.get("_counts", [])):
            out.append(self.model_obs(c, responses[k:k + n]) if n else None)
            k += n
        return {"steps": out}

    def _history_compare(self, case, impl_obs, model_obs, cmp):
        for i, (c, io, mo) in enumerate(zip(self._subs(case), impl_obs.get("steps", []), model_obs["steps"])):
            if mo is None:
                continue
            try:
                dd = self.compare(c, io, mo, cmp)
            except Skip:
                continue
            if dd:
                return f"history {case['script']} observation {i}: {dd}"
        return None

    def _narrate(self, case, upto):
        opts = case.get("opts") or {}
        sh = "+".join(k for k, v in (opts.get("share") or {}).items() if v) or "nothing"
        parts = [f"objects shared between steps: {sh}"]
        if opts.get("decoy"):
            parts.append("every other derived quantity / sibling call read first")
        for i, d in enumerate((opts.get("steps") or [])[:upto + 1]):
            bits = [f"{k}={v}" for k, v in d.items()
                    if k in ("fault", "exc", "fault_case", "pollute", "edit", "derive", "obj", "back")
                    and v is not None and v != ""]
            if case["cases"][i].get("twin"):
                bits.append(f"near-duplicate ({case['cases'][i]['twin']})")
            if case.get("script") == "conf":
                ad = (case["cases"][i].get("conf") or {}).get("adaptive")
                bits.append("configuration in force at this call: " + (
                    f"sub_size_list {ad['ssl']}, radial_factor_list {[float(F(v)) for v in ad['rfl']]}" if ad
                    else "pinned (sub_size_list [1, 1])"))
            if bits:
                parts.append(f"step {i}: " + ", ".join(bits))
        return "; ".join(parts)

    def _history_oracle(self, case, obs):
        if not isinstance(obs, dict) or "steps" not in obs:
            return False, f"implementation raised {obs}"
        subs = self._subs(case)
        if len(obs["steps"]) != len(subs):
            return False, "history was cut short"
        for i, (c, o) in enumerate(zip(subs, obs["steps"])):
            try:
                holds, detail = self.oracle(c, o)
            except Skip:
                continue
            if not holds:
                return False, (f"history '{case['script']}', observation {i} of {len(subs)} is not what a freshly built "
                               f"object in that state gives [{self._narrate(case, i)}]: {detail}")
        return True, ""

    def _shrink_history(self, case):
        base = {k: v for k, v in case.items() if not k.startswith("_") and k != "corpus_file"}
        opts = base.get("opts") or {}
        steps = list(opts.get("steps") or [{} for _ in base["cases"]])
        if opts.get("decoy"):
            yield {**base, "opts": {**opts, "decoy": None}}
        for i, d in enumerate(steps):
            if d.get("fault"):
                s2 = list(steps)
                s2[i] = {k: v for k, v in d.items() if k not in ("fault", "exc", "fault_case", "pollute")}
                yield {**base, "opts": {**opts, "steps": s2}}
            if d.get("order"):
                s2 = list(steps)
                s2[i] = {k: v for k, v in d.items() if k != "order"}
                yield {**base, "opts": {**opts, "steps": s2}}
        n = len(base["cases"])
        if n == 1 and not any(steps[0].get(k) for k in ("edit", "derive", "back")):
            # a one-observation history: shrink the world itself (pixels, sub-sizes, schedule)
            for c2 in self._shrink(base["cases"][0]):
                yield {**base, "cases": [c2]}
        if n > 1:
            # only trailing observations are dropped: what precedes the failing observation is what makes it fail
            # (a leading step may have filled a process-wide memo, and a replay starts from a fresh process)
            yield {**base, "cases": base["cases"][:-1], "opts": {**opts, "steps": steps[:n - 1]}}

    # ================================================================================ ROUND 5/6 streams
    # decade : {"kind": "decade", "base": ordinary case, "kf": k, "kg": k, "shift": [dy, dx] | None}
    #          the world of `base` with the user function / table / sub-values / absolute tolerance scaled by 2^kf, the
    #          geometry (pixel scales, origin, custom grid values; the function is composed with the inverse map) by
    #          2^kg and the origin moved by `shift`.  Powers of two commute with every IEEE operation the code performs
    #          (no over/underflow in the generated range) and the shift is only used where every coordinate is exactly
    #          representable, so a correct implementation returns EXACTLY the transformed result of the base world:
    #          the observation and the model value (computed for the transformed world) are transformed back exactly
    #          and judged by the comparison / oracle of the base world, i.e. relative to the scaled magnitude.
    # own    : {"kind": "own", "base": case, "rounds": 3, "scribble": mode, "cb_edit": mode | None}
    #          ownership history (R5-B): observe -> overwrite in place every array handed to or handed back by the API
    #          in that round (and, with cb_edit, let the user function edit its argument) -> rebuild the same world from
    #          fresh equal inputs -> observe; every round is judged like a fresh world.
    @staticmethod
    def _pub(c):
        return {k: v for k, v in c.items() if not k.startswith("_") and k != "corpus_file"}

    def _inner(self, case):
        """private working copy of a wrapper's base case (analysis caches live there, never in the JSON)"""
        if "_inner" not in case:
            case["_inner"] = self._pub(case["base"])
        return case["_inner"]

    # ---- decade --------------------------------------------------------------------------------------------------
    def _decade_scaled(self, case):
        if "_scaled" in case:
            return case["_scaled"]
        b = self._pub(case["base"])
        kf, kg = int(case.get("kf") or 0), int(case.get("kg") or 0)
        sh = case.get("shift")
        uf, ug = pow2(kf), pow2(kg)
        D = (F(sh[0]), F(sh[1])) if sh else (F(0), F(0))
        sc = dict(b)
        if kg or sh:
            g = [F(v) for v in b["geom"]]
            sc["geom"] = [q(g[0] * ug), q(g[1] * ug), q(g[2] * ug + D[0]), q(g[3] * ug + D[1])]
            sc["geom_as"] = "float"
            if "grid" in b:
                sc["grid"] = [[q(F(a) * ug + D[0]), q(F(c) * ug + D[1])] for a, c in b["grid"]]
                if b.get("grid_as") in ("list_int", "i64"):
                    sc["grid_as"] = "f64"
            if "f" in b:
                def coord(e, d):
                    if d != 0:
                        e = ["sub", e, C(d)]
                    if kg:
                        e = ["mul", C(1 / ug), e]
                    return e

                sc["f"] = subst(b["f"], coord(["y"], D[0]), coord(["x"], D[1]))
        if kf:
            if "f" in sc:
                sc["f"] = ["mul", C(uf), sc["f"]]
            if "table" in b:
                sc["table"] = [[q(F(v) * uf) for v in row] for row in b["table"]]
            if b.get("rel") is not None:
                sc["rel"], sc["num_as"] = q(F(b["rel"]) * uf), "float"
            if "values" in b:
                sc["values"] = [q(F(v) * uf) for v in b["values"]]
                if b.get("values_as") in ("i64", "list_int", "tuple_int", "i32", "i16") \
                        or (b.get("values_as") == "f32" and abs(kf) > 90):
                    sc["values_as"] = "f64"
            sc.pop("ret_int", None)
            if b.get("ret_as") == "i32" or (b.get("ret_as") == "f32" and abs(kf) > 90):
                sc.pop("ret_as", None)
        case["_scaled"] = sc
        return sc

    def _decade_unscale(self, case, obs):
        """exact inverse transformation of an observation of the transformed world"""
        if not isinstance(obs, dict) or "err" in obs:
            return obs
        uf, ug = pow2(int(case.get("kf") or 0)), pow2(int(case.get("kg") or 0))
        sh = case.get("shift")
        D = (F(sh[0]), F(sh[1])) if sh else (F(0), F(0))

        def un(v, div, off=0):
            try:
                return q((F(v) - off) / div)
            except (ValueError, ZeroDivisionError, TypeError):
                return v            # nan / inf / not a number: left as it is (and reported as it is)

        out = dict(obs)
        for key in ("values", "binned", "binned_irregular"):
            if isinstance(obs.get(key), list):
                out[key] = [un(v, uf) for v in obs[key]]
        for key in ("grid", "unmasked_grid"):
            if isinstance(obs.get(key), list):
                out[key] = [[un(p[0], ug, D[0]), un(p[1], ug, D[1])] for p in obs[key]]
        if isinstance(obs.get("areas"), list):
            out["areas"] = [un(v, ug * ug) for v in obs["areas"]]
        return out

    def _run_decade(self, case):
        inner = self._inner(case)
        if inner["kind"] != "uniform":
            self._check_margin(self._analysis(inner))
        sc = dict(self._decade_scaled(case))
        aa = load_autoarray()
        with conf_overrides(conf_of(sc)):
            obs = self._run_ordinary(aa, sc)
        return self._decade_unscale(case, obs)

    def _decade_words(self, case):
        bits = []
        if case.get("kf"):
            bits.append(f"function values / sub-values / absolute tolerance scaled by 2^{case['kf']}")
        if case.get("kg"):
            bits.append(f"pixel scales, origin and grid scaled by 2^{case['kg']} (function composed with the inverse map)")
        if case.get("shift"):
            bits.append(f"origin moved by ({float(F(case['shift'][0]))!r}, {float(F(case['shift'][1]))!r})")
        if case.get("near"):
            bits.append(f"ingredient: {self.NEAR_WORDS.get(case['near'], case['near'])}")
        return "[" + ("; ".join(bits) or "unit world") + "; values below are transformed back to the base world] "

    NEAR_WORDS = {"zero0": "function nearly (not exactly) zero at every pixel centre",
                  "equal": "successive levels nearly equal (relative 2^-20 ... 2^-26)",
                  "univals": "nearly uniform sub-values", "square": "nearly square pixels (relative 2^-20 ... 2^-24)",
                  "const": "nearly constant function"}

    @staticmethod
    def _shift_ok(b):
        """every coordinate the implementation computes is exactly representable, also far from the origin"""
        if not geom_float_exact(geom_of(b)):
            return False
        n = b["mask"]["bits"].count("0")
        subs = list(b["steps"]) if b["kind"] == "iterate" else expand_sub(b, n)
        return all(is_pow2(int(s)) for s in subs) and "conf" not in b

    def _rand_exp(self, rng, lim):
        """exponent of a decade: mostly where hidden absolute tolerances (1e-8 ... 1e-12, 1e8 ...) sit, a quarter out
        to the limit (R5-E)"""
        r = rng.random()
        if r < 0.40:
            k = -rng.randint(28, 45)
        elif r < 0.60:
            k = rng.randint(28, 45)
        elif r < 0.75:
            k = rng.choice([-1, 1]) * rng.randint(1, 27)
        else:
            k = rng.choice([-1, 1]) * rng.randint(100, lim)
        return k

    def _decade_wrap(self, rng, b, mode=None, near=None):
        kind = b["kind"]
        modes = ["amp", "amp", "amp", "geo", "both"]
        if self._shift_ok(b):
            modes += ["far", "far_amp"]
        if near:
            modes += ["unit", "unit"]
        mode = mode or rng.choice(modes)
        kf = kg = 0
        shift = None
        if mode in ("amp", "both", "far_amp"):
            kf = self._rand_exp(rng, 500)
        if mode in ("geo", "both"):
            kg = self._rand_exp(rng, 200)
        if mode in ("far", "far_amp"):
            g = geom_of(b)
            j = rng.randint(10, 30)
            shift = [q(g[0] * rng.choice([-7, -5, -3, -1, 1, 3, 5, 7]) * pow2(j)),
                     q(g[1] * rng.choice([-7, -5, -3, -1, 1, 3, 5, 7]) * pow2(rng.randint(10, 30)))]
        label = near or (("table" if "table" in b else kind))
        return {"tag": f"dec_{mode}_{label}", "kind": "decade", "base": self._pub(b), "kf": kf, "kg": kg,
                "shift": shift, "near": near}

    # ---- nearly-zero / nearly-equal / nearly-uniform ingredients (relative offsets 2^-20 ... 2^-28: far outside the
    #      property's 1e-9, inside the defaults of np.allclose / np.isclose once magnitudes are small) ------------------
    def _near_zero0_case(self, rng):
        """a function that is tiny but NOT zero at every pixel centre and of ordinary size on every sub-grid
        (a (y - Y0)^2 + eps on a one-row mask, or an explicit table): the rule gives the value of the last level"""
        eps = pow2(-rng.randint(20, 28))
        if rng.random() < 0.6:
            c = self._zero_centre_case(rng)
            c["geom"] = rand_geom(rng, exact=True)
            g = geom_of(c)
            mj = c["mask"]
            P = pixel_centre(mj["h"], mj["w"], g, *unmasked_pixels(mj)[0])
            dy, dx = affine(1, 0, -P[0]), affine(0, 1, -P[1])
            if len(unmasked_pixels(mj)) == 1:
                f = add(mul(C(F(rng.randint(1, 4))), dy, dy), mul(C(F(rng.randint(0, 3))), dx, dx), C(eps))
            else:
                f = add(mul(C(F(rng.randint(1, 4))), dy, dy), C(eps))
            c.update(f=f, tag="iterate_near_zero0", steps=rng.choice([[2], [2, 4], [4, 2], [2, 4, 8]]),
                     rel=rng.choice([None, None, q(F(1, 1 << 10))]),
                     path=rng.choice(["sampler", "decorator", "via_over_sampling"]), **self._call_style(rng, c["geom"]))
            return c
        m, _k = rand_mask(rng, 4, 4, max_unmasked=8)
        mj = mask_json(m)
        h, w = mj["h"], mj["w"]
        steps = rng.choice([[2, 4], [2], [2, 4, 8], [4, 2]])
        table = [[eps * rng.randint(1, 7) for _ in range(h * w)]]
        for _ in steps:
            table.append([F(rng.randint(8, 64), 8) for _ in range(h * w)])
        geom = rand_geom(rng, exact=True)
        return {"tag": "table_near_zero0", "kind": "iterate", "mask": mj, "geom": geom,
                "table": [qlist(r) for r in table], "fr": q(F(float(rng.choice([F(9, 10), F(1, 2), F(9999, 10000)])))),
                "rel": rng.choice([None, None, q(F(100))]), "steps": steps,
                "path": rng.choice(["sampler", "decorator", "via_over_sampling"]), "exact": True,
                **self._call_style(rng, geom)}

    def _near_equal_case(self, rng):
        """explicit level tables whose successive levels differ by 2^-j (relative, j = 20 ... 26); thresholds between
        two ratios / differences that actually occur, exact ties, fractional accuracy 1"""
        m, _k = rand_mask(rng, 4, 4, max_unmasked=9)
        mj = mask_json(m)
        h, w = mj["h"], mj["w"]
        steps = rng.choice([[2, 4], [2, 4, 8], [2, 2, 2], [1, 2, 4], [4, 2], [2, 4, 2, 4]])
        j = rng.randint(20, 26)
        table = [[None] * (h * w) for _ in range(len(steps) + 1)]
        for i in range(h * w):
            base = F(rng.randint(4, 60), 4)
            k = 0
            for l in range(len(steps) + 1):
                k += rng.choice([0, 0, 1, 1, 2, 3, -1, -2])
                table[l][i] = base * (1 + k * pow2(-j))
        idx = [i for i, c in enumerate(mj["bits"]) if c == "0"]
        ratios, diffs = set(), set()
        for l in range(1, len(steps) + 1):
            for i in idx:
                lo, hi = table[l - 1][i], table[l][i]
                ratios.add(min(lo, hi) / max(lo, hi))
                diffs.add(abs(lo - hi))
        rs, ds = sorted(ratios), sorted(diffs)
        how = rng.choice(["mid", "mid", "one", "tie_rel", "mid_rel", "mid_rel"])
        fr, rel = F(float(F(1) - pow2(-(j - 4)))), None        # generous: every pair agrees unless `rel` says no
        if how == "one":
            fr = F(1)
        elif how == "mid" and len(rs) >= 2:
            gaps = [a for a in range(len(rs) - 1) if rs[a + 1] - rs[a] > pow2(-(j + 1))]
            if gaps:
                a = rng.choice(gaps)
                fr = F(float((rs[a] + rs[a + 1]) / 2))
        elif how == "tie_rel" and ds:
            rel = rng.choice(ds)
        elif ds:
            a = rng.randrange(len(ds))
            rel = F(float((ds[a] + (ds[a + 1] if a + 1 < len(ds) else 2 * ds[a])) / 2))
        geom = rand_geom(rng, exact=True)
        return {"tag": "table_near_equal", "kind": "iterate", "mask": mj, "geom": geom,
                "table": [qlist(r) for r in table], "fr": q(fr), "rel": None if rel is None else q(rel),
                "steps": steps, "path": rng.choice(["sampler", "decorator", "via_over_sampling"]), "exact": True,
                **self._call_style(rng, geom)}

    def _near_uniform_values_case(self, rng):
        """sub-values c (1 + i 2^-24): nearly uniform, every per-pixel mean different"""
        c = self._w_uniform(rng)
        if not c or not c["values"]:
            return None
        base = F(rng.randint(8, 40), 8) * rng.choice([1, -1])
        c["values"] = qlist([base * (1 + F(abs(int(F(v) * 8)) % 97, 1 << 24)) for v in c["values"]])
        c["values_as"] = rng.choice(["f64", "f64", "list_float", "strided", "readonly"])
        c["tag"] = "uniform_near_uniform_values"
        return c

    def _near_square_case(self, rng, quick):
        """pixel scales that differ by 2^-22 (relative)"""
        c = self._w_uniform(rng) if rng.random() < 0.5 else self._w_func(rng, quick, ["sampler", "decorator",
                                                                                       "decorator_raw", "dataset_grids"])
        if not c:
            return None
        g = [F(v) for v in c["geom"]]
        g[1] = g[0] * (1 + rng.choice([1, -1]) * pow2(-rng.randint(20, 24)))
        c["geom"], c["geom_as"] = qlist(g), "float"
        c["tag"] = f"{c['kind']}_near_square"
        return c

    def _near_const_case(self, rng, quick):
        """c + 2^-20 * quadratic: nearly constant, the per-pixel means are not the values at the pixel centres"""
        c = self._w_func(rng, quick, ["sampler", "decorator", "decorator_raw", "oversampled_grid", "dataset_grids"])
        if not c:
            return None
        d = lambda: gen.dyadic(rng, -3, 3, 2)
        mj, g = c["mask"], geom_of(c)
        cy, cx = pixel_centre(mj["h"], mj["w"], g, mj["h"] // 2, mj["w"] // 2)
        quad = subst(poly([(d() or F(1), 2, 0), (d(), 1, 1), (d() or F(-1), 0, 2), (d(), 1, 0)]),
                     ["sub", ["y"], C(cy)], ["sub", ["x"], C(cx)])
        c["f"] = add(C(F(rng.randint(4, 24), 4)), mul(C(pow2(-rng.choice([20, 22, 22, 24]))), quad))
        c.pop("ret_int", None)
        c["tag"] = "func_near_const"
        return c

    def _decade_case(self, rng, quick):
        r = rng.random()
        near = None
        if r < 0.16:
            b, near = self._near_zero0_case(rng), "zero0"
        elif r < 0.32:
            b, near = self._near_equal_case(rng), "equal"
        elif r < 0.38:
            b, near = self._near_uniform_values_case(rng), "univals"
        elif r < 0.44:
            b, near = self._near_square_case(rng, quick), "square"
        elif r < 0.50:
            b, near = self._near_const_case(rng, quick), "const"
        elif r < 0.78:
            b = self._w_iter(rng, quick, path=rng.choice(["sampler", "via_over_sampling", "decorator"]))
        elif r < 0.92:
            b = self._w_func(rng, quick, self.H_FUNC_PATHS)
        else:
            b = self._w_uniform(rng)
        if not b:
            return None
        if b["kind"] == "iterate":
            try:
                if self.known_finding(b, None) is not None or self._analysis(b)["early_uncertain"]:
                    return None
            except Exception:
                return None
        return self._decade_wrap(rng, b, near=near)

    # ---- ownership histories ------------------------------------------------------------------------------------
    @staticmethod
    def _arrays_of(x, depth=0):
        """the numpy buffers behind an object handed in / out: itself, the `_array` of the library's structures, and
        one / two levels of attributes that are structures of the library"""
        if isinstance(x, np.ndarray):
            yield x
            return
        a = getattr(x, "_array", None)
        if isinstance(a, np.ndarray):
            yield a
        if isinstance(x, (list, tuple)):
            if depth < 1:
                for v in x:
                    if not isinstance(v, (int, float, str, bool)):
                        yield from C09._arrays_of(v, depth + 1)
            return
        if depth < 2 and hasattr(x, "__dict__"):
            for v in list(vars(x).values()):
                if isinstance(v, np.ndarray) or hasattr(v, "_array") \
                        or type(v).__module__.startswith("autoarray.operators") \
                        or type(v).__module__.startswith("autoarray.structures") \
                        or type(v).__module__.startswith("autoarray.mask"):
                    yield from C09._arrays_of(v, depth + 1)

    def _scribble(self, cap, mode):
        seen = set()
        for x in cap or []:
            try:
                arrs = list(self._arrays_of(x))
            except Exception:
                continue
            for a in arrs:
                while isinstance(a.base, np.ndarray):
                    a = a.base                   # the whole buffer that owns the data
                if id(a) in seen or not a.flags.writeable or a.size == 0:
                    continue
                seen.add(id(a))
                try:
                    if a.dtype == bool:
                        a[...] = ~a
                    elif np.issubdtype(a.dtype, np.integer):
                        a[...] = a + 1
                    elif np.issubdtype(a.dtype, np.floating):
                        a[...] = np.nan if mode == "nan" else (0.0 if mode == "zero" else a + 1.0)
                except Exception:
                    pass

    def _run_own(self, case):
        import copy as _copy

        outs = []
        for r in range(int(case.get("rounds", 3))):
            c = _copy.deepcopy(self._pub(case["base"]))
            self._cap, self._cb_edit = [], case.get("cb_edit")
            try:
                try:
                    obs = self.run_impl(c)
                except Skip:
                    raise
                except Exception as e:
                    obs = {"err": type(e).__name__, "msg": str(e)[:200]}
            finally:
                cap, self._cap, self._cb_edit = self._cap, None, None
            outs.append(obs)
            self._scribble(cap, case.get("scribble", "nan"))
        return {"rounds": outs}

    def _own_case(self, rng, quick):
        r = rng.random()
        if r < 0.30:
            b = self._w_uniform(rng, routes=("direct", "over_sampling", "grid", "dataset_grids", "util"))
        elif r < 0.65:
            b = self._w_func(rng, quick, self.H_FUNC_PATHS)
        else:
            b = self._w_iter(rng, quick, path=rng.choice(["sampler", "via_over_sampling", "decorator"]))
        if not b:
            return None
        if rng.random() < 0.2:
            b = self._decade_wrap(rng, b)
        inner_kind = b["base"]["kind"] if b["kind"] == "decade" else b["kind"]
        return {"tag": f"own_{inner_kind}", "kind": "own", "base": self._pub(b), "rounds": 3,
                "scribble": rng.choice(["nan", "nan", "plus1", "zero"]),
                "cb_edit": None if inner_kind == "uniform" else rng.choice([None, "nan", "nan", "shift"])}

    # ---- container / layout variants (R5-C) ----------------------------------------------------------------------
    MASK_AS = ["fortran", "tview", "strided", "readonly", "list", "int01", "inverted", "from_mask2d", "from_mask2d",
               "from_mask2d_same"]
    PS_AS = ["list", "np64", "nparr", "scalar"]
    ORIGIN_AS = ["list", "np64", "nparr", "omit"]
    SUB_AS = ["i32", "i16", "u8", "native", "from_array2d", "strided", "readonly", "reversed"]
    VALUES_AS = ["strided", "reversed", "readonly", "i32", "i16", "f32", "tuple_int", "list_float"]
    # (a Python list / tuple is not a legal return value: `to_array` and `Array2D` need an ndarray-like; a natively
    #  stored Grid2D is not a legal argument of the (N, 2)-shaped mock functions)
    RET_AS = ["strided", "reversed", "readonly", "irregular"]
    GRID_AS = ["fortran", "tview", "strided", "readonly", "native", "tuple_rows", "reversed"]

    def _layout_case(self, rng, quick):
        r = rng.random()
        if r < 0.30:
            c = self._w_uniform(rng, routes=("direct", "over_sampling", "grid", "dataset_grids"))
        elif r < 0.70:
            c = self._w_func(rng, quick, self.H_FUNC_PATHS + ["custom_grid", "custom_grid"])
        else:
            c = self._w_iter(rng, quick, path=rng.choice(["sampler", "via_over_sampling", "decorator"]))
        if not c:
            return None
        kind = c["kind"]
        n = c["mask"]["bits"].count("0")
        g = geom_of(c)
        opts = ["mask", "mask", "ps", "origin"]
        if kind != "iterate" and isinstance(c.get("sub"), list) and n and c.get("path") != "none":
            opts += ["sub", "sub"]
        # (a natively stored sub-size map comes back from Array2D with a float dtype; the over-sampled grid and the
        #  binning cast it to int, slim_for_sub_slim / sub_mask_native_for_sub_mask_slim raise TypeError for it -- an
        #  exception, never a wrong value; that layout is therefore used for the function paths only)
        sub_as = self.SUB_AS if kind == "func" else [x for x in self.SUB_AS if x != "native"]
        if kind == "uniform" and c["values"]:
            opts += ["values", "values"]
        if kind != "uniform":
            opts += ["ret", "ret"]
        if kind == "func" and c["path"] == "custom_grid" and n:
            opts += ["grid", "grid", "grid"]
        picked = set(rng.sample(opts, min(len(opts), rng.choice([1, 2, 2, 3]))))
        if rng.random() < 0.25:
            # the example of DESIGN §14: a mask built from a mask, the explicitly passed origin being exactly (0, 0)
            c["geom"] = [c["geom"][0], c["geom"][1], "0", "0"]
            c["mask_as"] = "from_mask2d"
            c["origin_as"] = rng.choice([None, "list", "np64"])
            picked -= {"mask", "origin"}
            if "grid" in c and kind == "func" and c["path"] != "custom_grid":
                pass
        for o in sorted(picked):
            if o == "mask":
                c["mask_as"] = rng.choice(self.MASK_AS)
            elif o == "ps":
                how = rng.choice(self.PS_AS)
                if how == "scalar":
                    c["geom"] = [c["geom"][0], c["geom"][0], c["geom"][2], c["geom"][3]]
                c["ps_as"] = how
            elif o == "origin":
                how = rng.choice(self.ORIGIN_AS)
                if how == "omit":
                    c["geom"] = [c["geom"][0], c["geom"][1], "0", "0"]
                c["origin_as"] = how
            elif o == "sub":
                c["sub_as"] = rng.choice(sub_as)
            elif o == "values":
                how = rng.choice(self.VALUES_AS)
                vals = [F(v) for v in c["values"]]
                if how in ("i32", "i16", "tuple_int") and any(v.denominator != 1 for v in vals):
                    vals = [F(int(v * 8)) for v in vals]
                c["values"], c["values_as"] = qlist(vals), how
            elif o == "ret":
                how = rng.choice(self.RET_AS + (["f32", "f32"] if "table" in c else []))
                if how == "f32" and not all(F(v).denominator <= 1 << 10 and abs(F(v).numerator) < 1 << 20
                                            for row in c["table"] for v in row):
                    how = "strided"
                if c.get("ret_int") and how == "f32":
                    how = "i32"
                c["ret_as"] = how
            elif o == "grid":
                how = rng.choice(self.GRID_AS)
                c["grid"] = [[q(gen.dyadic(rng, -6, 6, 3)), q(gen.dyadic(rng, -6, 6, 3))] for _ in range(n)]
                c["grid_as"] = how
            elif o == "store":
                c["grid_store"] = "native"
        if "ps_as" in c or "origin_as" in c or c.get("mask_as") in ("from_mask2d", "from_mask2d_same"):
            c["geom_as"] = "float"
        if kind == "iterate":
            c.pop("_analysis", None)
            try:
                if self.known_finding(c, None) is not None or self._analysis(c)["early_uncertain"]:
                    return None
            except Exception:
                return None
            c.pop("_analysis", None)
        c["tag"] = "lay_" + kind + "_" + "+".join(sorted(picked) or ["mask0"])
        return self._pub(c)

    # ---- configuration (R5-D) ------------------------------------------------------------------------------------
    ADAPT_SSL = [[4, 2, 1], [3, 1], [2, 3, 1], [1, 2], [5, 1, 2], [8, 4, 2, 1], [2, 2]]
    ADAPT_RF = [0.7, 1.3, 1.9, 2.45, 3.01, 4.2]

    def _adaptive_conf(self, rng):
        ssl = list(rng.choice(self.ADAPT_SSL))
        rfl = sorted(rng.sample(self.ADAPT_RF, len(ssl) - 1))
        return {"adaptive": {"ssl": ssl, "rfl": [q(F(float(x))) for x in rfl]}}

    def _adaptive_case(self, rng, quick, path="none"):
        """a decorated call on a Grid2D with over_sampling=None while the configuration prescribes a non-trivial
        adaptive scheme for the profile class (path "none"), or an explicit over-sampling while it does (control)"""
        for _ in range(60):
            c = self._w_func(rng, quick, [path])
            if not c:
                continue
            mj = c["mask"]
            h, w = mj["h"], mj["w"]
            n = mj["bits"].count("0")
            if n == 0 or not rows_contiguous(mj):
                continue
            g = geom_of(c)
            P = pixel_centre(h, w, g, rng.randrange(h), rng.randrange(w))
            c["centre"] = [q(P[0] + g[0] * F(rng.randint(-5, 5), 16)), q(P[1] + g[1] * F(rng.randint(-5, 5), 16))]
            c["conf"] = self._adaptive_conf(rng)
            c["geom_as"] = "float"
            c.pop("ret_int", None)
            if path == "none":
                c["sub"] = expand_sub(c, n)
                if c["_amargin"] is None or c["_amargin"] <= F(1, 10 ** 7):
                    continue
                if sum(s * s for s in c["sub"]) > (900 if quick else 2500):
                    continue
            c["tag"] = f"conf_adaptive_{path}"
            return self._pub(c)
        return None

    def _conf_case(self, rng, quick):
        r = rng.random()
        if r < 0.30:
            return self._adaptive_case(rng, quick, "none")
        if r < 0.42:
            return self._adaptive_case(rng, quick, rng.choice(["decorator", "decorator_raw", "dataset_grids",
                                                                "custom_grid", "sampler"]))
        if r < 0.62:
            # history on ONE Grid2D (over_sampling=None) and one profile object: the configuration is flipped between
            # the calls; every call follows the values in force when it is made
            a = self._adaptive_case(rng, quick, "none")
            if not a:
                return None
            n = a["mask"]["bits"].count("0")
            b = dict(a)
            if rng.random() < 0.5:
                b.pop("conf")                     # back to the pinned configuration (all ones)
                b["sub"] = [1] * n
            else:
                for _ in range(20):
                    b["conf"] = self._adaptive_conf(rng)
                    b.pop("_amap", None)
                    b["sub"] = expand_sub(b, n)
                    if b["sub"] != a["sub"] and b["_amargin"] > F(1, 10 ** 7):
                        break
                else:
                    return None
            b = self._pub(b)
            cases = rng.choice([[a, b], [b, a], [a, b, a], [b, a, b]])
            if rng.random() < 0.5:
                c2 = self._v_newf(rng, cases[-1])
                if c2:
                    cases[-1] = self._pub(c2)
            return {"tag": "hist_conf_func", "kind": "history", "script": "conf", "cases": [self._pub(c) for c in cases],
                    "opts": {"share": {"mask": True, "os": True, "holder": True, "obj": rng.random() < 0.5},
                             "decoy": None, "steps": [{} for _ in cases]}}
        # the same call made first while other configuration values are in force (not judged), then observed under
        # the pinned configuration on the same objects
        if r < 0.85:
            k = rng.random()
            c = self._w_uniform(rng, routes=("direct", "over_sampling", "grid", "dataset_grids")) if k < 0.4 else \
                self._w_func(rng, quick, self.H_FUNC_PATHS) if k < 0.75 else \
                self._w_iter(rng, quick, path=rng.choice(["sampler", "via_over_sampling", "decorator"]))
            if not c:
                return None
            c["pre_conf"] = {"native_only": True}
            c["tag"] = f"conf_pre_native_{c['kind']}"
            return self._pub(c)
        c = self._w_func(rng, quick, ["none"])
        if not c or not rows_contiguous(c["mask"]):
            return None
        ad = self._adaptive_conf(rng)["adaptive"]
        c["pre_conf"] = {"ssl": ad["ssl"], "rfl": [float(F(v)) for v in ad["rfl"]]}
        c["tag"] = "conf_pre_adaptive_none"
        return self._pub(c)

    # ---- rarely combined options (R5-F) --------------------------------------------------------------------------
    OPT_FR = [("omit", "9999/10000f", None), ("sigdefault", "9999/10000f", None), ("value", "1", "float"),
              ("value", "1", "int"), ("value", "1/2", "float"), ("value", None, None)]
    OPT_REL = [("omit", None, None), ("sigdefault", None, None), ("value", "0", "float"), ("value", "0", "int"),
               ("value", "1/8", "float"), ("value", "1000", "float"), ("value", "1", "int")]
    OPT_STEPS = [("omit", [2, 4, 8, 16], "list"), ("value", [2, 4, 8, 16], "list"), ("value", [2, 4], "tuple"),
                 ("value", [1], "list"), ("value", [2], "list"), ("value", [1, 1], "list"), ("value", [4, 2], "tuple")]

    def _option_table(self, rng, mj, nl):
        """per pixel a level from which the values are constant (agreement for every threshold, also an absolute
        tolerance of exactly 0), multiples of 1/8 before (differences of exactly 1/8 are exact ties of that option)"""
        h, w = mj["h"], mj["w"]
        table = [[None] * (h * w) for _ in range(nl)]
        for i in range(h * w):
            stop = rng.randint(1, nl)
            v = F(rng.randint(8, 64), 8)
            for l in range(nl):
                if l < stop:
                    v = v + F(rng.choice([-8, -4, -1, 1, 1, 2, 8, 16]), 8)
                    if v <= 0:
                        v = F(rng.randint(1, 8), 8)
                table[l][i] = v
        return table

    def _option_cases(self, rng, quick):
        """every pair of values of two constructor options of the iterate scheme (the third one and the entry point
        random), on explicit exact tables"""
        import inspect

        aa = load_autoarray()
        known = {"fractional_accuracy", "relative_accuracy", "sub_steps"}
        for cls in (aa.OverSamplingIterate, aa.OverSamplerIterate):
            names = [p for p in inspect.signature(cls.__init__).parameters if p not in ("self", "mask")]
            if set(names) != known:
                # the constructor gained / lost an option: nothing is crossed blindly, the evidence shows the tag
                yield {"tag": f"opt_signature_changed_{cls.__name__}", "kind": "uniform", "mask": mask_json([[False]]),
                       "geom": ["1", "1", "0", "0"], "sub": 1, "values": ["1"], "route": "direct"}
        combos = []
        for a in self.OPT_FR:
            for b in self.OPT_REL:
                combos.append((a, b, None))
        for a in self.OPT_FR:
            for c in self.OPT_STEPS:
                combos.append((a, None, c))
        for b in self.OPT_REL:
            for c in self.OPT_STEPS:
                combos.append((None, b, c))
        rng.shuffle(combos)
        for a, b, c in combos[:(48 if quick else len(combos))]:
            a = a or rng.choice(self.OPT_FR)
            b = b or rng.choice(self.OPT_REL)
            c = c or rng.choice(self.OPT_STEPS)
            path = rng.choice(["sampler", "via_over_sampling", "decorator"])
            if c[0] == "omit" and path == "sampler":
                path = rng.choice(["via_over_sampling", "decorator"])   # only OverSamplingIterate defaults the schedule
            m, _k = rand_mask(rng, 3, 3, max_unmasked=6)
            mj = mask_json(m)
            steps = list(c[1])
            table = self._option_table(rng, mj, len(steps) + 1)
            geom = rand_geom(rng, exact=True)
            fr = None if a[1] is None else (F(0.9999) if a[1].endswith("f") else F(a[1]))
            yield {"tag": f"opt_{a[0]}_{b[0]}_{c[0]}", "kind": "iterate", "mask": mj, "geom": geom,
                   "table": [qlist(r) for r in table], "fr": None if fr is None else q(fr), "rel": b[1],
                   "steps": steps, "path": path, "exact": all(is_pow2(s) for s in steps),
                   "kw_style": "explicit", "steps_as": c[2], "num_as": a[2] or b[2] or "float",
                   "geom_as": "float", "opt": {"fr": a[0], "rel": b[0], "steps": c[0]}}

    def _dataset_option_case(self, rng, quick):
        """GridsDataset / OverSamplingDataset: the sibling options (non_uniform, pixelization, psf) and the order in
        which the sibling grids are read must not matter for `.uniform`"""
        c = self._w_uniform(rng, routes=("dataset_grids",)) if rng.random() < 0.4 else \
            self._w_func(rng, quick, ["dataset_grids"])
        if not c:
            return None
        touch = rng.sample(["pixelization", "non_uniform", "blurring", "over_sampler_pixelization",
                            "border_relocator"], rng.randint(0, 3))
        c["ds_opts"] = {"non_uniform": rng.choice(["omit", None, 1, 3, "iterate"]),
                        "pixelization": rng.choice(["omit", None, 1, 5]), "psf": rng.random() < 0.5, "touch": touch}
        c["tag"] = f"opt_dataset_{c['kind']}"
        return self._pub(c)

    # ---- always-on sizes beyond 2^15 / 2^16 (R5-E) ----------------------------------------------------------------
    def _always_large(self, rng, quick):
        t = (1 << 16) + rng.randint(1, 4000)
        pattern = rng.choice([[3, 5, 2, 7, 1, 3, 6], [5, 3], [7, 3, 3], [6, 1, 5], [3]])
        spec, n = sub_spec_for_total(t, pattern)
        yield self._large_case(rng, "func", "sub_pixels", 1 << 16, t, mask_recipe_for_unmasked(n, rng), spec,
                               path=rng.choice(["sampler", "decorator", "decorator_raw", "oversampled_grid",
                                                "dataset_grids"]))
        t = (1 << 15) + rng.randint(1, 700)
        yield self._large_case(rng, "uniform", "unmasked", 1 << 15, t, mask_recipe_for_unmasked(t, rng),
                               {"pattern": [1, 1, 1, 1, 2, 1, 1, 1], "tail": []},
                               route=rng.choice(["direct", "over_sampling", "grid", "dataset_grids"]))
        t = (1 << 16) + rng.randint(1, 3000)
        yield self._large_case(rng, "iterate", "frame", 1 << 16, t, mask_recipe_for_frame(t, rng), None,
                               steps=rng.choice([[3, 5], [2, 4, 8], [3, 2, 4]]),
                               path=rng.choice(["sampler", "decorator", "via_over_sampling"]))

    N_R56 = {"quick": {"decade": 150, "own": 36, "layout": 130, "conf": 44, "ds": 16},
             "thorough": {"decade": 1500, "own": 300, "layout": 1300, "conf": 400, "ds": 150}}

    def _r56_stream(self, tier, rng):
        quick = tier == "quick"
        nn = self.N_R56["quick" if quick else "thorough"]
        makers = [(self._decade_case, nn["decade"]), (self._own_case, nn["own"]), (self._layout_case, nn["layout"]),
                  (self._conf_case, nn["conf"]), (self._dataset_option_case, nn["ds"])]
        for make, count in makers:
            for _ in range(count):
                c = make(rng, quick)
                if c:
                    yield c
                    if c["kind"] == "decade" and rng.random() < 0.2:
                        # same-key-different-world neighbour (same mask pattern / sub-sizes / function, other geometry
                        # or magnitude) for the runner's order-of-evaluation stream
                        yield {**self._pub(c["base"]), "tag": "dec_base_" + c["base"]["kind"]}
        yield from self._option_cases(rng, quick)
        yield from self._always_large(rng, quick)

    # -------------------------------------------------------------------------------- bookkeeping
    def nontrivial(self, case, obs):
        if case["kind"] == "large":
            return True
        if case["kind"] == "history":
            return any(self.nontrivial(c, None) for c in case["cases"])
        if case["kind"] in ("decade", "own"):
            return self.nontrivial(case["base"], None)
        n = case["mask"]["bits"].count("0")
        if case["kind"] == "uniform":
            return any(s >= 2 for s in expand_sub(case, n))
        if case["kind"] == "func":
            return any(s >= 2 for s in expand_sub(case, n)) or case["f"][0] != "c"
        return len(case["steps"]) >= 2

    def known_finding(self, case, obs):
        """D15: OverSamplerIterate.array_via_func_from returns the sub-size-1 array when it is all zero.
        Predicate on the input: the function / table is exactly zero at every unmasked pixel centre
        while the value the rule selects is non-zero for some pixel."""
        if case["kind"] == "history":
            # histories are generated outside the D15 class; a history that contains a D15 step is D15
            for c in self._subs(case):
                if self.known_finding(c, None):
                    return "D15"
            return None
        if case["kind"] in ("decade", "own"):
            return self.known_finding(self._inner(case), None)   # being exactly zero does not depend on the decade
        if case["kind"] != "iterate":
            return None
        a = self._analysis(case)
        if a["all_zero_level0"] and any(e != 0 for e in a["expected"]):
            return "D15"
        return None

    def shrink(self, case):
        """candidates of `_shrink`, never leaving the class of the original failure: a failing case
        outside the known-finding class D15 must not be minimised INTO that class (the minimiser only
        asks whether the oracle still fails, and a D15 failure would then hide the real one)."""
        try:
            orig = self.known_finding(case, None)
        except Exception:
            orig = None
        for c2 in self._shrink(case):
            if orig is None:
                try:
                    if self.known_finding(c2, None) is not None:
                        continue
                except Exception:
                    continue
            yield c2

    def _shrink(self, case):
        """drop one unmasked pixel (with its sub-size entry, its block of values, its grid row), lower a
        sub-size, shorten the schedule."""
        if case["kind"] == "large":
            yield from self._shrink_large(case)
            return
        if case["kind"] == "history":
            yield from self._shrink_history(case)
            return
        if case["kind"] in ("decade", "own"):
            base = self._pub(case)
            if case["kind"] == "decade":
                # one transformation less, then a smaller base world under the same transformation
                for key, zero in (("shift", None), ("kg", 0), ("kf", 0)):
                    if case.get(key) and sum(1 for k in ("shift", "kg", "kf") if case.get(k)) > 1:
                        yield {**base, key: zero}
            else:
                if case.get("cb_edit"):
                    yield {**base, "cb_edit": None}
                if case["base"].get("kind") == "decade":
                    yield {**base, "base": self._pub(case["base"]["base"])}
            for b2 in self._shrink(self._pub(case["base"])):
                yield {**base, "base": self._pub(b2)}
            return
        mj = case["mask"]
        bits = mj["bits"]
        base = {k: v for k, v in case.items() if not k.startswith("_") and k != "corpus_file"}
        un = [i for i, c in enumerate(bits) if c == "0"]
        n = len(un)
        if n > 1:
            for k, i in enumerate(un):
                c2 = dict(base)
                c2["mask"] = {**mj, "bits": bits[:i] + "1" + bits[i + 1:]}
                sub = case.get("sub")
                if isinstance(sub, list):
                    c2["sub"] = sub[:k] + sub[k + 1:]
                if case["kind"] == "uniform":
                    full = expand_sub(case, n)
                    off = sum(s * s for s in full[:k])
                    c2["values"] = case["values"][:off] + case["values"][off + full[k] ** 2:]
                if "grid" in case:
                    c2["grid"] = case["grid"][:k] + case["grid"][k + 1:]
                yield c2
        sub = case.get("sub")
        if isinstance(sub, list) and case["kind"] != "uniform":
            for k, sk in enumerate(sub):
                if sk > 1:
                    c2 = dict(base)
                    c2["sub"] = sub[:k] + [1] + sub[k + 1:]
                    yield c2
        if case["kind"] == "iterate" and "table" not in case and len(case["steps"]) > 1:
            for i in range(len(case["steps"])):
                c2 = dict(base)
                c2["steps"] = case["steps"][:i] + case["steps"][i + 1:]
                yield c2

    def theorems_for(self, case):
        if case["kind"] == "large":
            case = {"kind": case["what"]}
        if case["kind"] == "history":
            return sorted({t for c in case["cases"] for t in self.theorems_for(c)})
        if case["kind"] in ("decade", "own"):
            return self.theorems_for(case["base"])
        if case["kind"] == "uniform":
            return ["C09.a_grid_eq_partition_centres", "C09.b_slimForSubSlim", "C09.c_binned_is_mean",
                    "C09.c_areas_sum"]
        if case["kind"] == "func":
            return ["C09.c_via_func_is_cell_mean", "C09.d_decorated_from_mask", "C09.d_decorated_dispatch"]
        return ["C09.e_iterate_first_agreeing_level", "C09.e_table_loop", "C09.e_early_return",
                "C09.d_decorated_iterate"]

    def sample_view(self, case):
        return {k: v for k, v in case.items() if not k.startswith("_")}


CHECK = C09()
