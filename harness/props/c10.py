"""C10 — blurring, edge and border pixel sets match their definitions for every mask."""
from __future__ import annotations

from fractions import Fraction

import numpy as np

import gen
from common import PropertyCheck, Skip, load_autoarray, mask_json, mask_from_json, q

POW2_SCALES = [Fraction(1, 4), Fraction(1, 2), Fraction(1), Fraction(2)]
ALL_SCALES = POW2_SCALES + [Fraction(3, 4), Fraction(3, 2), Fraction(3)]
ODD = (1, 3, 5, 7)


def _bits(mask_2d) -> str:
    return "".join("1" if b else "0" for b in np.asarray(mask_2d, dtype=bool).ravel())


def _grid(g):
    a = np.asarray(g.array if hasattr(g, "array") else g, dtype=float).reshape(-1, 2)
    return [[q(v[0]), q(v[1])] for v in a]


def _err_kind(e) -> str:
    msg = str(e)
    if "odd" in msg:
        return "even_kernel"
    if "extends beyond" in msg:
        return "footprint_outside"
    return type(e).__name__


class C10(PropertyCheck):
    pid = "C10"
    title = "blurring / edge / border sets"
    rtol = Fraction(1, 10 ** 9)   # only the coordinate grids are real-valued; indices compare exactly
    nontrivial_rule = (
        "a case is non-trivial when the mask has both masked and unmasked pixels; distinct = distinct "
        "(kind, mask, kernel shape, geometry)"
    )
    exhaustive_note = {
        "quick": "edge/border index lists: every mask (incl. the fully masked one) for every shape with H*W <= 12 "
                 "(util functions); all public views (indexes, masks, grids): every such mask with H*W <= 9; "
                 "blurring masks: every mask with H*W <= 9 x kernels {1,3}x{1,3}",
        "thorough": "edge/border index lists: every mask (incl. the fully masked one) for every shape with H*W <= 15; "
                    "all public views: every such mask with H*W <= 12; blurring masks: every mask with "
                    "H*W <= 12 x kernels {1,3,5}x{1,3,5}",
    }
    modelled_functions = [
        "autoarray/mask/mask_2d_util.py:blurring_mask_2d_from",
        "autoarray/mask/mask_2d_util.py:check_if_edge_pixel",
        "autoarray/mask/mask_2d_util.py:total_edge_pixels_from",
        "autoarray/mask/mask_2d_util.py:edge_1d_indexes_from",
        "autoarray/mask/mask_2d_util.py:check_if_border_pixel",
        "autoarray/mask/mask_2d_util.py:total_border_pixels_from",
        "autoarray/mask/mask_2d_util.py:border_slim_indexes_from",
        "autoarray/mask/mask_2d_util.py:native_index_for_slim_index_2d_from",
        "autoarray/mask/mask_2d_util.py:total_pixels_2d_from",
        "autoarray/mask/derive/mask_2d.py:DeriveMask2D.blurring_from",
        "autoarray/mask/derive/mask_2d.py:DeriveMask2D.edge",
        "autoarray/mask/derive/mask_2d.py:DeriveMask2D.border",
        "autoarray/mask/derive/indexes_2d.py:DeriveIndexes2D.edge_slim",
        "autoarray/mask/derive/indexes_2d.py:DeriveIndexes2D.edge_native",
        "autoarray/mask/derive/indexes_2d.py:DeriveIndexes2D.border_slim",
        "autoarray/mask/derive/indexes_2d.py:DeriveIndexes2D.border_native",
        "autoarray/mask/derive/indexes_2d.py:DeriveIndexes2D.native_for_slim",
        "autoarray/mask/derive/grid_2d.py:DeriveGrid2D.unmasked",
        "autoarray/mask/derive/grid_2d.py:DeriveGrid2D.edge",
        "autoarray/mask/derive/grid_2d.py:DeriveGrid2D.border",
        "autoarray/structures/grids/grid_2d_util.py:grid_2d_slim_via_mask_from",
        "autoarray/geometry/geometry_util.py:central_pixel_coordinates_2d_from",
        "autoarray/geometry/geometry_util.py:central_scaled_coordinate_2d_from",
        "autoarray/structures/grids/uniform_2d.py:Grid2D.blurring_grid_from",
        "autoarray/structures/grids/uniform_2d.py:Grid2D.from_mask",
    ]
    trusted_extra = [
        "numpy fancy indexing `native_for_slim[edge_slim]`, `mask[rows, cols] = False` and the Mask2D / Grid2D "
        "constructors in the derive_* views are covered by correspondence only",
        "pixel-centre coordinates of the edge/border/blurring grids are compared with the exact rational formula "
        "to 1e-9 (float rounding of origin/scale not modelled)",
    ]
    assumptions = [
        "tree carries repair D6 (fixes/D6-edge-pixels-outer-ring.patch): whole-frame edge scan, neighbours beyond "
        "the array count as masked",
    ]

    # ------------------------------------------------------------------ generation
    MASK_FORMS = ["bool_nd", "bool_nd", "bool_list", "int_list", "int_nd", "invert"]

    def _forms(self, rng):
        """how the (same) inputs are handed to the public API: container / dtype / constructor variants"""
        return {"mask_form": rng.choice(self.MASK_FORMS),
                "scales_form": rng.choice(["tuple", "tuple", "scalar", "int", "list"]),
                "kshape_form": rng.choice(["tuple", "list", "np_int"])}

    def _geom(self, rng, exact=False):
        sc = POW2_SCALES if exact else ALL_SCALES
        return ([q(rng.choice(sc)), q(rng.choice(sc))],
                [q(gen.dyadic(rng, -4, 4, 2)), q(gen.dyadic(rng, -4, 4, 2))])

    def generate(self, tier, rng):
        quick = tier == "quick"
        util_cells = 12 if quick else 15
        view_cells = 9 if quick else 12
        blur_cells = 9 if quick else 12
        # 1. edge/border index lists through the util functions, exhaustive
        for (h, w) in gen.shapes_upto(util_cells):
            for m in gen.all_masks(h, w, min_unmasked=0):
                yield {"tag": "util_exhaustive", "kind": "util", "mask": mask_json(m),
                       "mask_form": "int_nd" if (h + w) % 5 == 0 else "bool_nd"}
        # 2. every public view, exhaustive masks, anisotropic geometry off the origin
        for (h, w) in gen.shapes_upto(view_cells):
            for m in gen.all_masks(h, w, min_unmasked=0):
                sc, og = self._geom(rng)
                yield {"tag": "views_exhaustive", "kind": "sets", "mask": mask_json(m), "scales": sc,
                       "origin": og, **self._forms(rng)}
        # 3. blurring masks: exhaustive masks × small kernels (most hit the exception branch, many do not)
        ks = (1, 3) if quick else (1, 3, 5)
        for (h, w) in gen.shapes_upto(blur_cells):
            for m in gen.all_masks(h, w, min_unmasked=0):
                for kh in ks:
                    for kw in ks:
                        if kh > 2 * h or kw > 2 * w:
                            continue
                        yield {"tag": "blur_exhaustive", "kind": "blurring", "mask": mask_json(m),
                               "kh": kh, "kw": kw, "grid": False}
        # 3b. degenerate masks: no unmasked pixel at all (a result is required: nothing to blur, empty sets),
        #     exactly one, everything unmasked — with kernels up to (7,7), larger than the frame included
        for _ in range(40 if quick else 300):
            h, w = rng.randint(1, 9), rng.randint(1, 9)
            which = rng.choice(["none", "none", "one", "all"])
            m = gen.full(h, w, which != "all")
            if which == "one":
                m[rng.randrange(h)][rng.randrange(w)] = False
            sc, og = self._geom(rng)
            yield {"tag": f"degenerate_{which}_sets", "kind": "sets", "mask": mask_json(m), "scales": sc,
                   "origin": og, **self._forms(rng)}
            kh, kw = rng.choice(ODD), rng.choice(ODD)
            yield {"tag": f"degenerate_{which}_blur", "kind": "blurring", "mask": mask_json(m), "kh": kh,
                   "kw": kw, "grid": True, "scales": sc, "origin": og, **self._forms(rng)}
        # 4. structured random larger masks: every view + blurring with non-square kernels
        n = 150 if quick else 1500
        for _ in range(n):
            h, w = rng.randint(3, 11), rng.randint(3, 11)
            m, kind = gen.random_mask(rng, h, w)
            sc, og = self._geom(rng)
            yield {"tag": f"views_random_{kind}", "kind": "sets", "mask": mask_json(m), "scales": sc,
                   "origin": og, **self._forms(rng)}
        for _ in range(n):
            kh, kw = rng.choice(ODD), rng.choice(ODD)
            h, w = rng.randint(max(3, kh), 12), rng.randint(max(3, kw), 12)
            r = rng.random()
            if r < 0.65:
                margin_y, margin_x = kh // 2, kw // 2       # footprint exactly fits: boundary of the guard
            elif r < 0.85:
                margin_y, margin_x = max(0, kh // 2 - 1), kw // 2   # one row short on y only
            else:
                margin_y, margin_x = kh // 2, max(0, kw // 2 - 1)   # one column short on x only
            m = self._mask_with_margins(rng, h, w, margin_y, margin_x)
            sc, og = self._geom(rng)
            yield {"tag": f"blur_random_{kh}x{kw}", "kind": "blurring", "mask": mask_json(m), "kh": kh,
                   "kw": kw, "grid": True, "scales": sc, "origin": og, **self._forms(rng)}
        # 5. even kernels are rejected by the public entry point
        for _ in range(10 if quick else 60):
            h, w = rng.randint(5, 9), rng.randint(5, 9)
            m, _ = gen.random_mask(rng, h, w, margin=2)
            kh, kw = rng.choice([(2, 3), (3, 2), (4, 4), (2, 1), (1, 4)])
            yield {"tag": "blur_even", "kind": "blurring", "mask": mask_json(m), "kh": kh, "kw": kw,
                   "grid": False}

    @staticmethod
    def _mask_with_margins(rng, h, w, my, mx):
        ih, iw = h - 2 * my, w - 2 * mx
        if ih <= 0 or iw <= 0:
            m = gen.full(h, w)
            m[h // 2][w // 2] = False
            return m
        inner, _ = gen.random_mask(rng, ih, iw)
        # make the inner mask touch its own frame so the footprint guard is exercised at equality
        if rng.random() < 0.7:
            side = rng.randrange(4)
            if side == 0:
                inner[0][rng.randrange(iw)] = False
            elif side == 1:
                inner[ih - 1][rng.randrange(iw)] = False
            elif side == 2:
                inner[rng.randrange(ih)][0] = False
            else:
                inner[rng.randrange(ih)][iw - 1] = False
        m = gen.full(h, w)
        for y in range(ih):
            for x in range(iw):
                m[y + my][x + mx] = inner[y][x]
        return m

    # ------------------------------------------------------------------ implementation
    def run_impl(self, case):
        aa = load_autoarray()
        from autoarray import exc
        from autoarray.mask import mask_2d_util

        m = mask_from_json(case["mask"])
        kind = case["kind"]
        if kind == "util":
            if case.get("mask_form") == "int_nd":
                m = m.astype(np.int64)
            es = mask_2d_util.edge_1d_indexes_from(mask_2d=m)
            bs = mask_2d_util.border_slim_indexes_from(mask_2d=m)
            return {"edge_slim": [int(v) for v in es], "border_slim": [int(v) for v in bs],
                    "total_edge": int(mask_2d_util.total_edge_pixels_from(mask_2d=m))}
        sc = tuple(float(Fraction(s)) for s in case.get("scales", ["1", "1"]))
        og = tuple(float(Fraction(s)) for s in case.get("origin", ["0", "0"]))
        sform = case.get("scales_form", "tuple")
        if sform == "scalar" and sc[0] == sc[1]:
            sc_in = sc[0]
        elif sform == "int" and all(float(v).is_integer() for v in sc):
            sc_in = (int(sc[0]), int(sc[1]))   # a bare int scalar is outside the documented PixelScales type
        elif sform == "list":
            sc_in = [sc[0], sc[1]]
        else:
            sc_in = sc
        og_in = tuple(int(v) for v in og) if (sform == "int" and all(float(v).is_integer() for v in og)) else og
        mform = case.get("mask_form", "bool_nd")
        kw_mask = {}
        if mform == "bool_list":
            m_in = [[bool(b) for b in r] for r in m]
        elif mform == "int_list":
            m_in = [[int(b) for b in r] for r in m]
        elif mform == "int_nd":
            m_in = m.astype(np.int64)
        elif mform == "invert":
            m_in, kw_mask = np.invert(m), {"invert": True}
        else:
            m_in = m
        mask = aa.Mask2D(mask=m_in, pixel_scales=sc_in, origin=og_in, **kw_mask)
        if kind == "sets":
            di, dm, dg = mask.derive_indexes, mask.derive_mask, mask.derive_grid
            return {
                "edge_slim": [int(v) for v in di.edge_slim],
                "border_slim": [int(v) for v in di.border_slim],
                "edge_native": [[int(a), int(b)] for a, b in np.asarray(di.edge_native).reshape(-1, 2)],
                "border_native": [[int(a), int(b)] for a, b in np.asarray(di.border_native).reshape(-1, 2)],
                "edge_mask": _bits(dm.edge),
                "border_mask": _bits(dm.border),
                "edge_grid": _grid(dg.edge),
                "border_grid": _grid(dg.border),
            }
        kshape = (case["kh"], case["kw"])
        if case.get("kshape_form") == "list":
            kshape = [case["kh"], case["kw"]]
        elif case.get("kshape_form") == "np_int":
            kshape = (np.int64(case["kh"]), np.int64(case["kw"]))
        try:
            bm = mask.derive_mask.blurring_from(kernel_shape_native=kshape)
        except exc.MaskException as e:
            return {"err": _err_kind(e)}
        obs = {"blurring_mask": _bits(bm),
               "geometry_kept": [q(v) for v in (*bm.pixel_scales, *bm.origin)] == [*case.get("scales", ["1", "1"]), *case.get("origin", ["0", "0"])]}
        if case.get("grid"):
            obs["blurring_grid"] = _grid(aa.Grid2D.blurring_grid_from(mask=mask, kernel_shape_native=kshape))
        return obs

    # ------------------------------------------------------------------ model
    def model_requests(self, case, impl_obs):
        kind = case["kind"]
        if kind in ("util", "sets"):
            return [{"op": "c10.sets", "mask": case["mask"], "scales": case.get("scales", ["1", "1"]),
                     "origin": case.get("origin", ["0", "0"])}]
        req = {"op": "c10.blurring", "mask": case["mask"], "kh": case["kh"], "kw": case["kw"]}
        if case.get("grid"):
            req.update(grid=True, scales=case["scales"], origin=case["origin"])
        return [req]

    def model_obs(self, case, responses):
        r = responses[0]
        if "err" in r:
            return {"err": r["err"]}
        o = r["ok"]
        kind = case["kind"]
        if kind == "util":
            return {k: o[k] for k in ("edge_slim", "border_slim", "total_edge")}
        if kind == "sets":
            return {k: v for k, v in o.items() if k != "total_edge"}
        out = {"blurring_mask": o["bits"], "geometry_kept": True}
        if case.get("grid"):
            out["blurring_grid"] = o["grid"]
        return out

    # ------------------------------------------------------------------ oracle (independent of the model)
    @staticmethod
    def _centre(h, w, sc, og, p):
        sy, sx = Fraction(sc[0]), Fraction(sc[1])
        oy, ox = Fraction(og[0]), Fraction(og[1])
        return (oy + (Fraction(h - 1, 2) - p[0]) * sy, ox + (p[1] - Fraction(w - 1, 2)) * sx)

    @staticmethod
    def _grid_close(got, exp):
        if len(got) != len(exp):
            return False
        for g, e in zip(got, exp):
            for a, b in zip(g, e):
                if abs(Fraction(a) - b) > Fraction(1, 10 ** 9) * max(1, abs(b)):
                    return False
        return True

    # Work-around for the runner being quadratic in the number of failing cases (it recomputes a set of
    # case keys per disagreement): once FAIL_CAP generated cases have failed in a run, further failures
    # of *generated* cases are not recorded (the run is a VIOLATION already).  Shrink candidates
    # (marked "_s") and corpus cases are always evaluated in full.
    FAIL_CAP = 40
    _fails = 0
    _disagreements = 0

    def oracle(self, case, obs):
        ok, detail = self._oracle(case, obs)
        if not ok and "_s" not in case and "corpus_file" not in case:
            if self._fails >= self.FAIL_CAP:
                return True, ""
            self._fails += 1
        return ok, detail

    def compare(self, case, impl_obs, model_obs, cmp):
        d = cmp.diff(impl_obs, model_obs)
        if d and "corpus_file" not in case:
            if self._disagreements >= self.FAIL_CAP:
                return None
            self._disagreements += 1
        return d

    def sample_view(self, case):
        return {k: v for k, v in case.items() if not k.startswith("_")}

    def _oracle(self, case, obs):
        m = mask_from_json(case["mask"])
        h, w = m.shape
        kind = case["kind"]
        unm = [(y, x) for y in range(h) for x in range(w) if not m[y, x]]
        if kind == "blurring":
            kh, kw = case["kh"], case["kw"]
            if kh % 2 == 0 or kw % 2 == 0:
                if obs.get("err") != "even_kernel":
                    return False, f"even kernel shape {(kh, kw)} not rejected: {obs}"
                return True, ""
            hy, hx = kh // 2, kw // 2
            inside = all(hy <= y and y + hy < h and hx <= x and x + hx < w for y, x in unm)
            if not inside:
                if obs.get("err") != "footprint_outside":
                    return False, "a kernel footprint leaves the array but no error was raised: " + str(obs)[:200]
                return True, ""
            if "err" in obs:
                return False, f"every footprint is inside the array but the call raised {obs}"
            exp = np.ones((h, w), dtype=bool)
            for (y, x) in unm:
                for yy in range(y - hy, y + hy + 1):
                    for xx in range(x - hx, x + hx + 1):
                        if m[yy, xx]:
                            exp[yy, xx] = False
            if obs["blurring_mask"] != _bits(exp):
                return False, "blurring mask is not {masked pixels inside the footprint of an unmasked pixel}"
            if not obs.get("geometry_kept", True):
                return False, "blurring mask does not keep pixel scales / origin"
            if "blurring_grid" in obs:
                pix = [(y, x) for y in range(h) for x in range(w) if not exp[y, x]]
                expg = [self._centre(h, w, case["scales"], case["origin"], p) for p in pix]
                if not self._grid_close(obs["blurring_grid"], expg):
                    return False, "blurring grid is not the pixel centres of the blurring mask in row-major order"
            return True, ""
        if isinstance(obs, dict) and "err" in obs:
            return False, f"implementation raised {obs}"
        n = len(unm)

        def nb(p):
            return [(p[0] + dy, p[1] + dx) for dy in (-1, 0, 1) for dx in (-1, 0, 1) if (dy, dx) != (0, 0)]

        def inarr(p):
            return 0 <= p[0] < h and 0 <= p[1] < w

        es, bs = obs["edge_slim"], obs["border_slim"]
        for name, lst in (("edge_slim", es), ("border_slim", bs)):
            if any(not (0 <= k < n) for k in lst):
                return False, f"{name} holds an index outside the {n} unmasked pixels: {lst}"
            if any(a >= b for a, b in zip(lst, lst[1:])):
                return False, f"{name} is not strictly ascending: {lst}"
        E = [unm[k] for k in es]
        Eset = set(E)
        for p in unm:
            ns = nb(p)
            if any(inarr(r) and m[r] for r in ns) and p not in Eset:
                return False, f"unmasked pixel {p} has a masked in-array neighbour but is not in the edge set {E}"
            if all(inarr(r) and not m[r] for r in ns) and p in Eset:
                return False, f"pixel {p} has all eight neighbours present and unmasked but is in the edge set"

        def clear_walk(p):
            y, x = p
            return (all(m[r, x] for r in range(0, y)) or all(m[r, x] for r in range(y + 1, h))
                    or all(m[y, c] for c in range(0, x)) or all(m[y, c] for c in range(x + 1, w)))

        expB = [p for p in E if clear_walk(p)]
        B = [unm[k] for k in bs]
        if B != expB:
            return False, f"border set {B} != edge pixels with an all-masked walk to the array boundary {expB}"
        if "total_edge" in obs and obs["total_edge"] != len(es):
            return False, "total_edge_pixels_from disagrees with the number of edge indices"
        if kind == "sets":
            for name, S in (("edge", E), ("border", B)):
                if obs[f"{name}_native"] != [list(p) for p in S]:
                    return False, f"{name}_native does not denote the pixels of {name}_slim: {obs[f'{name}_native']} vs {S}"
                expm = np.ones((h, w), dtype=bool)
                for p in S:
                    expm[p] = False
                if obs[f"{name}_mask"] != _bits(expm):
                    return False, f"{name} mask is not unmasked exactly on the {name} pixels"
                expg = [self._centre(h, w, case["scales"], case["origin"], p) for p in S]
                if not self._grid_close(obs[f"{name}_grid"], expg):
                    return False, f"{name} grid is not the pixel centres of the {name} pixels in slim order"
        return True, ""

    def nontrivial(self, case, obs):
        b = case["mask"]["bits"]
        return "0" in b and "1" in b

    _shrink_rounds = 0
    SHRINK_ROUNDS_MAX = 150   # per run (the runner minimises every recorded failing case)

    def shrink(self, case):
        self._shrink_rounds += 1
        if self._shrink_rounds > self.SHRINK_ROUNDS_MAX:
            return
        for c in self._shrink(case):
            c["_s"] = 1
            c.pop("corpus_file", None)
            yield c

    def _shrink(self, case):
        mj = case["mask"]
        bits = mj["bits"]
        h, w = mj["h"], mj["w"]
        rows = [bits[i * w:(i + 1) * w] for i in range(h)]
        # drop a row / column
        if h > 1:
            for i in range(h):
                r2 = rows[:i] + rows[i + 1:]
                if "0" in "".join(r2):
                    yield {**case, "mask": {"h": h - 1, "w": w, "bits": "".join(r2)}}
        if w > 1:
            for j in range(w):
                r2 = [r[:j] + r[j + 1:] for r in rows]
                if "0" in "".join(r2):
                    yield {**case, "mask": {"h": h, "w": w - 1, "bits": "".join(r2)}}
        for i, c in enumerate(bits):
            if c == "0" and bits.count("0") > 1:
                yield {**case, "mask": {**mj, "bits": bits[:i] + "1" + bits[i + 1:]}}
        if case.get("scales") not in (None, ["1", "1"]) or case.get("origin") not in (None, ["0", "0"]):
            yield {**case, "scales": ["1", "1"], "origin": ["0", "0"]}

    def theorems_for(self, case):
        if case["kind"] == "blurring":
            return ["C10.blurring_defined_iff", "C10.blurring_unmasks_exactly", "C10.blurring_even_rejected"]
        if case["kind"] == "util":
            return ["C10.edge_slim_spec", "C10.edge_contains_and_excludes", "C10.border_iff"]
        return ["C10.edge_slim_spec", "C10.edge_contains_and_excludes", "C10.border_iff",
                "C10.native_views", "C10.mask_views", "C10.grid_views"]


CHECK = C10()
