"""C10 — blurring, edge and border pixel sets match their definitions for every mask."""
from __future__ import annotations

from fractions import Fraction

import numpy as np

import gen
from common import PropertyCheck, Skip, load_autoarray, mask_json, mask_from_json, q

POW2_SCALES = [Fraction(1, 4), Fraction(1, 2), Fraction(1), Fraction(2)]
ALL_SCALES = POW2_SCALES + [Fraction(3, 4), Fraction(3, 2), Fraction(3)]
ODD = (1, 3, 5, 7)


def _bits(mask_2d) -> str:
    return "".join("1" if b else "0" for b in np.asarray(mask_2d, dtype=bool).ravel())


def _grid(g):
    a = np.asarray(g.array if hasattr(g, "array") else g, dtype=float).reshape(-1, 2)
    return [[q(v[0]), q(v[1])] for v in a]


def _err_kind(e) -> str:
    msg = str(e)
    if "odd" in msg:
        return "even_kernel"
    if "extends beyond" in msg:
        return "footprint_outside"
    return type(e).__name__


def _bits_fast(mask_2d) -> str:
    """same string as `_bits`, built without a Python-level loop (large frames)"""
    a = np.asarray(mask_2d, dtype=bool).ravel()
    return (a.astype(np.uint8) + 48).tobytes().decode("ascii")


def _bits_arr(bits: str, h: int, w: int):
    a = np.frombuffer(bits.encode("ascii"), dtype=np.uint8) == 49
    return a.reshape(h, w)


def _grid_f(g):
    """(n,2) list of plain floats (lossless in JSON; `Cmp` and the oracles convert exactly)"""
    a = np.asarray(g.array if hasattr(g, "array") else g, dtype=float).reshape(-1, 2)
    return a.tolist()


# ---------------------------------------------------------------------------------------------------
# Round 4 (L1): masks described by a short *spec* instead of a bit string, so that frames of 10^4..10^5
# pixels stay replayable (the replay file stores the spec) and shrinkable (window, op list).
#   spec = {"H":…, "W":…, "ops":[…], "win":[y0,y1,x0,x1]?}   (all-masked canvas, ops in order, then the window)
#   ["rect",y0,y1,x0,x1,val]  ["px",y,x,val]  ["fill",n,y0,y1,x0,x1] (first n cells, row-major, unmasked)
#   ["stripes",y0,y1,x0,x1,step] (every step-th row unmasked)  ["bern",seed,num,den,y0,y1,x0,x1] (hash noise,
#   unmasks)  ["diag",y0,x0,n,dx] (diagonal chain of n unmasked pixels)            val: 0 = unmasked, 1 = masked
# ---------------------------------------------------------------------------------------------------
def _hash_bits(H, W, seed, num, den):
    ys, xs = np.mgrid[0:H, 0:W]
    v = (ys.astype(np.uint64) * np.uint64(73856093)) ^ (xs.astype(np.uint64) * np.uint64(19349663)) \
        ^ np.uint64((seed * 83492791 + 12345) % (1 << 62))
    v = (v * np.uint64(2654435761)) >> np.uint64(7)
    return (v % np.uint64(den)) < np.uint64(num)


def spec_mask(spec):
    H, W = int(spec["H"]), int(spec["W"])
    m = np.ones((H, W), dtype=bool)

    def c(v, hi):
        return max(0, min(int(v), hi))

    for op in spec.get("ops", []):
        k = op[0]
        if k == "rect":
            _, y0, y1, x0, x1, val = op
            m[c(y0, H):c(y1, H), c(x0, W):c(x1, W)] = bool(val)
        elif k == "px":
            _, y, x, val = op
            if 0 <= y < H and 0 <= x < W:
                m[y, x] = bool(val)
        elif k == "fill":
            _, n, y0, y1, x0, x1 = op
            y0, y1, x0, x1 = c(y0, H), c(y1, H), c(x0, W), c(x1, W)
            rw = x1 - x0
            if rw > 0 and y1 > y0:
                n = max(0, min(int(n), rw * (y1 - y0)))
                full_rows, rest = divmod(n, rw)
                m[y0:y0 + full_rows, x0:x1] = False
                if rest:
                    m[y0 + full_rows, x0:x0 + rest] = False
        elif k == "stripes":
            _, y0, y1, x0, x1, step = op
            m[c(y0, H):c(y1, H):max(1, int(step)), c(x0, W):c(x1, W)] = False
        elif k == "bern":
            _, seed, num, den, y0, y1, x0, x1 = op
            y0, y1, x0, x1 = c(y0, H), c(y1, H), c(x0, W), c(x1, W)
            hb = _hash_bits(H, W, seed, num, den)[y0:y1, x0:x1]
            m[y0:y1, x0:x1] &= ~hb
        elif k == "diag":
            _, y0, x0, n, dx = op
            for i in range(int(n)):
                y, x = y0 + i, x0 + dx * i
                if 0 <= y < H and 0 <= x < W:
                    m[y, x] = False
    y0, y1, x0, x1 = spec.get("win", [0, H, 0, W])
    return m[c(y0, H):c(y1, H), c(x0, W):c(x1, W)].copy()


def case_mask(case):
    """the boolean mask (True = masked) a case starts from"""
    if "spec" in case:
        return spec_mask(case["spec"])
    return mask_from_json(case["mask"])


def _np_mask_json(m):
    m = np.asarray(m, dtype=bool)
    return {"h": int(m.shape[0]), "w": int(m.shape[1]) if m.ndim == 2 else 0, "bits": _bits_fast(m)}


def _factor_near(n, direction):
    """(h, w), h < w, 3 <= h, w <= 8 h, with h*w the closest product to n in `direction`
    (-1: <= n, 0: == n or None, +1: >= n)"""
    def fac(k):
        if k < 12:
            return None
        r = int(k ** 0.5)
        best = None
        for h in range(r, 2, -1):
            if k % h == 0:
                w = k // h
                if w == h:
                    continue
                if w > 8 * h:
                    break
                best = (h, w)
                break
        return best

    if direction == 0:
        return fac(n)
    k = n
    for _ in range(400):
        f = fac(k)
        if f:
            return f
        k += direction
        if k < 12:
            return None
    return None


def _odd_factor_near(n, direction):
    """odd kernel shape (kh, kw), kh < kw where possible, with kh*kw closest to n in `direction`"""
    k = n
    for _ in range(200):
        if k >= 1 and k % 2 == 1:
            r = int(k ** 0.5)
            for a in range(r, 0, -1):
                if a % 2 == 1 and k % a == 0:
                    b = k // a
                    if b <= 6 * a + 4:
                        return (a, b)
                    break
        k += direction if direction else 1
        if direction == 0:
            return None
        if k < 1:
            return None
    return None


SET_KEYS = ["edge_slim", "border_slim", "edge_native", "border_native", "edge_mask", "border_mask",
            "edge_grid", "border_grid"]
MASK_DECOYS = ["pixels_in_mask", "is_all_true", "is_all_false", "shape_slim", "shape_native",
               "shape_native_masked_pixels", "mask_centre", "zoom_centre", "zoom_offset_pixels",
               "zoom_offset_scaled", "zoom_region", "zoom_shape_native", "zoom_mask_unmasked", "is_circular",
               "circular_radius", "geometry", "native", "pixel_scale", "dimensions"]
DI_DECOYS = ["unmasked_slim", "masked_slim", "native_for_slim"]
DM_DECOYS = ["all_false", "edge_buffed"]
DG_DECOYS = ["all_false", "unmasked"]
PERTURB = Fraction(1, 1 << 18)      # ~3.8e-6 relative: inside np.allclose's default, far outside 1e-9
TINY = Fraction(1, 1 << 27)         # ~7.5e-9 absolute: inside np.allclose's atol, outside 1e-9 near the origin


class _Hist:
    """Interpreter of a typed history (Round 4, L2).  With impl=False it only evolves the SHADOW state (plain
    numpy arrays that never share memory with anything the library holds) and returns, per observing step, what a
    FRESHLY BUILT object in that state must give; with impl=True it also drives the real, REUSED objects and
    returns what they gave.  Every mutation is applied with the same numpy semantics on both sides
    (`a[key] = v` in place, `np.where(key, v, a)` for boolean-array keys as `AbstractNDArray.__setitem__` does),
    including whether it raises."""

    def __init__(self, case, impl):
        self.case = case
        self.impl = impl
        self.worlds = {}
        self.cur = "A"
        self.entries = []
        self.keep = []          # Round 5 (R5-B): every array the API handed out since the last scribble
        self.cfg_saved = {}     # Round 5 (R5-D): config values changed by `cfg` steps (restored by `run`)
        if impl:
            self.aa = load_autoarray()
        self._new_world("A", case_mask(case), case.get("scales", ["1", "1"]), case.get("origin", ["0", "0"]))

    # -- worlds
    def _new_world(self, name, sh, sc, og, obj=None, arr=None):
        w = {"sh": sh, "sc": list(sc), "og": list(og), "target": name}
        if self.impl:
            if obj is None:
                src = np.array(sh, dtype=bool)
                obj = self.aa.Mask2D(mask=src, pixel_scales=tuple(float(Fraction(v)) for v in sc),
                                     origin=tuple(float(Fraction(v)) for v in og))
                w["src"] = src      # the caller's array the constructor accepted (scribbled over by `scribble`)
            w["obj"] = obj
            w["held"] = [obj.derive_indexes, obj.derive_mask, obj.derive_grid]
            w["arr"] = np.array(sh, dtype=bool) if arr is None else arr
            w["klist"] = [1, 1]
        self.worlds[name] = w
        self.cur = name
        return w

    def _target(self, held):
        w = self.worlds[self.cur]
        return self.worlds.get(w["target"], w) if held else w

    # -- one step
    def apply(self, st):
        op = st.get("op")
        fn = getattr(self, "_op_" + str(op), None)
        if fn is not None and self.cur in self.worlds:
            fn(st)

    def run(self):
        try:
            for st in self.case.get("steps", []):
                self.apply(st)
        finally:
            self.keep = []
            self._cfg_restore()
        return self.entries

    # -- Round 5 (R5-B): ownership of returned / accepted arrays
    def _stash(self, x):
        if self.impl and x is not None:
            self.keep.append(x)
        return x

    def _op_scribble(self, st):
        """write in place over every array the API returned since the last scribble and over the arrays it
        accepted (constructor input, copied util inputs, the kernel-shape list).  The caller owns all of them, so
        nothing a later call returns may change; the shadow state is untouched."""
        if not self.impl:
            return
        mode = int(st.get("mode", 0))
        for x in self.keep:
            a = getattr(x, "_array", x)
            if not isinstance(a, np.ndarray) or a.size == 0:
                continue
            try:
                if a.dtype == bool:
                    if mode == 0:
                        np.logical_not(a, out=a)
                    else:
                        a[...] = bool(mode % 2)
                elif a.dtype.kind in "iu":
                    if mode == 0:
                        a += 1
                    else:
                        a[...] = -1 if a.dtype.kind == "i" else 0
                elif a.dtype.kind == "f":
                    if mode == 0:
                        a[...] = np.nan
                    else:
                        a += 1.0
            except Exception:
                pass
        self.keep = []
        for w in self.worlds.values():
            src = w.get("src")
            if isinstance(src, np.ndarray) and src.size:
                try:
                    np.logical_not(src, out=src)
                except Exception:
                    pass
            if "klist" in w:
                w["klist"][:] = [9, 9]

    # -- Round 5 (R5-D): configuration values flipped between calls (C10's code reads none: nothing may change)
    CFG_KEYS = {"flip_for_ds9": ("fits", "flip_for_ds9"), "remove_projected_centre": ("grid", "remove_projected_centre"),
                "native_binned_only": ("structures", "native_binned_only")}

    def _op_cfg(self, st):
        if not self.impl:
            return
        from autoconf import conf

        g = conf.instance["general"]
        for name, v in st.get("vals", {}).items():
            if name not in self.CFG_KEYS:
                continue
            sec, key = self.CFG_KEYS[name]
            try:
                self.cfg_saved.setdefault(name, g[sec][key])
                g[sec][key] = bool(v)
            except Exception:
                pass

    def _cfg_restore(self):
        if not self.cfg_saved:
            return
        try:
            from autoconf import conf

            g = conf.instance["general"]
            for name, v in self.cfg_saved.items():
                sec, key = self.CFG_KEYS[name]
                g[sec][key] = v
        finally:
            self.cfg_saved = {}

    @staticmethod
    def _key(st):
        how, a = st["how"], st["args"]
        if how in ("px", "attr"):
            return (int(a[0]), int(a[1])), False
        if how == "row":
            return int(a[0]), False
        if how == "slice":
            return (slice(a[0], a[1]), slice(a[2], a[3])), False
        return _bits_arr(a["bits"], a["h"], a["w"]), True       # "bool", "boolobj"

    def _op_set(self, st):
        w = self.worlds[self.cur]
        key, rebinding = self._key(st)
        val = bool(st["value"])

        def do(a):
            if rebinding:
                return np.where(key, val, a)
            a[key] = val
            return a

        raised = False
        try:
            w["sh"] = do(w["sh"])
        except Exception:
            raised = True
        if not self.impl:
            self.entries.append({"t": "set", "raised": raised})
            return
        obs = False
        try:
            if st["how"] == "attr":
                w["obj"].mask[key] = val
            elif st["how"] == "boolobj":
                w["obj"][self.aa.Mask2D(mask=key, pixel_scales=1.0)] = val
            else:
                w["obj"][key] = val
        except Exception:
            obs = True
        try:
            w["arr"] = do(w["arr"])
        except Exception:
            pass
        self.entries.append({"raised": obs})

    def _op_freeze(self, st):
        w = self.worlds[self.cur]
        on = bool(st.get("on", 1))
        raised = False
        try:
            w["sh"].setflags(write=not on)
        except Exception:
            raised = True
        if not self.impl:
            self.entries.append({"t": "set", "raised": raised})
            return
        obs = False
        try:
            w["obj"].mask.setflags(write=not on)
        except Exception:
            obs = True
        try:
            w["arr"].setflags(write=not on)
        except Exception:
            pass
        self.entries.append({"raised": obs})

    def _op_setgeom(self, st):
        """re-assign the public geometry attributes of the SAME Mask2D object"""
        w = self.worlds[self.cur]
        w["sc"], w["og"] = list(st["scales"]), list(st["origin"])
        if self.impl:
            w["obj"].pixel_scales = tuple(float(Fraction(v)) for v in st["scales"])
            w["obj"].origin = tuple(float(Fraction(v)) for v in st["origin"])

    def _op_world(self, st):
        self._new_world(st["name"], _bits_arr(st["bits"], st["h"], st["w"]).copy(), st["scales"], st["origin"])

    def _op_switch(self, st):
        if st["name"] in self.worlds:
            self.cur = st["name"]

    def _op_repoint(self, st):
        w = self.worlds[self.cur]
        if st["to"] not in self.worlds:
            return
        w["target"] = st["to"]
        if self.impl:
            for hobj in w["held"]:
                hobj.mask = self.worlds[st["to"]]["obj"]

    def _op_derive(self, st):
        import copy as _copy

        w = self.worlds[self.cur]
        how = st["how"]
        obj = arr = None
        try:
            if how in ("copy", "deepcopy", "copy_method", "invert2"):
                sh = w["sh"].copy()
            elif how == "rows":
                sh = w["sh"][st["args"][0]:st["args"][1]]
            elif how == "win":
                a = st["args"]
                sh = w["sh"][a[0]:a[1], a[2]:a[3]]
            elif how == "with_new_array":
                a = st["args"]
                sh = _bits_arr(a["bits"], a["h"], a["w"]).copy()
            else:
                return
            if self.impl:
                o = w["obj"]
                if how == "copy":
                    obj, arr = _copy.copy(o), w["arr"].copy()
                elif how == "deepcopy":
                    obj, arr = _copy.deepcopy(o), w["arr"].copy()
                elif how == "copy_method":
                    obj, arr = o.copy(), w["arr"].copy()
                elif how == "invert2":
                    obj, arr = o.invert().invert(), w["arr"].copy()
                elif how == "rows":
                    obj, arr = o[st["args"][0]:st["args"][1]], w["arr"][st["args"][0]:st["args"][1]]
                elif how == "win":
                    a = st["args"]
                    obj, arr = o[a[0]:a[1], a[2]:a[3]], w["arr"][a[0]:a[1], a[2]:a[3]]
                else:
                    obj, arr = o.with_new_array(sh.copy()), sh.copy()
        except Exception:
            return
        if sh.ndim != 2 or sh.shape[0] == 0 or sh.shape[1] == 0:
            return
        self._new_world(st["name"], sh, w["sc"], w["og"], obj=obj, arr=arr)

    # -- observations
    def _decoy(self, w, held):
        tgt = self._target(held)
        obj = tgt["obj"]
        di, dm, dg = w["held"] if held else (obj.derive_indexes, obj.derive_mask, obj.derive_grid)
        for o, names in ((obj, MASK_DECOYS), (di, DI_DECOYS), (dm, DM_DECOYS), (dg, DG_DECOYS)):
            for n in names:
                try:
                    getattr(o, n)
                except Exception:
                    pass

    def _get(self, w, held, key):
        obj = self._target(held)["obj"]
        if held:
            di, dm, dg = w["held"]
        else:
            di, dm, dg = obj.derive_indexes, obj.derive_mask, obj.derive_grid
        if key in ("edge_slim", "border_slim"):
            return {key: [int(v) for v in self._stash(getattr(di, key))]}
        if key in ("edge_native", "border_native"):
            return {key: [[int(a), int(b)] for a, b in np.asarray(self._stash(getattr(di, key))).reshape(-1, 2)]}
        if key in ("edge_mask", "border_mask"):
            return {key: _bits(self._stash(getattr(dm, key[:-5])))}
        if key in ("edge_grid", "border_grid"):
            g = self._stash(getattr(dg, key[:-5]))
            return {key: _grid(g), key + "_mask": _bits(self._stash(g.mask))}
        if key in MASK_DECOYS:
            getattr(obj, key)
        elif key in DI_DECOYS:
            getattr(di, key)
        return {}

    def _op_touch(self, st):
        if not self.impl:
            return
        w = self.worlds[self.cur]
        held = st.get("via") == "held"
        for k in st.get("keys", []):
            try:
                self._get(w, held, k)
            except Exception:
                pass

    def _op_read(self, st):
        w = self.worlds[self.cur]
        via = st.get("via", "fresh")
        held = via == "held"
        tgt = self._target(held)
        if not self.impl:
            self.entries.append({"t": "read", "via": via, "state": np.array(tgt["sh"], dtype=bool), "sc": tgt["sc"],
                                 "og": tgt["og"]})
            return
        try:
            if st.get("decoy"):
                self._decoy(w, held)
            if via == "util":
                from autoarray.mask import mask_2d_util

                a = w["arr"]
                if st.get("copyin"):        # R5-B: a throw-away equal copy is handed in and scribbled over later
                    a = self._stash(np.array(a, dtype=bool))
                order = st.get("order", SET_KEYS)
                fns = [("edge_slim", lambda: [int(v) for v in self._stash(mask_2d_util.edge_1d_indexes_from(mask_2d=a))]),
                       ("border_slim", lambda: [int(v) for v in self._stash(mask_2d_util.border_slim_indexes_from(mask_2d=a))]),
                       ("total_edge", lambda: int(mask_2d_util.total_edge_pixels_from(mask_2d=a)))]
                if order and order[0] in ("border_slim", "border_native", "border_mask", "border_grid"):
                    fns = [fns[1], fns[2], fns[0]]
                obs = {}
                for k, f in fns:
                    obs[k] = f()
            else:
                obs = {}
                for k in st.get("order", SET_KEYS):
                    if k in SET_KEYS:
                        obs.update(self._get(w, held, k))
        except Exception as e:
            obs = {"err": type(e).__name__, "msg": str(e)[:200]}
        self.entries.append(obs)

    def _op_blur(self, st):
        w = self.worlds[self.cur]
        via = st.get("via", "mask")
        held = bool(st.get("held")) and via != "util"
        tgt = self._target(held)
        kh, kw = int(st["kh"]), int(st["kw"])
        want_grid = bool(st.get("grid")) and via != "util"
        if not self.impl:
            self.entries.append({"t": "blur", "via": via, "state": np.array(tgt["sh"], dtype=bool), "sc": tgt["sc"],
                                 "og": tgt["og"], "kh": kh, "kw": kw, "grid": want_grid})
            return
        from autoarray import exc
        from autoarray.mask import mask_2d_util

        kform = st.get("kform", "tuple")
        if kform == "list":
            ks = [kh, kw]
        elif kform == "np_int":
            ks = (np.int64(kh), np.int64(kw))
        elif kform == "held_list":
            ks = w["klist"]
            ks[0], ks[1] = kh, kw
        else:
            ks = (kh, kw)
        try:
            if via == "util":
                a = w["arr"]
                if st.get("copyin"):
                    a = self._stash(np.array(a, dtype=bool))
                bm = self._stash(mask_2d_util.blurring_mask_2d_from(mask_2d=a, kernel_shape_native=ks))
                obs = {"blurring_mask": _bits(bm)}
            else:
                obj = tgt["obj"]
                dm = w["held"][1] if held else None
                grid = None
                if want_grid and via == "grid_first":
                    grid = _grid(self._stash(self.aa.Grid2D.blurring_grid_from(mask=obj, kernel_shape_native=ks)))
                bm = self._stash((dm if dm is not None else obj.derive_mask).blurring_from(kernel_shape_native=ks))
                obs = {"blurring_mask": _bits(bm),
                       "geometry_kept": [q(v) for v in (*bm.pixel_scales, *bm.origin)] == [*tgt["sc"], *tgt["og"]]}
                if want_grid:
                    if grid is None:
                        grid = _grid(self._stash(self.aa.Grid2D.blurring_grid_from(mask=obj, kernel_shape_native=ks)))
                    obs["blurring_grid"] = grid
        except exc.MaskException as e:
            obs = {"err": _err_kind(e)}
        except Exception as e:
            obs = {"err": type(e).__name__, "msg": str(e)[:200]}
        self.entries.append(obs)


class C10(PropertyCheck):
    pid = "C10"
    title = "blurring / edge / border sets"
    rtol = Fraction(1, 10 ** 9)   # only the coordinate grids are real-valued; indices compare exactly
    nontrivial_rule = (
        "a case is non-trivial when the mask has both masked and unmasked pixels; distinct = distinct "
        "(kind, mask, kernel shape, geometry)"
    )
    exhaustive_note = {
        "quick": "edge/border index lists: every mask (incl. the fully masked one) for every shape with H*W <= 12 "
                 "(util functions); all public views (indexes, masks, grids): every such mask with H*W <= 9; "
                 "blurring masks: every mask with H*W <= 9 x kernels {1,3}x{1,3}",
        "thorough": "edge/border index lists: every mask (incl. the fully masked one) for every shape with H*W <= 15; "
                    "all public views: every such mask with H*W <= 12; blurring masks: every mask with "
                    "H*W <= 12 x kernels {1,3,5}x{1,3,5}",
    }
    # loop ties (DESIGN §12): regenerated from the source on every run, tie theorems proved for all sizes
    loop_tie_modules = ["LoopsMaskSets", "LoopsBorder", "LoopsMaskSets2"]
    modelled_functions = [
        "autoarray/mask/mask_2d_util.py:blurring_mask_2d_from",
        "autoarray/mask/mask_2d_util.py:check_if_edge_pixel",
        "autoarray/mask/mask_2d_util.py:total_edge_pixels_from",
        "autoarray/mask/mask_2d_util.py:edge_1d_indexes_from",
        "autoarray/mask/mask_2d_util.py:check_if_border_pixel",
        "autoarray/mask/mask_2d_util.py:total_border_pixels_from",
        "autoarray/mask/mask_2d_util.py:border_slim_indexes_from",
        "autoarray/mask/mask_2d_util.py:native_index_for_slim_index_2d_from",
        "autoarray/mask/mask_2d_util.py:total_pixels_2d_from",
        "autoarray/mask/derive/mask_2d.py:DeriveMask2D.blurring_from",
        "autoarray/mask/derive/mask_2d.py:DeriveMask2D.edge",
        "autoarray/mask/derive/mask_2d.py:DeriveMask2D.border",
        "autoarray/mask/derive/indexes_2d.py:DeriveIndexes2D.edge_slim",
        "autoarray/mask/derive/indexes_2d.py:DeriveIndexes2D.edge_native",
        "autoarray/mask/derive/indexes_2d.py:DeriveIndexes2D.border_slim",
        "autoarray/mask/derive/indexes_2d.py:DeriveIndexes2D.border_native",
        "autoarray/mask/derive/indexes_2d.py:DeriveIndexes2D.native_for_slim",
        "autoarray/mask/derive/grid_2d.py:DeriveGrid2D.unmasked",
        "autoarray/mask/derive/grid_2d.py:DeriveGrid2D.edge",
        "autoarray/mask/derive/grid_2d.py:DeriveGrid2D.border",
        "autoarray/structures/grids/grid_2d_util.py:grid_2d_slim_via_mask_from",
        "autoarray/geometry/geometry_util.py:central_pixel_coordinates_2d_from",
        "autoarray/geometry/geometry_util.py:central_scaled_coordinate_2d_from",
        "autoarray/structures/grids/uniform_2d.py:Grid2D.blurring_grid_from",
        "autoarray/structures/grids/uniform_2d.py:Grid2D.from_mask",
        # glue the history stream (Round 4) drives: the accessors that build the derive objects and the in-place
        # edit path.  Listed so that a change there escalates the search and so that new size constants in these
        # files become size hints.
        "autoarray/mask/mask_2d.py:Mask2D.derive_indexes",
        "autoarray/mask/mask_2d.py:Mask2D.derive_mask",
        "autoarray/mask/mask_2d.py:Mask2D.derive_grid",
        "autoarray/mask/derive/mask_2d.py:DeriveMask2D.derive_indexes",
        "autoarray/abstract_ndarray.py:AbstractNDArray.__setitem__",
        "autoarray/abstract_ndarray.py:AbstractNDArray.__copy__",
    ]
    trusted_extra = [
        "numpy fancy indexing `native_for_slim[edge_slim]`, `mask[rows, cols] = False` and the Mask2D / Grid2D "
        "constructors in the derive_* views are covered by correspondence only",
        "pixel-centre coordinates of the edge/border/blurring grids are compared with the exact rational formula "
        "to 1e-9 (float rounding of origin/scale not modelled)",
    ]
    assumptions = [
        "tree carries repair D6 (fixes/D6-edge-pixels-outer-ring.patch): whole-frame edge scan, neighbours beyond "
        "the array count as masked",
    ]

    # ------------------------------------------------------------------ generation
    MASK_FORMS = ["bool_nd", "bool_nd", "bool_list", "int_list", "int_nd", "invert"]
    # Round 5 (R5-C): other memory layouts / dtypes of an equal ndarray, and the forms legal together with invert=True
    ND_FORMS = ["fortran", "tview", "strided", "negstride", "readonly", "uint8", "int8", "int32", "float64", "float32"]
    BOOL_FORMS = {"bool_nd", "bool_list", "int_list", "fortran", "tview", "strided", "negstride", "readonly",
                  "np_bool_list", "row_arrays", "from_mask2d", "from_mask2d_same"}   # legal together with invert=True

    def _forms(self, rng):
        """how the (same) inputs are handed to the public API: container / dtype / constructor variants"""
        return {"mask_form": rng.choice(self.MASK_FORMS),
                "scales_form": rng.choice(["tuple", "tuple", "scalar", "int", "list"]),
                "kshape_form": rng.choice(["tuple", "list", "np_int"])}

    def _geom(self, rng, exact=False):
        sc = POW2_SCALES if exact else ALL_SCALES
        return ([q(rng.choice(sc)), q(rng.choice(sc))],
                [q(gen.dyadic(rng, -4, 4, 2)), q(gen.dyadic(rng, -4, 4, 2))])

    def generate(self, tier, rng):
        quick = tier == "quick"
        util_cells = 12 if quick else 15
        view_cells = 9 if quick else 12
        blur_cells = 9 if quick else 12
        # 1. edge/border index lists through the util functions, exhaustive
        for (h, w) in gen.shapes_upto(util_cells):
            for m in gen.all_masks(h, w, min_unmasked=0):
                yield {"tag": "util_exhaustive", "kind": "util", "mask": mask_json(m),
                       "mask_form": "int_nd" if (h + w) % 5 == 0 else "bool_nd"}
        # 2. every public view, exhaustive masks, anisotropic geometry off the origin
        for (h, w) in gen.shapes_upto(view_cells):
            for m in gen.all_masks(h, w, min_unmasked=0):
                sc, og = self._geom(rng)
                yield {"tag": "views_exhaustive", "kind": "sets", "mask": mask_json(m), "scales": sc,
                       "origin": og, **self._forms(rng)}
        # 3. blurring masks: exhaustive masks × small kernels (most hit the exception branch, many do not)
        ks = (1, 3) if quick else (1, 3, 5)
        for (h, w) in gen.shapes_upto(blur_cells):
            for m in gen.all_masks(h, w, min_unmasked=0):
                for kh in ks:
                    for kw in ks:
                        if kh > 2 * h or kw > 2 * w:
                            continue
                        yield {"tag": "blur_exhaustive", "kind": "blurring", "mask": mask_json(m),
                               "kh": kh, "kw": kw, "grid": False}
        # 3b. degenerate masks: no unmasked pixel at all (a result is required: nothing to blur, empty sets),
        #     exactly one, everything unmasked — with kernels up to (7,7), larger than the frame included
        for _ in range(40 if quick else 300):
            h, w = rng.randint(1, 9), rng.randint(1, 9)
            which = rng.choice(["none", "none", "one", "all"])
            m = gen.full(h, w, which != "all")
            if which == "one":
                m[rng.randrange(h)][rng.randrange(w)] = False
            sc, og = self._geom(rng)
            yield {"tag": f"degenerate_{which}_sets", "kind": "sets", "mask": mask_json(m), "scales": sc,
                   "origin": og, **self._forms(rng)}
            kh, kw = rng.choice(ODD), rng.choice(ODD)
            yield {"tag": f"degenerate_{which}_blur", "kind": "blurring", "mask": mask_json(m), "kh": kh,
                   "kw": kw, "grid": True, "scales": sc, "origin": og, **self._forms(rng)}
        # 4. structured random larger masks: every view + blurring with non-square kernels
        n = 150 if quick else 1500
        for _ in range(n):
            h, w = rng.randint(3, 11), rng.randint(3, 11)
            m, kind = gen.random_mask(rng, h, w)
            sc, og = self._geom(rng)
            yield {"tag": f"views_random_{kind}", "kind": "sets", "mask": mask_json(m), "scales": sc,
                   "origin": og, **self._forms(rng)}
        for _ in range(n):
            kh, kw = rng.choice(ODD), rng.choice(ODD)
            h, w = rng.randint(max(3, kh), 12), rng.randint(max(3, kw), 12)
            r = rng.random()
            if r < 0.65:
                margin_y, margin_x = kh // 2, kw // 2       # footprint exactly fits: boundary of the guard
            elif r < 0.85:
                margin_y, margin_x = max(0, kh // 2 - 1), kw // 2   # one row short on y only
            else:
                margin_y, margin_x = kh // 2, max(0, kw // 2 - 1)   # one column short on x only
            m = self._mask_with_margins(rng, h, w, margin_y, margin_x)
            sc, og = self._geom(rng)
            yield {"tag": f"blur_random_{kh}x{kw}", "kind": "blurring", "mask": mask_json(m), "kh": kh,
                   "kw": kw, "grid": True, "scales": sc, "origin": og, **self._forms(rng)}
        # 5. even kernels are rejected by the public entry point
        for _ in range(10 if quick else 60):
            h, w = rng.randint(5, 9), rng.randint(5, 9)
            m, _ = gen.random_mask(rng, h, w, margin=2)
            kh, kw = rng.choice([(2, 3), (3, 2), (4, 4), (2, 1), (1, 4)])
            yield {"tag": "blur_even", "kind": "blurring", "mask": mask_json(m), "kh": kh, "kw": kw,
                   "grid": False}
        # 6. Round 4 (L2): typed histories on REAL reused objects; every observing step is compared with the
        #    model / oracle value of a freshly built object in that state
        for c in self.history_cases(rng, 100 if quick else 700):
            yield c
        # 7. Round 5/6 hardening (DESIGN §14): decades / layouts / options / ownership + configuration histories /
        #    always-on mid-size frames
        for c in self.decade_cases(rng, 26 if quick else 300):
            yield c
        for c in self.layout_cases(rng, 10 if quick else 120):
            yield c
        for c in self.option_cases(rng, 1 if quick else 6):
            yield c
        for c in self.history_cases(rng, 24 if quick else 400, self.HISTORY_TEMPLATES_R5):
            yield c
        for c in self.mid_cases(rng, quick):
            yield c

    # ------------------------------------------------------------------ Round 5: decades stream (R5-A, R5-E)
    NEAR = (20, 22, 24, 26, 27)      # relative differences 2^-m: far outside 1e-9, inside allclose/isclose defaults

    def _decade_geoms(self, rng):
        """(tag, scales, origin) variants of one ordinary geometry: the whole world or one ingredient scaled by
        2^k (powers of two keep every dyadic exact), nearly-equal / nearly-zero ingredients at several decades,
        origins far from zero.  All values are exact doubles (<= 53 significant bits, exponents within +-520)."""
        P = lambda k: Fraction(2) ** k
        sy, sx = rng.choice(POW2_SCALES), rng.choice(POW2_SCALES)
        ay, ax = rng.choice(ALL_SCALES), rng.choice(ALL_SCALES)
        oy, ox = gen.dyadic(rng, -4, 4, 2), gen.dyadic(rng, -4, 4, 2)
        ks = [rng.randint(-45, -25), rng.randint(-24, -8), rng.randint(8, 24), rng.randint(25, 45)]
        for k in ks:
            yield "decade_world", (sy * P(k), sx * P(k)), (oy * P(k), ox * P(k))
        k = rng.choice(ks)
        yield "decade_world_general", (ay * P(k), ax * P(k)), (oy * P(k), ox * P(k))
        # R5-E: out to ~1e+-150 (2^+-500): quotients origin/scale stay ordinary, nothing is squared
        for k in (rng.choice([-1, 1]) * rng.randint(46, 200), rng.choice([-1, 1]) * rng.randint(201, 500)):
            yield "extreme_world", (sy * P(k), sx * P(k)), (oy * P(k), ox * P(k))
        # one ingredient: the origin far from zero (10^3 .. 10^12 pixels away), the scales alone, one axis alone
        k = rng.randint(10, 40)
        j = rng.choice([0, 0, rng.randint(-30, 30)])
        far = [oy * P(k), ox * P(k)]
        if rng.random() < 0.4:
            far[rng.randrange(2)] = rng.choice([oy, Fraction(0)])
        if far[0] == 0 and far[1] == 0:
            far[0] = P(k)
        yield "decade_origin_far", (sy * P(j), sx * P(j)), (far[0] * P(j), far[1] * P(j))
        k = rng.choice([rng.randint(-30, -6), rng.randint(6, 40)])
        yield "decade_scales_only", (sy * P(k), sx * P(k)), (oy, ox)
        k = rng.choice([rng.randint(-40, -12), rng.randint(12, 40)])
        yield "decade_one_axis", ((sy * P(k), sx) if rng.random() < 0.5 else (sy, sx * P(k))), (Fraction(0), Fraction(0))
        # nearly-equal scales (isotropic up to 2^-m), nearly-zero origin, nearly-equal origin components
        for k in (0, rng.choice(ks)):
            m_ = rng.choice(self.NEAR)
            e = 1 + rng.choice([-1, 1]) * P(-m_)
            yield "decade_near_equal_scales", (sy * P(k), sy * P(k) * e), (oy * P(k), ox * P(k))
            m_ = rng.choice(self.NEAR)
            tiny = [rng.choice([-1, 1]) * sy * P(k - m_), rng.choice([-1, 1]) * sx * P(k - m_)]
            if rng.random() < 0.5:
                tiny[rng.randrange(2)] = Fraction(0)
            yield "decade_near_zero_origin", (sy * P(k), sx * P(k)), tuple(tiny)
        m_ = rng.choice(self.NEAR)
        o = (oy if oy != 0 else Fraction(1, 4)) * P(rng.choice([0, rng.randint(8, 30)]))
        yield "decade_near_equal_origin", (sy, sx), (o, o * (1 + P(-m_)))
        # the origin a whole / half number of pixels away, far out (the centre pixel coordinate becomes integral)
        n = rng.randint(1 << 10, 1 << 30)
        yield "decade_origin_pixel_multiple", (sy, sx), (sy * n, sx * (Fraction(n) + Fraction(1, 2)))

    def decade_cases(self, rng, n_masks):
        for _ in range(n_masks):
            kh, kw = rng.choice([(3, 3), (3, 3), (1, 3), (3, 5), (5, 3), (1, 1)])
            h, w = rng.randint(max(3, kh), 7), rng.randint(max(3, kw), 7)
            r = rng.random()
            if r < 0.08:
                h, kh = 1, 1
            elif r < 0.16:
                w, kw = 1, 1
            if rng.random() < 0.5:
                m = self._mask_with_margins(rng, h, w, kh // 2, kw // 2)
                can_blur = True
            else:
                m, _ = gen.random_mask(rng, h, w)
                can_blur = False
            mj = mask_json(m)
            # the SAME mask with every geometry in a row: neighbours with the same key and another world
            for tag, sc, og in self._decade_geoms(rng):
                sc, og = [q(v) for v in sc], [q(v) for v in og]
                forms = {"scales_form": rng.choice(["tuple", "tuple", "list", "np64"]),
                         "origin_form": rng.choice(["tuple", "tuple", "list", "np64"])}
                yield {"tag": tag, "kind": "sets", "dec": 1, "mask": mj, "scales": sc, "origin": og, **forms}
                if can_blur and rng.random() < 0.5:
                    yield {"tag": tag, "kind": "blurring", "dec": 1, "mask": mj, "kh": kh, "kw": kw, "grid": True,
                           "scales": sc, "origin": og, **forms,
                           "grid_via": rng.choice([None, None, "positional", "via_grid", "os_1"])}

    # ------------------------------------------------------------------ Round 5: container / layout variants (R5-C)
    SET_MASK_FORMS = ["bool_nd", "bool_list", "int_list", "int_nd", "np_bool_list", "row_arrays", "from_mask2d",
                      "from_mask2d_same"] + ND_FORMS
    KSHAPE_FORMS = ["tuple", "list", "np_int", "np_i32", "np_i8", "np_arr", "np_arr_i16"]
    GRID_VIAS = [None, "positional", "os_none", "os_1", "os_2", "via_grid"]

    def layout_cases(self, rng, n_masks):
        """the same mask through every container / memory layout / dtype the entry points accept"""
        for i in range(n_masks):
            h, w = rng.randint(2, 8), rng.randint(2, 8)
            if i % 7 == 5:
                h = 1
            elif i % 7 == 6:
                w = 1
            kh, kw = rng.choice([(3, 3), (1, 3), (3, 1), (3, 5)])
            if rng.random() < 0.6 and h >= kh and w >= kw:
                m = self._mask_with_margins(rng, h, w, kh // 2, kw // 2)
            else:
                m, _ = gen.random_mask(rng, h, w)
            mj = mask_json(m)
            sc, og = self._geom(rng, exact=True)
            for f in self.SET_MASK_FORMS:
                for inv in ((None, "true") if f in self.BOOL_FORMS else (None,)):
                    yield {"tag": f"layout_sets_{f}" + ("_inv" if inv else ""), "kind": "sets", "mask": mj, "scales": sc,
                           "origin": og, "mask_form": f, "invert_form": inv,
                           "scales_form": rng.choice(["tuple", "list", "np64", "f32", "scalar"]),
                           "origin_form": rng.choice(["tuple", "list", "np64", "int"])}
            for f in ["bool_nd", "int_nd"] + self.ND_FORMS:
                yield {"tag": f"layout_util_{f}", "kind": "util", "mask": mj, "mask_form": f}
            for kf in self.KSHAPE_FORMS:
                f = rng.choice(self.SET_MASK_FORMS)
                yield {"tag": f"layout_blur_{kf}", "kind": "blurring", "mask": mj, "kh": kh, "kw": kw, "grid": True,
                       "scales": sc, "origin": og, "mask_form": f, "kshape_form": kf,
                       "invert_form": rng.choice([None, "true", "false"]) if f in self.BOOL_FORMS else None,
                       "grid_via": rng.choice(self.GRID_VIAS)}

    # ------------------------------------------------------------------ Round 5: rarely combined options (R5-F)
    def _option_axes(self):
        """option axes of the entry points the property names, read off their signatures (`inspect.signature`):
        {axis: [default, non-default values…]}.  An axis whose parameter disappeared is dropped; set-but-falsy
        values (origin exactly (0,0) given explicitly / as ints, invert=False / 0, over_sampling=None) are values
        like any other."""
        import inspect

        aa = load_autoarray()
        axes = {}
        try:
            pm = inspect.signature(aa.Mask2D.__init__).parameters
        except Exception:
            pm = {}
        try:
            pg = inspect.signature(aa.Grid2D.blurring_grid_from).parameters
        except Exception:
            pg = {}
        if "mask" in pm:
            axes["mask_form"] = list(self.SET_MASK_FORMS)
        if "pixel_scales" in pm:
            axes["scales_form"] = ["tuple", "scalar", "int", "list", "np64", "f32"]
        if "origin" in pm:
            axes["origin_form"] = ["tuple", "omit", "zero_explicit", "int", "list", "np64"]
        if "invert" in pm:
            axes["invert_form"] = [None, "false", "zero", "true"]
        axes["kshape_form"] = list(self.KSHAPE_FORMS)
        vias = [None, "positional", "via_grid"]
        if "over_sampling" in pg:
            vias += ["os_none", "os_1", "os_2"]
        axes["grid_via"] = vias
        axes["kernel"] = [(3, 3), (1, 1), (1, 3), (3, 1), (5, 1), (1, 5), (3, 5)]
        return axes

    def option_cases(self, rng, reps):
        """pairwise crossing: every non-default value of one option with every non-default value of another; the
        remaining options at their default (mostly) or random"""
        axes = self._option_axes()
        names = sorted(axes)
        for _ in range(reps):
            for i, a in enumerate(names):
                for b in names[i + 1:]:
                    for va in axes[a][1:]:
                        for vb in axes[b][1:]:
                            opt = {n: (axes[n][0] if rng.random() < 0.7 else rng.choice(axes[n])) for n in names}
                            opt[a], opt[b] = va, vb
                            yield self._option_case(rng, opt)

    def _option_case(self, rng, opt):
        kh, kw = opt.pop("kernel")
        blur = rng.random() < 0.6
        h, w = rng.randint(max(2, kh), 6), rng.randint(max(2, kw), 6)
        zero_origin = opt.get("origin_form") in ("omit", "zero_explicit") or (opt.get("origin_form") == "int" and rng.random() < 0.5)
        r = rng.random()
        if r < 0.08:
            m = gen.full(h, w, rng.random() < 0.5)         # uniform masks: the all_false constructor applies
            if opt.get("mask_form") == "bool_nd" or rng.random() < 0.5:
                opt["mask_form"] = "all_false"
        elif blur:
            m = self._mask_with_margins(rng, h, w, kh // 2, kw // 2)
        else:
            m, _ = gen.random_mask(rng, h, w)
        sc, og = self._geom(rng, exact=True)
        if opt.get("scales_form") == "scalar":
            sc = [sc[0], sc[0]]
        if opt.get("scales_form") == "int":
            sc = [q(rng.choice([1, 2])), q(rng.choice([1, 2]))]
        if zero_origin:
            og = ["0", "0"]
        elif opt.get("origin_form") == "int":
            og = [q(rng.randint(-3, 3)), q(rng.randint(-3, 3))]
        case = {"tag": "options_pair", "mask": mask_json(m), "scales": sc, "origin": og,
                **{k: v for k, v in opt.items() if v is not None and k not in ("kshape_form", "grid_via")}}
        if blur:
            case.update(kind="blurring", kh=kh, kw=kw, grid=True, kshape_form=opt["kshape_form"])
            if opt.get("grid_via"):
                case["grid_via"] = opt["grid_via"]
        else:
            case["kind"] = "sets"
        return case

    # ------------------------------------------------------------------ Round 5: always-on mid / large sizes (R5-E)
    def mid_cases(self, rng, quick):
        """one or two frames per run beyond 2^15 / 2^16 in every size the C10 code loops over (frame pixels, one
        side, unmasked pixels), judged by the vectorised oracle alone (no new constant is needed to trigger them)"""
        def case(kind, dim, spec, **kw):
            sc, og = self._geom(rng)
            c = {"tag": f"mid_{dim}_{kind}", "kind": kind, "large": 1, "spec": spec, "scales": sc, "origin": og, **kw}
            if kind == "blurring":
                c.setdefault("grid", True)
            return c

        seed = rng.randrange(1 << 30)
        # frame pixels > 2^16: footprints that fit exactly on the far sides / leave by exactly one column
        H, W = rng.randint(250, 262), rng.randint(263, 275)
        kh, kw = rng.choice([(3, 5), (5, 3), (3, 3)])
        hy, hx = kh // 2, kw // 2
        base = [["rect", H // 5, H // 2, W // 6, W // 2, 0], ["px", H // 3, W // 3, 1], ["diag", H // 2, W // 2, 6, 1],
                ["bern", seed, 1, 3, H - hy - 1 - H // 6, H - hy - 1, hx + 1, W // 3],
                ["px", H - 1 - hy, W // 3, 0], ["px", H // 3, W - 1 - hx, 0], ["px", hy, W // 2, 0], ["px", H // 2, hx, 0]]
        yield case("blurring", "frame", {"H": H, "W": W, "ops": base}, kh=kh, kw=kw, note="fits_every_side")
        side = rng.choice([["px", H // 3, W - hx, 0], ["px", H - hy, W // 3, 0]])
        yield case("blurring", "frame", {"H": H, "W": W, "ops": base + [side]}, kh=kh, kw=kw, note="leaves_by_one")
        # one side > 2^16 (thin frames, both orientations)
        L = (1 << 16) + rng.randint(1, 40)
        for (H, W) in ((L, 3), (3, L)):
            if H > W:
                ops = [["stripes", 1, H - 1, 1, 2, 3], ["rect", H - 9, H - 1, 1, 2, 0], ["px", H - 5, 1, 1]]
                k = (3, 1)
            else:
                ops = [["rect", 1, 2, 1, W // 7, 0], ["rect", 1, 2, W - 9, W - 1, 0], ["px", 1, W - 3, 1],
                       ["bern", seed, 1, 5, 1, 2, W // 2, W - 12]]
                k = (1, 3)
            yield case("blurring", "side", {"H": H, "W": W, "ops": ops}, kh=k[0], kw=k[1], note="fits")
        # one side > 2^15 through the index lists; > 2^15 unmasked pixels through the index lists
        L = (1 << 15) + rng.randint(1, 40)
        H, W = rng.choice([(L, 3), (3, L)])
        ops = ([["stripes", 0, H, 0, 2, 16], ["rect", H - 5, H, 1, 3, 0]] if H > W else
               [["rect", 0, 2, 0, W // 9, 0], ["rect", 1, 3, W - W // 11, W, 0], ["px", 1, W - 3, 1]])
        yield case("util", "side", {"H": H, "W": W, "ops": ops}, note="ring_contact")
        a = rng.randint(150, 170)
        n = (1 << 15) + rng.randint(1, 300)
        b = -(-n // a) + 3
        yield case("util", "unmasked", {"H": a + 4, "W": b + 4, "ops": [["fill", n, 2, a + 2, 2, b + 2], ["px", a // 2, b // 2, 1]]},
                   note="more_than_2^15_unmasked")
        # every public view on a frame > 2^16 pixels with ring contact, holes, diagonal contacts (few unmasked pixels)
        H, W = rng.randint(240, 255), rng.randint(275, 290)
        ops = [["rect", H // 3, H // 3 + 12, W // 4, W // 4 + 30, 0], ["px", H // 3 + 5, W // 4 + 7, 1],
               ["diag", H // 3 + 12, W // 4 + 30, 7, 1], ["rect", 0, 1, W // 2, W // 2 + 40, 0],
               ["rect", H // 2, H // 2 + 25, W - 1, W, 0], ["px", H - 1, W - 1, 0], ["px", 0, 0, 0],
               ["bern", seed, 1, 4, H - 20, H - 2, 5, 60]]
        yield case("sets", "frame", {"H": H, "W": W, "ops": ops}, note="ring_contact_holes_diagonals")
        # > 2^15 unmasked pixels through the derive objects (a subset of the views: each one re-runs the scans);
        # the last rows are one-pixel stripes, so border / edge pixels carry slim indices beyond 2^15
        n = (1 << 15) + rng.randint(1, 300)
        a = rng.randint(170, 190)
        b = -(-n // a) + 3
        ops = [["fill", n, 2, a + 2, 2, b + 2], ["px", a // 2, b // 2, 1], ["stripes", a + 4, a + 9, 1, b // 3, 2],
               ["px", a + 8, b + 3, 0]]
        yield case("sets", "unmasked", {"H": a + 10, "W": b + 4, "ops": ops},
                   keys=["edge_native", "border_native", rng.choice(["edge_mask", "border_mask", "edge_grid", "border_grid"])],
                   note="more_than_2^15_unmasked")
        if not quick:
            n = (1 << 16) + rng.randint(1, 300)
            a = rng.randint(240, 260)
            b = -(-n // a) + 3
            yield case("util", "unmasked", {"H": a + 4, "W": b + 4, "ops": [["fill", n, 2, a + 2, 2, b + 2]]},
                       note="more_than_2^16_unmasked")
            yield case("blurring", "unmasked", {"H": a + 4, "W": b + 6, "ops": [["fill", n, 2, a + 2, 3, b + 3]]},
                       kh=3, kw=5, note="more_than_2^16_unmasked")
            n = (1 << 15) + rng.randint(1, 300)
            a = rng.randint(170, 190)
            b = -(-n // a) + 3
            yield case("sets", "unmasked", {"H": a + 4, "W": b + 4, "ops": [["fill", n, 2, a + 2, 2, b + 2], ["px", a // 2, b // 2, 1]]},
                       note="more_than_2^15_unmasked")
            L = (1 << 15) + rng.randint(1, 40)
            yield case("sets", "side", {"H": 3, "W": L, "ops": [["rect", 0, 2, 0, 300, 0], ["rect", 1, 3, L - 200, L, 0], ["px", 1, L - 3, 1]]},
                       note="ring_contact")

    # ------------------------------------------------------------------ constant-directed sizes (Round 4, L1)
    LARGE_BUDGET_S = 45.0      # estimated pure-Python cost of the whole stream
    LARGE_CASE_MAX_S = 8.0
    KERNELS_LARGE = [(3, 3), (3, 5), (5, 3), (1, 3), (3, 1), (7, 3), (5, 7)]

    @staticmethod
    def _cost(kind, hw, unmasked, kpix=9):
        if kind == "blurring":
            return 0.25e-6 * hw + 1.0e-6 * unmasked * kpix + 0.002
        if kind == "util":
            return 4e-6 * hw + 30e-6 * unmasked + 0.002
        return 25e-6 * hw + 150e-6 * unmasked + 0.005

    @staticmethod
    def _sizes(c):
        return [("below", c - 1), ("at", c), ("above", c + 1), ("mid", c + c // 3 + 1), ("dbl", 2 * c + 1)]

    def generate_large(self, hints, rng):
        """cases whose sizes straddle every new integer constant `c` of the anchored source, in EVERY size
        dimension the C10 code loops over: frame pixels H*W (non-square), rows, columns, unmasked pixels, edge
        pixels, kernel pixels, kernel side — each combined with what makes a wrong answer visible (footprints
        that fit exactly / leave by exactly one row or column on each of the four sides, holes, diagonal contacts,
        several components, ring contact, anisotropic off-origin geometry).  Frames above MODEL_MAX_PIXELS are
        judged by the vectorised oracle alone."""
        cands = []   # (cost, order, case)

        def geom():
            return self._geom(rng)

        def add(kind, dim, where, c, spec, unmasked_est, **kw):
            hw = spec["H"] * spec["W"]
            if hw > 400000:
                return
            kpix = kw.get("kh", 3) * kw.get("kw", 3)
            cost = self._cost(kind, hw, int((~spec_mask(spec)).sum()), kpix) * (2.0 if dim == "edge" else 1.0)
            if cost > self.LARGE_CASE_MAX_S:
                return
            sc, og = geom()
            case = {"tag": f"large_{dim}_{kind}", "kind": kind, "large": 1, "hint": c, "where": where, "spec": spec,
                    "scales": sc, "origin": og, **kw}
            if kind == "blurring":
                case.setdefault("grid", True)
            cands.append((cost, len(cands), case))

        def blob_ops(H, W, my, mx, seed):
            """interior structure that respects margins (my, mx): blob with holes, a diagonal chain touching it
            only corner-to-corner, a noisy patch, a second component"""
            ih, iw = H - 2 * my, W - 2 * mx
            if ih < 1 or iw < 1:
                return []
            y0, x0 = my + ih // 5, mx + iw // 6
            y1, x1 = max(y0 + 1, my + (3 * ih) // 5), max(x0 + 1, mx + (2 * iw) // 3)
            ops = [["rect", y0, y1, x0, x1, 0], ["px", (y0 + y1) // 2, (x0 + x1) // 2, 1],
                   ["px", (y0 + y1) // 2 + 1, (x0 + x1) // 2 + 1, 1]]
            n = max(0, min(6, H - my - y1, W - mx - x1))
            if n:
                ops.append(["diag", y1, x1, n, 1])
            if ih > 12 and iw > 12:
                ops.append(["bern", seed, 1, 3, H - my - ih // 5, H - my, mx, mx + iw // 3])
                ops.append(["rect", my, my + 2, W - mx - 3, W - mx, 0])
            return ops

        def blur_family(dim, where, c, H, W, seed):
            """interior / exact-fit on each side / leave-by-one on each side, for a few kernels"""
            for ki, (kh, kw) in enumerate(self.KERNELS_LARGE):
                if ki >= 3 and where not in ("above", "below"):
                    continue
                hy, hx = kh // 2, kw // 2
                if H < kh + 2 or W < kw + 2:
                    continue
                base = blob_ops(H, W, hy + 1, hx + 1, seed)
                un = (H * W) // 3
                add("blurring", dim, where, c, {"H": H, "W": W, "ops": base}, un, kh=kh, kw=kw)
                sides = {"top": ["px", hy, W // 2, 0], "bottom": ["px", H - 1 - hy, W // 3, 0],
                         "left": ["px", H // 2, hx, 0], "right": ["px", H // 3, W - 1 - hx, 0],
                         "corner": ["px", H - 1 - hy, W - 1 - hx, 0]}
                for side, pxop in sides.items():       # footprint reaches the last row / column exactly: a result
                    add("blurring", dim, where, c, {"H": H, "W": W, "ops": base + [pxop]}, un, kh=kh, kw=kw,
                        note=f"fits_{side}")
                leave = {}
                if hy >= 1:
                    leave["top"] = ["px", hy - 1, W // 2, 0]
                    leave["bottom"] = ["px", H - hy, W // 3, 0]
                if hx >= 1:
                    leave["left"] = ["px", H // 2, hx - 1, 0]
                    leave["right"] = ["px", H // 3, W - hx, 0]
                for side, pxop in leave.items():       # leaves the array by exactly one row / column: an error
                    add("blurring", dim, where, c, {"H": H, "W": W, "ops": base + [pxop]}, un, kh=kh, kw=kw,
                        note=f"leaves_{side}_by_one")
                    add("blurring", dim, where, c, {"H": H, "W": W, "ops": [pxop]}, 1, kh=kh, kw=kw,
                        note=f"single_leaves_{side}_by_one")
            add("blurring", dim, where, c, {"H": H, "W": W, "ops": []}, 0, kh=3, kw=5, note="nothing_unmasked")

        def sets_family(dim, where, c, H, W, seed, kinds=("sets", "util")):
            base = blob_ops(H, W, 0, 0, seed)
            ring = base + [["rect", 0, 1, W // 4, W // 2, 0], ["rect", H - 1, H, W // 2, W - 1, 0],
                           ["rect", H // 4, H // 2, 0, 1, 0], ["rect", H // 3, H - 2, W - 1, W, 0],
                           ["px", H - 1, W - 1, 0], ["px", 0, 0, 0]]
            un = (H * W) // 3
            for kd in kinds:
                add(kd, dim, where, c, {"H": H, "W": W, "ops": ring}, un, note="ring_contact_holes_diagonals")
            add(kinds[0], dim, where, c, {"H": H, "W": W, "ops": blob_ops(H, W, 2, 2, seed)}, un, note="masked_ring")

        for c in sorted(set(int(v) for v in hints)):
            if c < 8:
                continue
            seed = rng.randrange(1 << 30)
            for where, s in self._sizes(c):
                d = {"below": -1, "at": 0, "above": 1, "mid": 1, "dbl": 1}[where]
                # (1) frame pixels, non-square, both orientations
                f = _factor_near(s, d)
                if f and f[0] * f[1] <= 300000:
                    for (H, W) in (f, f[::-1]):
                        blur_family("frame", where, c, H, W, seed)
                        sets_family("frame", where, c, H, W, seed)
                # (2) rows / columns alone (thin frames)
                if s <= 120000:
                    for k in (3, 6):
                        for (H, W) in ((s, k), (k, s)):
                            if H * W > 300000:
                                continue
                            blur_family("side", where, c, H, W, seed)
                            if k == 3:
                                sets_family("side", where, c, H, W, seed)
                # (3) exactly s unmasked pixels (with margins that hold a (3,5) kernel; frame ~1.4 s)
                if 8 <= s <= 140000:
                    a = max(2, int((s * 1.15 / 1.5) ** 0.5) + 1)
                    b = -(-int(s * 1.15 + 1) // a)
                    if True:
                        for (H, W) in ((a + 4, b + 6), (b + 4, a + 6))[: 1 if s > 20000 else 2]:
                            region = (H - 4) * (W - 6)
                            if region < s:
                                continue
                            spec = {"H": H, "W": W, "ops": [["fill", s, 2, H - 2, 3, W - 3]]}
                            add("blurring", "unmasked", where, c, spec, s, kh=3, kw=5, note="exact_unmasked_count")
                            add("util", "unmasked", where, c, spec, s, note="exact_unmasked_count")
                            add("sets", "unmasked", where, c, spec, s, note="exact_unmasked_count")
                            spec2 = {"H": H, "W": W, "ops": [["fill", s, 0, H, 0, W]]}
                            add("util", "unmasked", where, c, spec2, s, note="exact_unmasked_count_ring")
                            add("sets", "unmasked", where, c, spec2, s, note="exact_unmasked_count_ring")
                # (4) exactly s edge pixels: one-pixel stripes (every unmasked pixel is an edge pixel, only the
                #     stripe ends and the outer stripes are border pixels)
                if 12 <= s <= 60000:
                    L = max(4, int((1.5 * s) ** 0.5))
                    rows, rest = divmod(s, L)
                    H, W = 2 * (rows + 1) + 3, L + 4
                    ops = [["stripes", 2, 2 + 2 * rows, 2, 2 + L, 2]] if rows else []
                    if rest:
                        ops.append(["rect", 2 + 2 * rows, 3 + 2 * rows, 2, 2 + rest, 0])
                    spec = {"H": H, "W": W, "ops": ops}
                    add("util", "edge", where, c, spec, s, note="exact_edge_count")
                    add("sets", "edge", where, c, spec, s, note="exact_edge_count")
                    add("sets", "edge", where, c, {"H": W, "W": H, "ops": [["stripes", 2, W - 2, 2, H - 2, 3],
                                                                          ["rect", 2, W - 2, H // 2, H // 2 + 1, 0]]},
                        s, note="stripes_with_bridge")
                # (5) kernel pixels kh*kw and (6) kernel side
                if s <= 1500:
                    ks = _odd_factor_near(s, d)
                    if ks:
                        for (kh, kw) in {ks, ks[::-1]}:
                            self._kernel_cases(add, "kernel", where, c, kh, kw)
                if s <= 400:
                    so = s if s % 2 == 1 else s + (1 if d >= 0 else -1)
                    if so >= 1:
                        for (kh, kw) in ((so, 3), (3, so), (so, 1), (1, so)):
                            self._kernel_cases(add, "kside", where, c, kh, kw)
        # drop the most expensive cases until the estimated total fits the budget (breadth survives)
        cands.sort(key=lambda t: t[0])
        keep = []
        for kd, share in (("blurring", 0.3), ("util", 0.15), ("sets", 0.55)):
            # round-robin over (dimension, hint, where) groups, cheapest first inside a group: every dimension and
            # every side of every constant keeps its cheapest cases when the budget cuts
            groups = {}
            for t in cands:
                if t[2]["kind"] == kd:
                    groups.setdefault((t[2]["tag"], t[2]["hint"], t[2]["where"]), []).append(t)
            total, alive = 0.0, True
            while alive and groups:
                alive = False
                for g in sorted(groups):
                    if not groups[g]:
                        continue
                    cost, order, case = groups[g][0]
                    if total + cost > share * self.LARGE_BUDGET_S:
                        groups[g] = []
                        continue
                    groups[g].pop(0)
                    total += cost
                    keep.append((order, cost, case))
                    alive = True
        # run order: violations of the far side first seen -> interleave by generation order, cheap first inside
        keep.sort(key=lambda t: (t[1] > 1.0, t[0]))
        seen = set()
        for _, _, case in keep:
            k = str(sorted((kk, str(v)) for kk, v in case.items() if kk not in ("tag", "hint", "where", "scales", "origin")))
            if k in seen:
                continue
            seen.add(k)
            yield case

    @staticmethod
    def _kernel_cases(add, dim, where, c, kh, kw):
        hy, hx = kh // 2, kw // 2
        for (ey, ex) in ((0, 0), (3, 2)):
            H, W = kh + ey + 1, kw + ex + 2
            # single unmasked pixels whose footprint fits exactly on the far sides / leaves by one
            cy, cx = hy, hx
            add("blurring", dim, where, c, {"H": H, "W": W, "ops": [["px", cy, cx, 0]]}, 1, kh=kh, kw=kw,
                note="fits_top_left")
            add("blurring", dim, where, c, {"H": H, "W": W, "ops": [["px", H - 1 - hy, W - 1 - hx, 0],
                                                                   ["px", H - 1 - hy, max(hx, W - 2 - hx), 0]]}, 2,
                kh=kh, kw=kw, note="fits_bottom_right")
            if hy >= 1:
                add("blurring", dim, where, c, {"H": H, "W": W, "ops": [["px", H - hy, W - 1 - hx, 0]]}, 1, kh=kh,
                    kw=kw, note="leaves_bottom_by_one")
                if ey:
                    add("blurring", dim, where, c, {"H": H, "W": W, "ops": [["px", hy - 1, hx, 0]]}, 1, kh=kh,
                        kw=kw, note="leaves_top_by_one")
            if hx >= 1:
                add("blurring", dim, where, c, {"H": H, "W": W, "ops": [["px", H - 1 - hy, W - hx, 0]]}, 1, kh=kh,
                    kw=kw, note="leaves_right_by_one")

    # ------------------------------------------------------------------ history stream (Round 4, L2)
    HISTORY_TEMPLATES = ["edit", "edit", "twin", "fault", "repoint", "derive", "blurseq", "mixed"]
    HISTORY_TEMPLATES_R5 = ["own", "own", "config"]     # Round 5: ownership (R5-B) and configuration (R5-D) histories

    def history_cases(self, rng, rounds, templates=None):
        for _ in range(rounds):
            for t in (templates or self.HISTORY_TEMPLATES):
                yield self._gen_history(rng, t)

    def _gen_history(self, rng, template):
        h, w = rng.randint(2, 7), rng.randint(2, 8)
        r = rng.random()
        if r < 0.06:
            h = 1
        elif r < 0.12:
            w = 1
        margin = 0
        if template in ("blurseq", "fault", "twin", "own", "config") and rng.random() < 0.8:
            # room for a kernel: otherwise only (1,1) fits and the blurring mask / grid is empty
            h, w = rng.randint(4, 8), rng.randint(4, 8)
            margin = 2 if (min(h, w) >= 6 and rng.random() < 0.3) else 1
        m, _ = gen.random_mask(rng, h, w, margin=margin)
        sc, og = self._geom(rng)
        case = {"tag": f"history_{template}", "kind": "history", "mask": mask_json(m), "scales": sc, "origin": og,
                "steps": []}
        sim = _Hist(case, impl=False)

        def add(st):
            case["steps"].append(st)
            sim.apply(st)

        def sh():
            return sim.worlds[sim.cur]["sh"]

        def read(via=None, **extra):
            add({"op": "read", "via": via or rng.choice(["fresh", "fresh", "held", "held", "util"]),
                 "order": rng.sample(SET_KEYS, len(SET_KEYS)), "decoy": int(rng.random() < 0.35), **extra})

        def touch():
            pool = SET_KEYS + DI_DECOYS + ["geometry", "pixels_in_mask"]
            add({"op": "touch", "via": rng.choice(["fresh", "held"]), "keys": rng.sample(pool, rng.randint(1, 3))})

        def bool_key(hh, ww, p=0.3):
            return {"h": hh, "w": ww, "bits": "".join("1" if rng.random() < p else "0" for _ in range(hh * ww))}

        def edit(how=None, value=None):
            a = sh()
            hh, ww = a.shape
            how = how or rng.choice(["px", "px", "slice", "bool", "boolobj", "attr", "row"])
            if value is None:
                value = rng.random() < 0.6
            if how in ("px", "attr"):
                # prefer a pixel whose value really changes
                cand = [(y, x) for y in range(hh) for x in range(ww) if bool(a[y, x]) != bool(value)]
                y, x = rng.choice(cand) if cand else (rng.randrange(hh), rng.randrange(ww))
                if rng.random() < 0.15:
                    y, x = y - hh, x - ww      # negative indices denote the same pixel
                args = [y, x]
            elif how == "row":
                args = [rng.randrange(hh)]
            elif how == "slice":
                y0, x0 = rng.randrange(hh), rng.randrange(ww)
                args = [y0, rng.randint(y0 + 1, hh), x0, rng.randint(x0 + 1, ww)]
            else:
                args = bool_key(hh, ww)
            add({"op": "set", "how": how, "args": args, "value": int(value)})

        def badset():
            hh, ww = sh().shape
            if rng.random() < 0.5:
                add({"op": "set", "how": "bool", "args": bool_key(hh + 1, ww + 2, 0.5), "value": 1})
            else:
                add({"op": "set", "how": rng.choice(["px", "attr"]), "args": [hh, rng.randrange(ww)], "value": 1})

        def fit_half():
            a = sh()
            hh, ww = a.shape
            ys, xs = np.nonzero(~a)
            if ys.size == 0:
                return 3, 3
            return (int(min(ys.min(), hh - 1 - ys.max())), int(min(xs.min(), ww - 1 - xs.max())))

        def blur(mode="fit", via=None, kernel=None, kform=None, held=None, grid=None, **extra):
            fy, fx = fit_half()
            if kernel is None:
                if mode == "fit":
                    hy, hx = rng.randint(0, min(fy, 3)), rng.randint(0, min(fx, 3))
                elif mode == "leave_y":
                    hy, hx = min(fy + 1, 4), rng.randint(0, min(fx, 3))
                elif mode == "leave_x":
                    hy, hx = rng.randint(0, min(fy, 3)), min(fx + 1, 4)
                else:
                    hy, hx = rng.randint(0, 3), rng.randint(0, 3)
                kernel = (2 * hy + 1, 2 * hx + 1)
            via = via or rng.choice(["mask", "mask", "grid_first", "util"])
            add({"op": "blur", "via": via, "kh": kernel[0], "kw": kernel[1],
                 "grid": int(rng.random() < 0.6) if grid is None else int(grid),
                 "kform": kform or rng.choice(["tuple", "list", "np_int", "held_list"]),
                 "held": int(rng.random() < 0.4) if held is None else int(held), **extra})
            return kernel

        def world(name, kind=None):
            w0 = sim.worlds[sim.cur]
            a = np.array(w0["sh"], dtype=bool)
            hh, ww = a.shape
            sc2, og2 = list(w0["sc"]), list(w0["og"])
            kind = kind or rng.choice(["scale_rel", "origin_rel", "pixel_move", "pixel_flip", "shuffle", "same",
                                       "content"])
            if kind == "scale_rel":
                for ax in rng.choice([[0], [1], [0, 1]]):
                    sc2[ax] = q(Fraction(sc2[ax]) * (1 + PERTURB))
            elif kind == "origin_rel":
                for ax in rng.choice([[0], [1], [0, 1]]):
                    o = Fraction(og2[ax])
                    og2[ax] = q(o * (1 + PERTURB) if o != 0 else TINY)
            elif kind == "pixel_move":
                un = [(y, x) for y in range(hh) for x in range(ww) if not a[y, x]]
                ma = [(y, x) for y in range(hh) for x in range(ww) if a[y, x]]
                if un and ma:
                    a[rng.choice(un)] = True
                    a[rng.choice(ma)] = False
            elif kind == "pixel_flip":
                y, x = rng.randrange(hh), rng.randrange(ww)
                a[y, x] = not a[y, x]
            elif kind == "shuffle":
                flat = list(a.ravel())
                rng.shuffle(flat)
                a = np.array(flat, dtype=bool).reshape(hh, ww)
            elif kind == "content":
                m2, _ = gen.random_mask(rng, hh, ww)
                a = np.array(m2, dtype=bool)
                og2 = [q(gen.dyadic(rng, -4, 4, 2)), q(gen.dyadic(rng, -4, 4, 2))]
            add({"op": "world", "name": name, "h": hh, "w": ww, "bits": _bits_fast(a), "scales": sc2, "origin": og2})

        def switch(name):
            add({"op": "switch", "name": name})

        def setgeom():
            w0 = sim.worlds[sim.cur]
            sc2, og2 = list(w0["sc"]), list(w0["og"])
            if rng.random() < 0.6:          # near-duplicate geometry
                ax = rng.randrange(2)
                if rng.random() < 0.5:
                    sc2[ax] = q(Fraction(sc2[ax]) * (1 + PERTURB))
                else:
                    o = Fraction(og2[ax])
                    og2[ax] = q(o * (1 + PERTURB) if o != 0 else TINY)
            else:
                sc2, og2 = self._geom(rng)
            add({"op": "setgeom", "scales": sc2, "origin": og2})

        def derive(name, how=None, allow_views=False):
            hh, ww = sh().shape
            hows = ["copy", "deepcopy", "copy_method", "invert2", "with_new_array"] + (["rows", "win"] if allow_views else [])
            how = how or rng.choice(hows)
            st = {"op": "derive", "how": how, "name": name}
            if how == "rows":
                y0 = rng.randrange(hh)
                st["args"] = [y0, rng.randint(y0 + 1, hh)]
            elif how == "win":
                y0, x0 = rng.randrange(hh), rng.randrange(ww)
                st["args"] = [y0, rng.randint(y0 + 1, hh), x0, rng.randint(x0 + 1, ww)]
            elif how == "with_new_array":
                m2, _ = gen.random_mask(rng, hh, ww)
                st["args"] = _np_mask_json(np.array(m2, dtype=bool))
            add(st)
            return how

        if template == "edit":
            read()
            if rng.random() < 0.4:
                touch()
            for _ in range(rng.randint(1, 2)):
                edit()
            read()
            if rng.random() < 0.6:
                edit()
                if rng.random() < 0.5:
                    blur()
                read()
        elif template == "twin":
            # the SAME calls (same access path, same kernel, grid requested) on near-duplicate worlds, A-B-A
            via = rng.choice(["fresh", "held", "util"])
            bv = rng.choice(["mask", "grid_first", "grid_first"])
            fy, fx = fit_half()
            k = (2 * rng.randint(0, min(fy, 2)) + 1, 2 * rng.randint(0, min(fx, 2)) + 1)
            kf = rng.choice(["tuple", "list", "held_list"])
            order = rng.sample(SET_KEYS, len(SET_KEYS))

            def seq():
                first = rng.random() < 0.5
                if first:
                    add({"op": "read", "via": via, "order": order, "decoy": 0})
                blur(kernel=k, via=bv, grid=True, kform=kf, held=False)
                if not first:
                    add({"op": "read", "via": via, "order": order, "decoy": 0})

            seq()
            world("B", rng.choice(["scale_rel", "origin_rel", "scale_rel", "origin_rel", "pixel_move", "pixel_flip",
                                   "shuffle"]))
            seq()
            switch("A")
            seq()
            if rng.random() < 0.5:
                setgeom()
                seq()
            if rng.random() < 0.3:
                world("C")
                seq()
                switch("B")
                seq()
        elif template == "fault":
            k = blur("fit", via=rng.choice(["mask", "grid_first", "util"]))
            blur(rng.choice(["leave_y", "leave_x"]))
            if rng.random() < 0.4:
                add({"op": "blur", "via": "mask", "kh": rng.choice([2, 4]), "kw": rng.choice([1, 2, 3]), "grid": 0,
                     "kform": "tuple", "held": 0})
            blur(kernel=k)
            read()
            badset()
            read()
            add({"op": "freeze", "on": 1})
            edit(how=rng.choice(["px", "slice", "attr", "row", "bool"]))
            read()
            add({"op": "freeze", "on": 0})
            edit()
            read()
            blur()
        elif template == "repoint":
            read("held")
            world("B", rng.choice(["content", "pixel_move", "scale_rel", "origin_rel", "shuffle"]))
            if rng.random() < 0.5:
                read(rng.choice(["fresh", "held"]))
            switch("A")
            add({"op": "repoint", "to": "B"})
            read("held")
            if rng.random() < 0.5:
                blur(held=True, via="mask")
            add({"op": "repoint", "to": "A"})
            if rng.random() < 0.6:
                edit()
            read("held")
            if rng.random() < 0.5:
                read("fresh")
        elif template == "derive":
            read()
            views = rng.random() < 0.3
            how = derive("X", allow_views=views, how=rng.choice(["rows", "win"]) if views else None)
            if how not in ("rows", "win"):
                edit()
            read()
            if rng.random() < 0.5:
                blur()
            switch("A")
            read()
            if how not in ("rows", "win") and rng.random() < 0.5:
                edit()
                read()
                switch("X")
                read()
        elif template == "own":
            # R5-B ownership history: observe -> scribble in place over every array the API returned or accepted ->
            # observe the same object again -> rebuild the same world from fresh equal inputs -> observe; three
            # rounds (a memo that hands out its own array may do so only from the 2nd / 3rd request on).  The mask,
            # the geometry, the access path and the kernel are the SAME every round.
            via = rng.choice(["fresh", "held", "util", "fresh"])
            bv = "util" if via == "util" else rng.choice(["mask", "grid_first"])
            fy, fx = fit_half()
            k = (2 * rng.randint(0, min(fy, 2)) + 1, 2 * rng.randint(0, min(fx, 2)) + 1)
            kf = rng.choice(["tuple", "list", "held_list", "np_int"])
            order = rng.sample(SET_KEYS, len(SET_KEYS))
            heldb = via == "held"

            def seq():
                first = rng.random() < 0.5
                if first:
                    add({"op": "read", "via": via, "order": order, "decoy": 0, "copyin": 1})
                blur(kernel=k, via=bv, grid=True, kform=kf, held=heldb, copyin=1)
                if not first:
                    add({"op": "read", "via": via, "order": order, "decoy": 0, "copyin": 1})

            for rnd in range(3):
                seq()
                add({"op": "scribble", "mode": rng.choice([0, 0, 1, 2])})
                if rng.random() < 0.45:
                    seq()           # the same object again: its answers must not be the arrays handed out before
                    add({"op": "scribble", "mode": rng.choice([0, 1, 2])})
                if rnd < 2:
                    world("BC"[rnd], "same")
            if rng.random() < 0.4:      # and an in-place edit at the end: the rebuilt object is an ordinary live mask
                edit()
                seq()
        elif template == "config":
            # R5-D configuration history: C10's code reads no configuration value, so flipping the values that the
            # surrounding structures code does read, between calls on fresh and on reused objects, changes nothing
            names = sorted(_Hist.CFG_KEYS)

            def cfg(vals=None):
                add({"op": "cfg", "vals": vals or {n: int(rng.random() < 0.5) for n in rng.sample(names, rng.randint(1, len(names)))}})

            via = rng.choice(["fresh", "held", "util"])
            read(via)
            if rng.random() < 0.7:
                blur("fit", grid=True)
            cfg({n: 1 for n in names} if rng.random() < 0.5 else None)
            read(via)
            blur("fit", grid=True, via=rng.choice(["mask", "grid_first"]))
            if rng.random() < 0.5:
                edit()
                read()
            world("B", rng.choice(["same", "pixel_move", "content"]))
            read(rng.choice(["fresh", "held"]))
            cfg({n: 0 for n in names})
            read()
            if rng.random() < 0.5:
                switch("A")
                cfg()
                read(via)
                blur("any")
        elif template == "blurseq":
            k1 = blur("fit", kform="held_list" if rng.random() < 0.5 else None, grid=True)
            blur(kernel=(k1[1], k1[0]), grid=True)
            if rng.random() < 0.5:
                blur("any")
            edit(value=True if rng.random() < 0.7 else None)
            blur(kernel=k1, grid=True)
            if rng.random() < 0.5:
                world("B", rng.choice(["pixel_move", "scale_rel", "origin_rel", "shuffle"]))
                blur(kernel=k1, grid=True)
                switch("A")
                blur(kernel=k1, grid=True)
        else:  # mixed
            for _ in range(rng.randint(4, 8)):
                r = rng.random()
                if r < 0.3:
                    read()
                elif r < 0.55:
                    edit()
                elif r < 0.7:
                    blur(rng.choice(["fit", "fit", "leave_y", "leave_x", "any"]))
                elif r < 0.78:
                    touch()
                elif r < 0.81:
                    badset()
                elif r < 0.84:
                    setgeom()
                elif r < 0.9 and "B" not in sim.worlds:
                    world("B")
                elif r < 0.95 and len(sim.worlds) > 1:
                    switch(rng.choice(sorted(sim.worlds)))
                elif "X" not in sim.worlds:
                    derive("X")
            read()
        return case

    @staticmethod
    def _mask_with_margins(rng, h, w, my, mx):
        ih, iw = h - 2 * my, w - 2 * mx
        if ih <= 0 or iw <= 0:
            m = gen.full(h, w)
            m[h // 2][w // 2] = False
            return m
        inner, _ = gen.random_mask(rng, ih, iw)
        # make the inner mask touch its own frame so the footprint guard is exercised at equality
        if rng.random() < 0.7:
            side = rng.randrange(4)
            if side == 0:
                inner[0][rng.randrange(iw)] = False
            elif side == 1:
                inner[ih - 1][rng.randrange(iw)] = False
            elif side == 2:
                inner[rng.randrange(ih)][0] = False
            else:
                inner[rng.randrange(ih)][iw - 1] = False
        m = gen.full(h, w)
        for y in range(ih):
            for x in range(iw):
                m[y + my][x + mx] = inner[y][x]
        return m

    # ------------------------------------------------------------------ implementation
    def run_impl(self, case):
        aa = load_autoarray()
        from autoarray import exc
        from autoarray.mask import mask_2d_util

        kind = case["kind"]
        if kind == "history":
            return {"steps": _Hist(case, impl=True).run()}
        m = case_mask(case)
        large = bool(case.get("large"))
        bits_of, grid_of = (_bits_fast, _grid_f) if large else (_bits, _grid)
        if kind == "util":
            alt = self._layout(m, case.get("mask_form"))
            if alt is not None:
                m = alt
            es = mask_2d_util.edge_1d_indexes_from(mask_2d=m)
            bs = mask_2d_util.border_slim_indexes_from(mask_2d=m)
            return {"edge_slim": [int(v) for v in es], "border_slim": [int(v) for v in bs],
                    "total_edge": int(mask_2d_util.total_edge_pixels_from(mask_2d=m))}
        mask = self._build_mask(aa, case, m)
        if kind == "sets":
            di, dm, dg = mask.derive_indexes, mask.derive_mask, mask.derive_grid
            views = {
                "edge_slim": lambda: [int(v) for v in di.edge_slim],
                "border_slim": lambda: [int(v) for v in di.border_slim],
                "edge_native": lambda: [[int(a), int(b)] for a, b in np.asarray(di.edge_native).reshape(-1, 2)],
                "border_native": lambda: [[int(a), int(b)] for a, b in np.asarray(di.border_native).reshape(-1, 2)],
                "edge_mask": lambda: bits_of(dm.edge),
                "border_mask": lambda: bits_of(dm.border),
                "edge_grid": lambda: grid_of(dg.edge),
                "border_grid": lambda: grid_of(dg.border),
            }
            # large frames may observe a subset of the views ("keys"; the two slim lists always): every view
            # re-runs the Python-speed scans
            want = [k for k in SET_KEYS if k in case["keys"] or k in ("edge_slim", "border_slim")] if case.get("keys") else SET_KEYS
            return {k: views[k]() for k in want}
        kshape = self._kshape(case)
        try:
            bm = mask.derive_mask.blurring_from(kernel_shape_native=kshape)
        except exc.MaskException as e:
            return {"err": _err_kind(e)}
        obs = {"blurring_mask": bits_of(bm),
               "geometry_kept": [q(v) for v in (*bm.pixel_scales, *bm.origin)] == [*case.get("scales", ["1", "1"]), *case.get("origin", ["0", "0"])]}
        if case.get("grid"):
            obs["blurring_grid"] = grid_of(self._blurring_grid(aa, case, mask, kshape))
        return obs

    # -- how the (same) inputs reach the public API (Round 3 forms + Round 5 R5-C layouts / R5-F options)
    @staticmethod
    def _layout(m, form):
        """an ndarray equal to the boolean array `m` in another memory layout / dtype (None: not an ndarray form)"""
        h, w = m.shape
        if form == "fortran":
            return np.asfortranarray(m)
        if form == "tview":                  # transposed view of a C-ordered array (has a base, F-contiguous)
            return np.ascontiguousarray(m.T).T
        if form == "strided":                # non-contiguous window of a larger array
            big = np.ones((2 * h + 1, 3 * w + 2), dtype=bool)
            v = big[1::2, 2::3][:h, :w]
            v[...] = m
            return v
        if form == "negstride":              # negative strides on both axes
            return np.ascontiguousarray(m[::-1, ::-1])[::-1, ::-1]
        if form == "readonly":
            c = m.copy()
            c.setflags(write=False)
            return c
        if form in ("uint8", "int8", "int32", "float64", "float32"):
            return m.astype(form)
        if form == "int_nd":
            return m.astype(np.int64)
        return None

    def _build_mask(self, aa, case, m):
        sc = tuple(float(Fraction(s)) for s in case.get("scales", ["1", "1"]))
        og = tuple(float(Fraction(s)) for s in case.get("origin", ["0", "0"]))
        sform = case.get("scales_form", "tuple")
        if sform == "scalar" and sc[0] == sc[1]:
            sc_in = sc[0]
        elif sform == "int" and all(float(v).is_integer() for v in sc):
            sc_in = (int(sc[0]), int(sc[1]))   # a bare int scalar is outside the documented PixelScales type
        elif sform == "list":
            sc_in = [sc[0], sc[1]]
        elif sform == "np64":
            sc_in = (np.float64(sc[0]), np.float64(sc[1]))
        elif sform == "f32" and not case.get("dec") and all(float(np.float32(v)) == v for v in (*sc, *og)) \
                and all(v > 0 and np.frexp(v)[0] == 0.5 for v in sc):
            # float32 scales: the centre arithmetic then runs in float32, exact for power-of-two scales and the
            # few-bit origins of the ordinary streams (other geometry keeps the plain tuple)
            sc_in = (np.float32(sc[0]), np.float32(sc[1]))
        else:
            sc_in = sc
        og_in = tuple(int(v) for v in og) if (sform == "int" and all(float(v).is_integer() for v in og)) else og
        oform = case.get("origin_form")
        kw_mask = {}
        if oform == "list":
            og_in = [og[0], og[1]]
        elif oform == "np64":
            og_in = (np.float64(og[0]), np.float64(og[1]))
        elif oform == "int" and all(float(v).is_integer() for v in og):
            og_in = (int(og[0]), int(og[1]))
        elif oform == "zero_explicit" and og == (0.0, 0.0):
            og_in = (0.0, 0.0)
        if not (oform == "omit" and og == (0.0, 0.0)):
            kw_mask["origin"] = og_in
        mform = case.get("mask_form", "bool_nd")
        iform = case.get("invert_form")
        if mform == "invert":                   # Round 3 name: boolean ndarray + invert=True
            mform, iform = "bool_nd", "true"
        if iform == "true" and mform not in self.BOOL_FORMS:
            iform = None                        # np.invert of a 0/1 integer array is not a boolean complement
        src = np.invert(m) if iform == "true" else m
        if iform == "true":
            kw_mask["invert"] = True
        elif iform == "false":
            kw_mask["invert"] = False
        elif iform == "zero":
            kw_mask["invert"] = 0
        if mform == "all_false" and (not m.any() or m.all()) and iform != "true":
            return aa.Mask2D.all_false(shape_native=tuple(int(v) for v in m.shape), pixel_scales=sc_in,
                                       origin=og_in, invert=bool(m.all()))
        if mform == "bool_list":
            m_in = [[bool(b) for b in r] for r in src]
        elif mform == "int_list":
            m_in = [[int(b) for b in r] for r in src]
        elif mform == "np_bool_list":
            m_in = [[np.bool_(b) for b in r] for r in src]
        elif mform == "row_arrays":
            m_in = [np.array(r, dtype=bool) for r in src]
        elif mform == "from_mask2d":            # a structure built from another structure with OTHER geometry
            m_in = aa.Mask2D(mask=src.copy(), pixel_scales=(7.0, 3.0), origin=(5.0, -2.0))
        elif mform == "from_mask2d_same":
            m_in = aa.Mask2D(mask=src.copy(), pixel_scales=sc, origin=og)
        else:
            m_in = self._layout(src, mform)
            if m_in is None:
                m_in = src
        return aa.Mask2D(mask=m_in, pixel_scales=sc_in, **kw_mask)

    @staticmethod
    def _kshape(case):
        kh, kw = case["kh"], case["kw"]
        f = case.get("kshape_form")
        if f == "list":
            return [kh, kw]
        if f == "np_int":
            return (np.int64(kh), np.int64(kw))
        if f == "np_i32":
            return (np.int32(kh), np.int32(kw))
        if f == "np_i8" and kh < 128 and kw < 128:
            return (np.int8(kh), np.int8(kw))
        if f == "np_arr":
            return np.array([kh, kw])
        if f == "np_arr_i16":
            return np.array([kh, kw], dtype=np.int16)
        return (kh, kw)

    @staticmethod
    def _blurring_grid(aa, case, mask, kshape):
        via = case.get("grid_via")
        if via == "positional":
            return aa.Grid2D.blurring_grid_from(mask, kshape)
        if via in ("os_none", "os_1", "os_2"):
            from autoarray.operators.over_sampling.uniform import OverSamplingUniform

            os_ = None if via == "os_none" else OverSamplingUniform(sub_size=1 if via == "os_1" else 2)
            return aa.Grid2D.blurring_grid_from(mask=mask, kernel_shape_native=kshape, over_sampling=os_)
        if via == "via_grid":           # the instance-method entry point of a grid paired with the mask
            return aa.Grid2D.from_mask(mask=mask).blurring_grid_via_kernel_shape_from(kernel_shape_native=kshape)
        return aa.Grid2D.blurring_grid_from(mask=mask, kernel_shape_native=kshape)

    # ------------------------------------------------------------------ model
    MODEL_MAX_PIXELS = 1200   # the List-based Lean model is quadratic in the frame: larger frames are judged by
                              # the (vectorised, direct) oracle alone

    def _expect(self, case):
        """per observing step of a history: what a freshly built object in that state must give (shadow run)"""
        k = id(case)
        if getattr(self, "_expect_cache", (None, None))[0] != k:
            self._expect_cache = (k, _Hist(case, impl=False).run(), case)   # keeps `case` alive: id stays unique
        return self._expect_cache[1]

    def model_requests(self, case, impl_obs):
        kind = case["kind"]
        if kind == "history":
            reqs = []
            for e in self._expect(case):
                mj = _np_mask_json(e["state"]) if "state" in e else None
                if e["t"] == "read":
                    reqs.append({"op": "c10.sets", "mask": mj, "scales": e["sc"], "origin": e["og"]})
                elif e["t"] == "blur":
                    if e["via"] == "util":
                        reqs.append({"op": "c10.blurring_util", "mask": mj, "kh": e["kh"], "kw": e["kw"]})
                    else:
                        r = {"op": "c10.blurring", "mask": mj, "kh": e["kh"], "kw": e["kw"]}
                        if e["grid"]:
                            r.update(grid=True, scales=e["sc"], origin=e["og"])
                        reqs.append(r)
            return reqs
        if "spec" in case:
            m = case_mask(case)
            if m.size > self.MODEL_MAX_PIXELS:
                return []
            mj = _np_mask_json(m)
        else:
            mj = case["mask"]
        if kind in ("util", "sets"):
            return [{"op": "c10.sets", "mask": mj, "scales": case.get("scales", ["1", "1"]),
                     "origin": case.get("origin", ["0", "0"])}]
        req = {"op": "c10.blurring", "mask": mj, "kh": case["kh"], "kw": case["kw"]}
        if case.get("grid"):
            req.update(grid=True, scales=case["scales"], origin=case["origin"])
        return [req]

    def _model_obs_history(self, case, responses):
        out, k = [], 0
        for e in self._expect(case):
            if e["t"] == "set":
                out.append({"raised": e["raised"]})
                continue
            r = responses[k]
            k += 1
            if "err" in r:
                out.append({"err": r["err"]})
                continue
            o = r["ok"]
            if e["t"] == "read":
                if e["via"] == "util":
                    out.append({kk: o[kk] for kk in ("edge_slim", "border_slim", "total_edge")})
                else:
                    d = {kk: o[kk] for kk in SET_KEYS}
                    d["edge_grid_mask"], d["border_grid_mask"] = o["edge_mask"], o["border_mask"]
                    out.append(d)
            elif e["via"] == "util":
                out.append({"blurring_mask": o["bits"]})
            else:
                d = {"blurring_mask": o["bits"], "geometry_kept": True}
                if e["grid"]:
                    d["blurring_grid"] = o["grid"]
                out.append(d)
        return {"steps": out}

    def model_obs(self, case, responses):
        if case["kind"] == "history":
            return self._model_obs_history(case, responses)
        r = responses[0]
        if "err" in r:
            return {"err": r["err"]}
        o = r["ok"]
        kind = case["kind"]
        if kind == "util":
            return {k: o[k] for k in ("edge_slim", "border_slim", "total_edge")}
        if kind == "sets":
            return {k: v for k, v in o.items() if k != "total_edge"}
        out = {"blurring_mask": o["bits"], "geometry_kept": True}
        if case.get("grid"):
            out["blurring_grid"] = o["grid"]
        return out

    # ------------------------------------------------------------------ oracle (independent of the model)
    @staticmethod
    def _centre(h, w, sc, og, p):
        sy, sx = Fraction(sc[0]), Fraction(sc[1])
        oy, ox = Fraction(og[0]), Fraction(og[1])
        return (oy + (Fraction(h - 1, 2) - p[0]) * sy, ox + (p[1] - Fraction(w - 1, 2)) * sx)

    @staticmethod
    def _grid_close(got, exp, tol=None):
        if len(got) != len(exp):
            return False
        for g, e in zip(got, exp):
            for ax, (a, b) in enumerate(zip(g, e)):
                t = Fraction(1, 10 ** 9) * max(1, abs(b)) if tol is None else tol[ax]
                try:
                    d = abs(Fraction(a) - b)
                except (ValueError, ZeroDivisionError):      # "nan" / "inf"
                    return False
                if d > t:
                    return False
        return True

    @staticmethod
    def _tol(case, h, w):
        """decades stream: per-axis tolerance RELATIVE TO THE SCALED MAGNITUDE of the case - a billionth of a
        pixel plus the float64 rounding of the centre arithmetic ((n-1)/2 + o/s, y - c, * s: a few ulps of
        |o| + n|s|; 2^-48 leaves a factor 8) - instead of the absolute 1e-9 of the ordinary streams."""
        if not case.get("dec"):
            return None
        out = []
        for ax, n in ((0, h), (1, w)):
            s_, o_ = abs(Fraction(case["scales"][ax])), abs(Fraction(case["origin"][ax]))
            out.append(Fraction(1, 10 ** 9) * s_ + Fraction(1, 1 << 48) * (o_ + n * s_))
        return out

    # Work-around for the runner being quadratic in the number of failing cases (it recomputes a set of
    # case keys per disagreement): once FAIL_CAP generated cases have failed in a run, further failures
    # of *generated* cases are not recorded (the run is a VIOLATION already).  Shrink candidates
    # (marked "_s") and corpus cases are always evaluated in full.
    FAIL_CAP = 40
    _fails = 0
    _disagreements = 0

    def oracle(self, case, obs):
        ok, detail = self._oracle(case, obs)
        if not ok and "_s" not in case and "corpus_file" not in case:
            if self._fails >= self.FAIL_CAP:
                return True, ""
            self._fails += 1
        return ok, detail

    def compare(self, case, impl_obs, model_obs, cmp):
        if case["kind"] == "history":
            impl_obs = {"steps": [{k: v for k, v in e.items() if k != "msg"} if isinstance(e, dict) else e
                                  for e in impl_obs.get("steps", [])]} if isinstance(impl_obs, dict) and "steps" in impl_obs else impl_obs
        d = None
        if case.get("dec") and isinstance(impl_obs, dict) and isinstance(model_obs, dict):
            # decades stream: the coordinate grids are compared with a tolerance relative to the scaled magnitude
            # of the case (`_tol`), everything else exactly as usual
            tol = self._tol(case, case["mask"]["h"], case["mask"]["w"])
            gk = [k for k in impl_obs if k.endswith("_grid") and k in model_obs]
            for k in gk:
                d = d or self._grid_diff(impl_obs[k], model_obs[k], tol, k, cmp)
            impl_obs = {k: v for k, v in impl_obs.items() if k not in gk}
            model_obs = {k: v for k, v in model_obs.items() if k not in gk}
        # bit strings must be compared as strings: `Cmp` parses all-digit strings as rationals, and formatting the
        # difference of two 300+-digit "numbers" overflows float()
        d = d or cmp.diff(self._bitsafe(impl_obs), self._bitsafe(model_obs))
        if d and "corpus_file" not in case:
            if self._disagreements >= self.FAIL_CAP:
                return None
            self._disagreements += 1
        return d

    @staticmethod
    def _grid_diff(got, exp, tol, name, cmp):
        if not isinstance(got, list) or not isinstance(exp, list) or len(got) != len(exp):
            return f"$.{name}: length impl={len(got) if isinstance(got, list) else got!r} model={len(exp) if isinstance(exp, list) else exp!r}"
        for i, (g, e) in enumerate(zip(got, exp)):
            for ax in (0, 1):
                try:
                    a, b = Fraction(g[ax]), Fraction(e[ax])
                except Exception:
                    return f"$.{name}[{i}][{ax}]: impl={g[ax]!r} model={e[ax]!r}"
                if a == b:
                    cmp.exact += 1
                elif abs(a - b) <= tol[ax]:
                    cmp.tolerant += 1
                else:
                    return (f"$.{name}[{i}][{ax}]: impl={float(a)!r} model={float(b)!r} (|Δ|={float(abs(a - b)):.3e}, "
                            f"tolerance {float(tol[ax]):.3e} relative to the scaled magnitude)")
        return None

    @classmethod
    def _bitsafe(cls, o):
        if isinstance(o, str):
            return "b" + o if len(o) > 15 and not o.strip("01") else o
        if isinstance(o, dict):
            return {k: (cls._bitsafe(v) if isinstance(v, (str, dict)) or (isinstance(v, list) and k == "steps") else v)
                    for k, v in o.items()}
        if isinstance(o, list):
            return [cls._bitsafe(v) for v in o]
        return o

    def sample_view(self, case):
        return {k: v for k, v in case.items() if not k.startswith("_")}

    def _oracle(self, case, obs):
        if case["kind"] == "history":
            return self._oracle_history(case, obs)
        if case.get("large"):
            return self._oracle_np(case, obs)
        return self._oracle_small(case, obs)

    def _oracle_history(self, case, obs):
        if not isinstance(obs, dict) or "steps" not in obs:
            return False, f"history did not run: {obs}"
        exp = self._expect(case)
        got = obs["steps"]
        if len(exp) != len(got):
            return False, f"history produced {len(got)} observations, {len(exp)} expected"
        for k, (e, o) in enumerate(zip(exp, got)):
            if e["t"] == "set":
                if bool(o.get("raised")) != bool(e["raised"]):
                    return False, (f"history observation {k}: in-place edit {'raised' if o.get('raised') else 'did not raise'}"
                                   f" but the same numpy assignment {'raises' if e['raised'] else 'does not raise'}")
                continue
            mj = _np_mask_json(e["state"])
            if e["t"] == "read":
                eq = {"kind": "util" if e["via"] == "util" else "sets", "mask": mj, "scales": e["sc"], "origin": e["og"]}
            else:
                if e["via"] == "util" and (e["kh"] % 2 == 0 or e["kw"] % 2 == 0):
                    continue     # the util function has no parity check; the statement is about odd kernels
                eq = {"kind": "blurring", "mask": mj, "kh": e["kh"], "kw": e["kw"], "scales": e["sc"], "origin": e["og"]}
            ok, detail = self._oracle_small(eq, o)
            if not ok:
                return False, (f"history observation {k} ({e['t']} via {e['via']}) differs from what a freshly built "
                               f"object in the same state gives: {detail}")
        return True, ""

    @staticmethod
    def _shift_or(P, h, w, ry, rx, skip_centre):
        """OR over the (2ry+1)x(2rx+1) window of the padded array P (pad ry, rx), optionally without the centre"""
        out = np.zeros((h, w), dtype=bool)
        for dy in range(2 * ry + 1):
            for dx in range(2 * rx + 1):
                if skip_centre and dy == ry and dx == rx:
                    continue
                out |= P[dy:dy + h, dx:dx + w]
        return out

    def _oracle_np(self, case, obs):
        """the same statement as `_oracle_small`, vectorised for frames of 10^4..10^5 pixels"""
        m = case_mask(case)
        h, w = m.shape
        kind = case["kind"]
        sc = [float(Fraction(v)) for v in case.get("scales", ["1", "1"])]
        og = [float(Fraction(v)) for v in case.get("origin", ["0", "0"])]

        def centres(flat):
            ys, xs = np.divmod(np.asarray(flat, dtype=np.int64), w)
            return np.stack([og[0] + ((h - 1) / 2.0 - ys) * sc[0], og[1] + (xs - (w - 1) / 2.0) * sc[1]], axis=1)

        def grid_ok(got, flat):
            if got and isinstance(got[0][0], str):
                got = [[float(Fraction(a)), float(Fraction(b))] for a, b in got]
            g = np.asarray(got, dtype=float).reshape(-1, 2)
            e = centres(flat).reshape(-1, 2)
            if g.shape != e.shape:
                return False
            return bool(np.all(np.abs(g - e) <= 1e-9 * np.maximum(1.0, np.abs(e))))

        def bits_ok(bits, expm):
            return isinstance(bits, str) and len(bits) == h * w and bool(np.array_equal(_bits_arr(bits, h, w), expm))

        if not isinstance(obs, dict):
            return False, f"implementation returned {obs!r}"
        unm = ~m
        if kind == "blurring":
            kh, kw = case["kh"], case["kw"]
            if kh % 2 == 0 or kw % 2 == 0:
                return (obs.get("err") == "even_kernel"), f"even kernel shape {(kh, kw)} not rejected: {str(obs)[:200]}"
            hy, hx = kh // 2, kw // 2
            ys, xs = np.nonzero(unm)
            inside = ys.size == 0 or (ys.min() >= hy and ys.max() + hy <= h - 1 and xs.min() >= hx and xs.max() + hx <= w - 1)
            if not inside:
                if obs.get("err") != "footprint_outside":
                    return False, (f"a kernel footprint leaves the {h}x{w} array (kernel {(kh, kw)}, unmasked rows "
                                   f"{int(ys.min())}..{int(ys.max())}, cols {int(xs.min())}..{int(xs.max())}) but no error "
                                   f"was raised: " + str(obs)[:120])
                return True, ""
            if "err" in obs:
                return False, f"every footprint is inside the array but the call raised {str(obs)[:200]}"
            P = np.pad(unm, ((hy, hy), (hx, hx)), constant_values=False)
            exp = ~(self._shift_or(P, h, w, hy, hx, False) & m)
            if not bits_ok(obs.get("blurring_mask"), exp):
                return False, "blurring mask is not {masked pixels inside the footprint of an unmasked pixel}"
            if not obs.get("geometry_kept", True):
                return False, "blurring mask does not keep pixel scales / origin"
            if "blurring_grid" in obs and not grid_ok(obs["blurring_grid"], np.flatnonzero(~exp.ravel())):
                return False, "blurring grid is not the pixel centres of the blurring mask in row-major order"
            return True, ""
        if "err" in obs:
            return False, f"implementation raised {str(obs)[:300]}"
        unm_flat = np.flatnonzero(unm.ravel())
        n = unm_flat.size
        lists = {}
        for name in ("edge_slim", "border_slim"):
            a = np.asarray(obs[name], dtype=np.int64).reshape(-1)
            if a.size and (a.min() < 0 or a.max() >= n):
                return False, f"{name} holds an index outside the {n} unmasked pixels"
            if a.size > 1 and not bool(np.all(np.diff(a) > 0)):
                return False, f"{name} is not strictly ascending"
            lists[name] = a
        es, bs = lists["edge_slim"], lists["border_slim"]
        Eflat = unm_flat[es]
        Emask = np.zeros(h * w, dtype=bool)
        Emask[Eflat] = True
        has_masked_nb = self._shift_or(np.pad(m, 1, constant_values=False), h, w, 1, 1, True)
        masked_or_absent_nb = self._shift_or(np.pad(m, 1, constant_values=True), h, w, 1, 1, True)
        bad = np.flatnonzero((unm & has_masked_nb).ravel() & ~Emask)
        if bad.size:
            return False, (f"unmasked pixel {tuple(int(v) for v in divmod(int(bad[0]), w))} has a masked in-array "
                           f"neighbour but is not in the edge set ({bad.size} such pixels)")
        bad = np.flatnonzero((unm & ~masked_or_absent_nb).ravel() & Emask)
        if bad.size:
            return False, (f"pixel {tuple(int(v) for v in divmod(int(bad[0]), w))} has all eight neighbours present "
                           f"and unmasked but is in the edge set ({bad.size} such pixels)")
        ones_r, ones_c = np.ones((1, w), dtype=bool), np.ones((h, 1), dtype=bool)
        cu = np.logical_and.accumulate(m, axis=0)
        cd = np.logical_and.accumulate(m[::-1], axis=0)[::-1]
        cl = np.logical_and.accumulate(m, axis=1)
        cr = np.logical_and.accumulate(m[:, ::-1], axis=1)[:, ::-1]
        clear = (np.vstack([ones_r, cu[:-1]]) | np.vstack([cd[1:], ones_r])
                 | np.hstack([ones_c, cl[:, :-1]]) | np.hstack([cr[:, 1:], ones_c]))
        expB = Eflat[clear.ravel()[Eflat]]
        Bflat = unm_flat[bs]
        if not np.array_equal(Bflat, expB):
            return False, (f"border set ({Bflat.size} pixels) != edge pixels with an all-masked walk to the array "
                           f"boundary ({expB.size} pixels)")
        if "total_edge" in obs and obs["total_edge"] != int(es.size):
            return False, "total_edge_pixels_from disagrees with the number of edge indices"
        if kind == "sets":
            for name, S in (("edge", Eflat), ("border", Bflat)):
                if f"{name}_native" in obs:
                    nat = np.asarray(obs[f"{name}_native"], dtype=np.int64).reshape(-1, 2)
                    expn = np.stack(np.divmod(S, w), axis=1).reshape(-1, 2)
                    if not np.array_equal(nat, expn):
                        return False, f"{name}_native does not denote the pixels of {name}_slim"
                expm = np.ones(h * w, dtype=bool)
                expm[S] = False
                if f"{name}_mask" in obs and not bits_ok(obs[f"{name}_mask"], expm.reshape(h, w)):
                    return False, f"{name} mask is not unmasked exactly on the {name} pixels"
                if f"{name}_grid" in obs and not grid_ok(obs[f"{name}_grid"], S):
                    return False, f"{name} grid is not the pixel centres of the {name} pixels in slim order"
        return True, ""

    def _oracle_small(self, case, obs):
        m = mask_from_json(case["mask"])
        h, w = m.shape
        kind = case["kind"]
        unm = [(y, x) for y in range(h) for x in range(w) if not m[y, x]]
        if kind == "blurring":
            kh, kw = case["kh"], case["kw"]
            if kh % 2 == 0 or kw % 2 == 0:
                if obs.get("err") != "even_kernel":
                    return False, f"even kernel shape {(kh, kw)} not rejected: {obs}"
                return True, ""
            hy, hx = kh // 2, kw // 2
            inside = all(hy <= y and y + hy < h and hx <= x and x + hx < w for y, x in unm)
            if not inside:
                if obs.get("err") != "footprint_outside":
                    return False, "a kernel footprint leaves the array but no error was raised: " + str(obs)[:200]
                return True, ""
            if "err" in obs:
                return False, f"every footprint is inside the array but the call raised {obs}"
            exp = np.ones((h, w), dtype=bool)
            for (y, x) in unm:
                for yy in range(y - hy, y + hy + 1):
                    for xx in range(x - hx, x + hx + 1):
                        if m[yy, xx]:
                            exp[yy, xx] = False
            if obs["blurring_mask"] != _bits(exp):
                return False, "blurring mask is not {masked pixels inside the footprint of an unmasked pixel}"
            if not obs.get("geometry_kept", True):
                return False, "blurring mask does not keep pixel scales / origin"
            if "blurring_grid" in obs:
                pix = [(y, x) for y in range(h) for x in range(w) if not exp[y, x]]
                expg = [self._centre(h, w, case["scales"], case["origin"], p) for p in pix]
                if not self._grid_close(obs["blurring_grid"], expg, self._tol(case, h, w)):
                    return False, "blurring grid is not the pixel centres of the blurring mask in row-major order"
            return True, ""
        if isinstance(obs, dict) and "err" in obs:
            return False, f"implementation raised {obs}"
        n = len(unm)

        def nb(p):
            return [(p[0] + dy, p[1] + dx) for dy in (-1, 0, 1) for dx in (-1, 0, 1) if (dy, dx) != (0, 0)]

        def inarr(p):
            return 0 <= p[0] < h and 0 <= p[1] < w

        es, bs = obs["edge_slim"], obs["border_slim"]
        for name, lst in (("edge_slim", es), ("border_slim", bs)):
            if any(not (0 <= k < n) for k in lst):
                return False, f"{name} holds an index outside the {n} unmasked pixels: {lst}"
            if any(a >= b for a, b in zip(lst, lst[1:])):
                return False, f"{name} is not strictly ascending: {lst}"
        E = [unm[k] for k in es]
        Eset = set(E)
        for p in unm:
            ns = nb(p)
            if any(inarr(r) and m[r] for r in ns) and p not in Eset:
                return False, f"unmasked pixel {p} has a masked in-array neighbour but is not in the edge set {E}"
            if all(inarr(r) and not m[r] for r in ns) and p in Eset:
                return False, f"pixel {p} has all eight neighbours present and unmasked but is in the edge set"

        def clear_walk(p):
            y, x = p
            return (all(m[r, x] for r in range(0, y)) or all(m[r, x] for r in range(y + 1, h))
                    or all(m[y, c] for c in range(0, x)) or all(m[y, c] for c in range(x + 1, w)))

        expB = [p for p in E if clear_walk(p)]
        B = [unm[k] for k in bs]
        if B != expB:
            return False, f"border set {B} != edge pixels with an all-masked walk to the array boundary {expB}"
        if "total_edge" in obs and obs["total_edge"] != len(es):
            return False, "total_edge_pixels_from disagrees with the number of edge indices"
        if kind == "sets":
            for name, S in (("edge", E), ("border", B)):
                if obs[f"{name}_native"] != [list(p) for p in S]:
                    return False, f"{name}_native does not denote the pixels of {name}_slim: {obs[f'{name}_native']} vs {S}"
                expm = np.ones((h, w), dtype=bool)
                for p in S:
                    expm[p] = False
                if obs[f"{name}_mask"] != _bits(expm):
                    return False, f"{name} mask is not unmasked exactly on the {name} pixels"
                expg = [self._centre(h, w, case["scales"], case["origin"], p) for p in S]
                if not self._grid_close(obs[f"{name}_grid"], expg, self._tol(case, h, w)):
                    return False, f"{name} grid is not the pixel centres of the {name} pixels in slim order"
                if f"{name}_grid_mask" in obs and obs[f"{name}_grid_mask"] != _bits(expm):
                    return False, f"the mask of the {name} grid is not unmasked exactly on the {name} pixels"
        return True, ""

    def nontrivial(self, case, obs):
        if "spec" in case:
            m = case_mask(case)
            return bool(m.any() and not m.all())
        b = case["mask"]["bits"]
        return "0" in b and "1" in b

    _shrink_rounds = 0
    SHRINK_ROUNDS_MAX = 150   # per run (the runner minimises every recorded failing case)

    def shrink(self, case):
        self._shrink_rounds += 1
        if self._shrink_rounds > self.SHRINK_ROUNDS_MAX:
            return
        for c in self._shrink(case):
            c["_s"] = 1
            c.pop("corpus_file", None)
            yield c

    FRESH_BUDGET_S = 90.0     # per run, for validating shrunk histories in fresh processes
    _fresh_spent = 0.0

    def _fresh_fails(self, cases):
        """does each case fail the oracle when it is the ONLY thing a fresh Python process runs?  A history that
        fails in this process may do so only because of library state left behind by earlier cases (module-level
        memo, scratch buffer); a replay must stand on its own, so shrinking keeps only candidates that fail fresh."""
        import json
        import os
        import subprocess
        import sys
        import time

        here = os.path.dirname(os.path.abspath(__file__))
        prog = ("import sys, json; sys.path[:0] = [%r, %r]\n"
                "import c10\nfrom common import safe_impl\n"
                "c = json.load(sys.stdin); chk = c10.CHECK\n"
                "o, sk = safe_impl(chk, c)\n"
                "ok = True if sk else chk._oracle(c, o)[0]\n"
                "print('FRESH-FAIL' if not ok else 'FRESH-OK')\n") % (os.path.dirname(here), here)
        out = []
        t0 = time.time()
        for k in range(0, len(cases), 8):
            procs = []
            for c in cases[k:k + 8]:
                p = subprocess.Popen([sys.executable, "-B", "-c", prog], stdin=subprocess.PIPE, stdout=subprocess.PIPE,
                                     stderr=subprocess.DEVNULL, text=True)
                p.stdin.write(json.dumps({kk: v for kk, v in c.items() if not kk.startswith("_")}))
                p.stdin.close()
                procs.append(p)
            for p in procs:
                try:
                    res = p.stdout.read()
                    p.wait(timeout=120)
                except Exception:
                    res = ""
                out.append("FRESH-FAIL" in res)
        self._fresh_spent += time.time() - t0
        return out

    def _shrink(self, case):
        if case["kind"] == "history":
            steps = case["steps"]
            cands = [{**case, "steps": steps[:i] + steps[i + 1:]} for i in range(len(steps))]
            for i, st in enumerate(steps):
                if st.get("decoy"):
                    cands.append({**case, "steps": steps[:i] + [{**st, "decoy": 0}] + steps[i + 1:]})
            if case.get("scales") not in (None, ["1", "1"]) or case.get("origin") not in (None, ["0", "0"]):
                if not any(st.get("op") in ("world", "setgeom") for st in steps):
                    cands.append({**case, "steps": steps, "scales": ["1", "1"], "origin": ["0", "0"]})
            if self._fresh_spent > self.FRESH_BUDGET_S:
                return
            # cheap in-process filter first; only candidates that still fail here are worth a fresh process
            live = []
            for c in cands:
                try:
                    if not self._oracle(c, self.run_impl(c))[0]:
                        live.append(c)
                except Exception:
                    pass
            for c, bad in zip(live, self._fresh_fails(live)):
                if bad:
                    yield c
            return
        if "spec" in case:
            sp = case["spec"]
            ops = sp.get("ops", [])
            for i in range(len(ops)):
                if len(ops) > 1:
                    yield {**case, "spec": {**sp, "ops": ops[:i] + ops[i + 1:]}}
            y0, y1, x0, x1 = sp.get("win", [0, sp["H"], 0, sp["W"]])
            hh, ww = y1 - y0, x1 - x0
            for frac in (2, 4, 16, 64, 512):
                for (a, b, c_, d) in ((hh // frac, 0, 0, 0), (0, hh // frac, 0, 0), (0, 0, ww // frac, 0), (0, 0, 0, ww // frac)):
                    if (a or b or c_ or d) and y1 - b - (y0 + a) >= 1 and x1 - d - (x0 + c_) >= 1:
                        yield {**case, "spec": {**sp, "win": [y0 + a, y1 - b, x0 + c_, x1 - d]}}
            if case.get("scales") not in (None, ["1", "1"]) or case.get("origin") not in (None, ["0", "0"]):
                yield {**case, "scales": ["1", "1"], "origin": ["0", "0"]}
            return
        mj = case["mask"]
        bits = mj["bits"]
        h, w = mj["h"], mj["w"]
        rows = [bits[i * w:(i + 1) * w] for i in range(h)]
        # drop a row / column
        if h > 1:
            for i in range(h):
                r2 = rows[:i] + rows[i + 1:]
                if "0" in "".join(r2):
                    yield {**case, "mask": {"h": h - 1, "w": w, "bits": "".join(r2)}}
        if w > 1:
            for j in range(w):
                r2 = [r[:j] + r[j + 1:] for r in rows]
                if "0" in "".join(r2):
                    yield {**case, "mask": {"h": h, "w": w - 1, "bits": "".join(r2)}}
        for i, c in enumerate(bits):
            if c == "0" and bits.count("0") > 1:
                yield {**case, "mask": {**mj, "bits": bits[:i] + "1" + bits[i + 1:]}}
        if case.get("scales") not in (None, ["1", "1"]) or case.get("origin") not in (None, ["0", "0"]):
            yield {**case, "scales": ["1", "1"], "origin": ["0", "0"]}
        # Round 5: one input form / option back to its default at a time
        for k in ("mask_form", "scales_form", "origin_form", "invert_form", "kshape_form", "grid_via"):
            if case.get(k) not in (None, "bool_nd", "tuple"):
                yield {kk: v for kk, v in case.items() if kk != k}

    def theorems_for(self, case):
        if case["kind"] == "history":
            return ["C10.blurring_defined_iff", "C10.blurring_unmasks_exactly", "C10.edge_slim_spec",
                    "C10.edge_contains_and_excludes", "C10.border_iff", "C10.native_views", "C10.mask_views",
                    "C10.grid_views"]
        if case["kind"] == "blurring":
            return ["C10.blurring_defined_iff", "C10.blurring_unmasks_exactly", "C10.blurring_even_rejected"]
        if case["kind"] == "util":
            return ["C10.edge_slim_spec", "C10.edge_contains_and_excludes", "C10.border_iff"]
        return ["C10.edge_slim_spec", "C10.edge_contains_and_excludes", "C10.border_iff",
                "C10.native_views", "C10.mask_views", "C10.grid_views"]


CHECK = C10()
