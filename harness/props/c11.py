"""C11 — queries are pure: no input mutation, no order dependence, deterministic.

Correspondence (DESIGN §5 C11): every case is a *history* over a real object graph.  The graph is built
by a fixed sequence of constructor stages from caller-owned numpy buffers; the history is a list of
property reads / query calls / derivations (arithmetic, slicing, copy, apply_mask, trimming …).

Observed on the implementation, per step
  * the value reported (canonical fingerprint: sha1 over dtype/shape/bytes of every array in it),
  * which caller-owned buffers changed bytes (P1) and which buffers reachable from the object graph
    through a path that exists before and after the step, with the same array identity, changed
    bytes (P2) — byte-level, `.tobytes()`.
Predicted by the Lean cache machine (Model/Purity.lean, driver op `c11.cache_machine`) from the effects
table `c11_effects.json`: the symbolic value `(key, contents term)` each read reports and the objects
whose contents / cached values are edited.  A symbolic value is interpreted as "the same quantity read
once on a freshly built equal object": the graph is rebuilt from equal inputs up to that object, the
derivations of the term are replayed with no reads in between, and the key is read once.

The oracle states the property directly: no protected buffer changes; every reported value equals the
fresh-object value; a derived structure reports what a brand-new structure constructed from its own
array and mask reports (plus numpy formulas for the cached quantities); equal seeds give equal
simulations whatever the prior global RNG state.
"""
from __future__ import annotations

import hashlib
import json
import sys
from fractions import Fraction
from pathlib import Path

import numpy as np

import gen
from common import PropertyCheck, Skip, load_autoarray, mask_json, mask_from_json, q

EFFECTS_PATH = Path(__file__).with_name("c11_effects.json")
_EFFECTS = None


def effects():
    global _EFFECTS
    if _EFFECTS is None:
        _EFFECTS = json.loads(EFFECTS_PATH.read_text())
        validate_effects(_EFFECTS)
    return _EFFECTS


IMPURE_KINDS = ("MapperValuedMaskedBuf", "MapperValuedMaskedRec")  # known finding D9b


def validate_effects(t):
    """the table must satisfy the hypotheses under which the Lean theorems apply to it
    (C11.reads_outside_impure_operations_report_fresh_values): constructors write nothing
    (`ctorWrites = []`), derivations inherit no cache key (`keeps = false`, hence KeepSound), and the keys
    that write nothing in place form a dependency-closed set (`CleanOn`), the writing keys being exactly the
    operations of known finding D9b."""
    writing, deps = set(), {}
    for kind, spec in t["kinds"].items():
        if spec.get("ctor_writes"):
            raise ValueError(f"effects table: constructor of {kind} declared to write")
        for how, e in spec.get("derive", {}).items():
            if e.get("keeps"):
                raise ValueError(f"effects table: derivation {kind}.{how} declared to keep cache keys {e['keeps']}")
        for k, e in list(spec.get("reads", {}).items()) + list(spec.get("queries", {}).items()):
            full = f"{kind}.{k}"
            deps[full] = [d[1] for d in e.get("deps", [])]
            if e.get("cwrites") or e.get("vwrites"):
                if kind not in IMPURE_KINDS:
                    raise ValueError(f"effects table: {full} declared to write in place (not a recorded finding)")
                writing.add(full)
    for k, ds in deps.items():
        if k not in writing and any(d in writing for d in ds):
            raise ValueError(f"effects table: clean key {k} reads a writing key")
    return True


# ==================================================================================================
# fingerprints
# ==================================================================================================
def fp_bytes(a: np.ndarray) -> str:
    a = np.asarray(a)
    h = hashlib.sha1()
    h.update(str(a.dtype).encode())
    h.update(str(a.shape).encode())
    if a.dtype == object:
        h.update(repr(a.tolist()).encode())
    else:
        h.update(np.ascontiguousarray(a).tobytes())
    return h.hexdigest()[:16]


def _is_structure(v):
    return hasattr(v, "_array") and hasattr(type(v), "with_new_array")


def _cached_names(cls):
    from autoconf.tools.decorators import CachedProperty
    import functools

    names = set()
    for base in cls.__mro__:
        for k, v in vars(base).items():
            if isinstance(v, (CachedProperty, functools.cached_property)):
                names.add(k)
    return names


def canon(v, depth=0):
    """canonical JSON-able description of a reported value (arrays by byte fingerprint)."""
    if v is None or isinstance(v, (bool, str)):
        return v
    if isinstance(v, (int, np.integer)):
        return int(v)
    if isinstance(v, (float, np.floating)):
        return float(v).hex()
    if isinstance(v, (complex, np.complexfloating)):
        return [float(v.real).hex(), float(v.imag).hex()]
    if isinstance(v, np.bool_):
        return bool(v)
    if isinstance(v, np.ndarray):
        return {"nd": fp_bytes(v), "shape": list(v.shape)}
    if _is_structure(v):
        out = {"cls": type(v).__name__, "arr": fp_bytes(np.asarray(v._array)),
               "shape": list(np.shape(v._array))}
        m = v.__dict__.get("mask", None)
        if m is not None and m is not v and _is_structure(m):
            out["mask"] = canon(m, depth + 1)
        for extra in ("pixel_scales", "origin"):
            if extra in v.__dict__:
                out[extra] = canon(v.__dict__[extra], depth + 1)
        return out
    if isinstance(v, (list, tuple)):
        return [canon(x, depth + 1) for x in v]
    if isinstance(v, dict):
        items = []
        for i, (k, x) in enumerate(v.items()):
            kk = k if isinstance(k, (str, int)) else f"{type(k).__name__}#{i}"
            items.append([kk, canon(x, depth + 1)])
        return {"dict": items}
    if hasattr(v, "__dict__") and type(v).__module__.split(".")[0] not in ("scipy", "numpy", "astropy"):
        out = {"cls": type(v).__name__}
        if depth < 3:
            cached = _cached_names(type(v))
            attrs = {}
            for k, x in vars(v).items():
                if k in cached or k in ("run_time_dict", "preloads"):
                    continue
                attrs[k] = canon(x, depth + 1)
            out["attrs"] = attrs
        return out
    out = {"cls": type(v).__name__}
    for k in ("points", "simplices", "vertices", "regions", "point_region", "ridge_points"):
        if hasattr(v, k):  # scipy.spatial Delaunay / Voronoi
            try:
                out[k] = canon(getattr(v, k), depth + 1)
            except Exception:
                pass
    return out


def fp_value(v) -> str:
    return hashlib.sha1(json.dumps(canon(v), sort_keys=True, default=str).encode()).hexdigest()[:16]


def walk_buffers(roots, max_depth=9):
    """{path: ndarray} for every numpy array reachable from the named roots through __dict__s, lists,
    tuples and dicts (cached_property values live in __dict__ and are therefore included)."""
    out = {}
    seen = set()  # every object / array is visited once, under the first path that reaches it (roots in order)

    def rec(v, path, depth, stack):
        if isinstance(v, np.ndarray):
            if id(v) not in seen:
                seen.add(id(v))
                out[path] = v
            return
        if depth > max_depth or id(v) in seen:
            return
        if not isinstance(v, (int, float, str, bool, type(None))):
            seen.add(id(v))
        if isinstance(v, (list, tuple)):
            if len(v) > 64:
                return
            for i, x in enumerate(v):
                rec(x, f"{path}[{i}]", depth + 1, stack)
            return
        if isinstance(v, dict):
            for i, (k, x) in enumerate(v.items()):
                kk = k if isinstance(k, (str, int)) else f"{type(k).__name__}#{i}"
                rec(x, f"{path}[{kk}]", depth + 1, stack)
            return
        d = getattr(v, "__dict__", None)
        if isinstance(d, dict) and type(v).__module__.split(".")[0] in ("autoarray", "props", "__main__"):
            stack = stack | {id(v)}
            for k, x in list(d.items()):
                if k == "run_time_dict":
                    continue
                rec(x, f"{path}.{k}", depth + 1, stack)

    for name, r in roots.items():
        rec(r, name, 0, frozenset())
    return out


def fp_state(v, depth=0, stack=frozenset()):
    """fingerprint of the whole state of an object (every attribute, cached ones included)."""
    if isinstance(v, np.ndarray):
        return fp_bytes(v)
    if v is None or isinstance(v, (bool, int, float, str, complex, np.generic)):
        return repr(v)
    if depth > 5 or id(v) in stack:
        return "..."
    if isinstance(v, (list, tuple)):
        return [fp_state(x, depth + 1, stack) for x in v[:64]]
    if isinstance(v, dict):
        return [[str(k) if isinstance(k, (str, int)) else type(k).__name__, fp_state(x, depth + 1, stack)]
                for k, x in v.items()]
    d = getattr(v, "__dict__", None)
    if isinstance(d, dict):
        stack = stack | {id(v)}
        return [type(v).__name__, [[k, fp_state(x, depth + 1, stack)] for k, x in d.items() if k != "run_time_dict"]]
    return type(v).__name__


_DEFAULTS = None


def shared_defaults():
    """the module-level default instances shared by every call that omits the argument (mutable default
    arguments: SettingsInversion / Preloads / OverSamplingDataset / DatasetModel ...)."""
    global _DEFAULTS
    if _DEFAULTS is None:
        aa = load_autoarray()
        import inspect
        from autoarray.inversion.inversion import factory
        from autoarray.inversion.inversion import inversion_util
        funcs = [("inversion_from", factory.inversion_from), ("inversion_imaging_from", factory.inversion_imaging_from),
                 ("Imaging", aa.Imaging.__init__), ("Imaging.apply_over_sampling", aa.Imaging.apply_over_sampling),
                 ("FitImaging", aa.FitImaging.__init__), ("MapperValued", aa.MapperValued.__init__),
                 ("reconstruction_positive_only_from", inversion_util.reconstruction_positive_only_from)]
        for cls_name in ("InversionImagingMapping", "InversionImagingWTilde"):
            cls = getattr(aa, cls_name, None)
            if cls is not None:
                funcs.append((cls_name, cls.__init__))
        out = {}
        for name, f in funcs:
            try:
                sig = inspect.signature(f)
            except (TypeError, ValueError):
                continue
            for pn, prm in sig.parameters.items():
                dv = prm.default
                if dv is not inspect.Parameter.empty and type(dv).__module__.split(".")[0] == "autoarray":
                    out[f"{name}({pn}=)"] = dv
        _DEFAULTS = out
        global _DEFAULTS_PRISTINE
        _DEFAULTS_PRISTINE = defaults_state()
    return _DEFAULTS


_DEFAULTS_PRISTINE = None


def defaults_state():
    return {k: hashlib.sha1(json.dumps(fp_state(v), default=str).encode()).hexdigest()[:16]
            for k, v in (_DEFAULTS or {}).items()}


def polluted_defaults():
    """shared default instances whose state differs from the one they had when autoarray was imported
    (an earlier operation in this process wrote into them)."""
    shared_defaults()
    cur = defaults_state()
    return sorted(f"default:{k}" for k, f in _DEFAULTS_PRISTINE.items()
                  if cur.get(k) != f and f"default:{k}" not in _DEFAULTS_REPORTED)


_DEFAULTS_REPORTED = set()  # already attributed to an observed step of an earlier case in this process


class Snapshot:
    def __init__(self, inputs, pool):
        self.inputs = {k: fp_bytes(v) for k, v in inputs.items()}
        shared_defaults()
        self.defaults = defaults_state()
        bufs = walk_buffers({f"obj{i}": o for i, o in enumerate(pool)})
        memo = {}
        self.paths = {}
        for p, a in bufs.items():
            if id(a) not in memo:
                memo[id(a)] = fp_bytes(a)
            self.paths[p] = (id(a), memo[id(a)])
        self._keep = list(bufs.values())  # keep ids alive
        self._by_id = {id(a): a for a in self._keep}

    def owners_changed_since(self, before: "Snapshot", pool, inputs):
        """pool objects owning a changed buffer: for each changed array the lowest pool index from which
        it is reachable (a caller-owned input that is itself a pool object counts as that object)."""
        bad_ids = set()
        for p, (i, f) in before.paths.items():
            cur = self.paths.get(p)
            if cur is not None and cur[1] != f:
                bad_ids.add(cur[0])
        toks = {f"default:{k}" for k, f in before.defaults.items() if self.defaults.get(k) != f}
        for k, f in before.inputs.items():
            if k in self.inputs and self.inputs[k] != f:
                arr = inputs[k]
                idx = [j for j, o in enumerate(pool) if o is arr]
                if idx:
                    bad_ids.add(id(arr))
                else:
                    toks.add(f"input:{k}")
        def base_id(i):
            # a view (e.g. `reconstruction[:n]`) belongs to whoever owns the array it is a view of
            a = self._by_id.get(i)
            while a is not None and isinstance(getattr(a, "base", None), np.ndarray) and id(a.base) in self._by_id:
                a = a.base
            return id(a) if a is not None else i

        for bid in {base_id(i) for i in bad_ids}:
            owners = [int(p[3:].split(".")[0].split("[")[0]) for p, (i, _) in self.paths.items() if i == bid]
            if owners:
                toks.add(f"obj{min(owners)}")
        return sorted(toks)

    def changed_since(self, before: "Snapshot"):
        ch = []
        for k, f in before.inputs.items():
            if k in self.inputs and self.inputs[k] != f:
                ch.append(f"input:{k}")
        for p, (i, f) in before.paths.items():
            # a path that exists before and after the step must hold the same bytes (also when the attribute
            # was rebound to a new array); a path that disappears (cache entry deleted) is not compared
            cur = self.paths.get(p)
            if cur is not None and cur[1] != f:
                ch.append(p)
        for k, f in before.defaults.items():
            if self.defaults.get(k) != f:
                ch.append(f"default:{k}")
                _DEFAULTS_REPORTED.add(f"default:{k}")
        return sorted(ch)


# ==================================================================================================
# object graphs
# ==================================================================================================
def _as_container(a, container):
    """the same numbers as an ndarray of another dtype or as nested Python lists (the public constructors
    accept `Union[np.ndarray, List]`)."""
    if container == "int64":
        return a.astype(np.int64)
    if container == "float32":
        return a.astype(np.float32)
    if container == "list":
        return a.tolist()
    if container == "list_int":
        return a.astype(np.int64).tolist()
    return a


def _arr(vals, shape=None, dtype=float):
    a = np.array([float(Fraction(v)) for v in vals], dtype=dtype)
    return a.reshape(shape) if shape is not None else a


class Graph:
    """pool of objects built stage by stage; `kinds[i]` names the effects-table kind of pool[i],
    `parents[i]` the pool indexes it was built from; `inputs` the caller-owned numpy buffers."""

    def __init__(self, track=True):
        self.track = track  # fingerprint inputs / earlier objects around every constructor stage
        self.pool, self.kinds, self.parents = [], [], []
        self.inputs = {}
        self.ctor_changed = []
        self.n_roots = 0

    def add_input(self, role, arr):
        self.inputs[role] = arr
        return arr

    def stage(self, kind, parents, fn):
        if self.track:
            before = Snapshot(self.inputs, self.pool)
        obj = fn()
        if self.track:
            after = Snapshot(self.inputs, self.pool)
            ch = after.changed_since(before)
            if ch:
                self.ctor_changed.append({"stage": len(self.pool), "kind": kind, "changed": ch})
        self.pool.append(obj)
        self.kinds.append(kind)
        self.parents.append(list(parents))
        self.n_roots = len(self.pool)
        return obj


class StopBuild(Exception):
    pass


def build_graph(b, upto=None, track=True) -> Graph:
    """deterministic builder: equal spec -> equal (fresh) object graph.  `upto` = build only the stages
    needed for pool[upto]."""
    aa = load_autoarray()
    g = Graph(track=track)

    def done():
        return upto is not None and len(g.pool) > upto

    kind = b["graph"]
    scales = tuple(float(Fraction(s)) for s in b.get("scales", ["1", "1"]))
    origin = tuple(float(Fraction(s)) for s in b.get("origin", ["0", "0"]))
    try:
        if kind == "visibilities":
            vals = np.array([complex(float(Fraction(a)), float(Fraction(c))) for a, c in b["values"]])
            g.add_input("values", vals)
            g.stage("Buffer", [], lambda: vals)
            if done():
                raise StopBuild
            g.stage("Visibilities", [0], lambda: aa.Visibilities(visibilities=vals))
            raise StopBuild
        m = mask_from_json(b["mask"])
        h, w = m.shape
        g.add_input("mask", m)
        g.stage("Buffer", [], lambda: m)                                            # 0
        if done():
            raise StopBuild
        if kind == "structure" and b["struct"] == "Mask2D":
            g.stage("Mask2D", [0], lambda: aa.Mask2D(mask=m, pixel_scales=scales, origin=origin))
            raise StopBuild
        mask = g.stage("Mask2D", [0], lambda: aa.Mask2D(mask=m, pixel_scales=scales, origin=origin))  # 1
        if done():
            raise StopBuild
        if kind == "structure":
            st = b["struct"]
            form, sn = b["form"], b["store_native"]
            n_un = int((~m).sum())
            if st in ("Array2D", "Kernel2D"):
                vals = _arr(b["values"], (h, w) if form == "native" else None)
            else:
                vals = np.array([[float(Fraction(a)), float(Fraction(c))] for a, c in b["values"]],
                                dtype=float).reshape(-1, 2)
                if form == "native":
                    vals = vals.reshape(h, w, 2)
            vals = _as_container(vals, b.get("container", "ndarray"))
            use_no_mask = b.get("ctor") == "no_mask"
            g.add_input("values", vals)
            g.stage("Buffer", [], lambda: vals)                                      # 2
            if done():
                raise StopBuild
            if st == "Array2D" and use_no_mask:
                # alternative constructor of the same functionality (the mask is all-unmasked)
                g.stage("Array2D", [1, 2], lambda: aa.Array2D.no_mask(values=vals, pixel_scales=scales,
                                                                       shape_native=(h, w), origin=origin))
            elif st == "Array2D":
                g.stage("Array2D", [1, 2], lambda: aa.Array2D(values=vals, mask=mask, store_native=sn))
            elif st == "Kernel2D" and use_no_mask:
                g.stage("Kernel2D", [1, 2], lambda: aa.Kernel2D.no_mask(values=vals, pixel_scales=scales,
                                                                         shape_native=(h, w), origin=origin,
                                                                         normalize=b.get("normalize", False)))
            elif st == "Kernel2D":
                g.stage("Kernel2D", [1, 2], lambda: aa.Kernel2D(values=vals, mask=mask, store_native=sn,
                                                                 normalize=b.get("normalize", False)))
            elif st == "Grid2D" and use_no_mask:
                ov = aa.OverSamplingUniform(sub_size=b.get("sub", 1)) if b.get("sub") else None
                g.stage("Grid2D", [1, 2], lambda: aa.Grid2D.no_mask(values=vals, pixel_scales=scales,
                                                                     shape_native=(h, w), origin=origin,
                                                                     over_sampling=ov))
            elif st == "Grid2D":
                ov = aa.OverSamplingUniform(sub_size=b.get("sub", 1)) if b.get("sub") else None
                g.stage("Grid2D", [1, 2], lambda: aa.Grid2D(values=vals, mask=mask, store_native=sn,
                                                             over_sampling=ov))
            elif st == "VectorYX2D":
                gv = np.array([[float(Fraction(a)), float(Fraction(c))] for a, c in b["grid_values"]],
                              dtype=float).reshape(-1, 2)
                if form == "native":
                    gv = gv.reshape(h, w, 2)
                g.add_input("grid_values", gv)
                g.stage("VectorYX2D", [1, 2], lambda: aa.VectorYX2D(values=vals, grid=gv, mask=mask,
                                                                     store_native=sn))
            else:
                raise ValueError(st)
            raise StopBuild
        # ---------------------------------------------------------------- dataset / inversion graphs
        data_n = g.add_input("data", _as_container(_arr(b["data"], (h, w)), b.get("container", "ndarray")))
        noise_n = g.add_input("noise", _arr(b["noise"], (h, w)))
        kh, kw = b["psf_shape"]
        psf_n = g.add_input("psf", _arr(b["psf"], (kh, kw)))
        g.stage("Buffer", [], lambda: data_n)                                        # 2
        if done():
            raise StopBuild
        g.stage("Buffer", [], lambda: noise_n)                                       # 3
        if done():
            raise StopBuild
        g.stage("Buffer", [], lambda: psf_n)                                         # 4
        if done():
            raise StopBuild
        def mk_arr(vals_n):
            if b.get("ds_store_native"):
                # both settings of the storage flag: natively stored data / noise-map handed to the dataset
                mk0 = aa.Mask2D.all_false(shape_native=(h, w), pixel_scales=scales, origin=origin)
                return aa.Array2D(values=vals_n, mask=mk0, store_native=True)
            return aa.Array2D.no_mask(values=vals_n, pixel_scales=scales, origin=origin)

        data = g.stage("Array2D", [2], lambda: mk_arr(data_n))  # 5
        if done():
            raise StopBuild
        noise = g.stage("Array2D", [3], lambda: mk_arr(noise_n))  # 6
        if done():
            raise StopBuild
        psf = g.stage("Kernel2D", [4], lambda: aa.Kernel2D.no_mask(values=psf_n, pixel_scales=scales))  # 7
        if done():
            raise StopBuild
        sub = b.get("sub", 1)
        ovs_ds = aa.OverSamplingDataset(uniform=aa.OverSamplingUniform(sub_size=sub),
                                        pixelization=aa.OverSamplingUniform(sub_size=b.get("sub_pix", 1)))
        ds0 = g.stage("Imaging", [5, 6, 7], lambda: aa.Imaging(
            data=data, noise_map=noise, psf=psf, over_sampling=ovs_ds,
            use_normalized_psf=b.get("normalize_psf", True)))                        # 8
        if done():
            raise StopBuild
        ds = g.stage("Imaging", [8, 1], lambda: ds0.apply_mask(mask=mask))           # 9
        if done():
            raise StopBuild
        md = g.add_input("model_data", _arr(b["model"], None))
        g.stage("Buffer", [], lambda: md)                                            # 10
        if done():
            raise StopBuild
        model_data = aa.Array2D(values=md, mask=mask)
        fit_cls = _fit_class(aa)
        g.stage("FitImaging", [9, 10], lambda: fit_cls(dataset=ds, model_data=model_data,
                                                        use_mask_in_fit=b.get("use_mask_in_fit", False)))  # 11
        if done() or kind == "dataset":
            raise StopBuild
        # ---------------------------------------------------------------- inversion
        sub_pix = b.get("sub_pix", 1)
        ovs = g.stage("OverSampler", [1], lambda: aa.OverSamplerUniform(mask=mask, sub_size=sub_pix))  # 12
        if done():
            raise StopBuild
        # source-plane grid: the over-sampled image grid pushed through a fixed smooth distortion
        a11, a12, a21, a22 = (float(Fraction(s)) for s in b.get("distort", ["1", "0", "0", "1"]))

        def mk_grid():
            gr = np.array(ovs.over_sampled_grid.array)
            out = np.stack([a11 * gr[:, 0] + a12 * gr[:, 1], a21 * gr[:, 0] + a22 * gr[:, 1]], axis=-1)
            return aa.Grid2DIrregular(values=out)

        sgrid = g.stage("Grid2DIrregular", [12], mk_grid)                            # 13
        if done():
            raise StopBuild
        mappers = []
        for mi, ms in enumerate(b["mappers"]):
            def mk_mesh(ms=ms):
                if ms["mesh"] == "rect":
                    return aa.Mesh2DRectangular.overlay_grid(grid=sgrid, shape_native=tuple(ms["shape"]))
                pts = np.array([[float(Fraction(a)), float(Fraction(c))] for a, c in ms["points"]])
                return aa.Mesh2DDelaunay(values=pts)

            mesh = g.stage("Mesh", [13], mk_mesh)
            if done():
                raise StopBuild
            mesh_idx = len(g.pool) - 1

            def mk_mapper(ms=ms, mesh=mesh):
                mg = aa.MapperGrids(mask=mask, source_plane_data_grid=sgrid, source_plane_mesh_grid=mesh,
                                    image_plane_mesh_grid=None, adapt_data=None)
                reg = None
                if ms.get("reg") == "constant":
                    reg = aa.reg.Constant(coefficient=float(Fraction(ms.get("coeff", "1"))))
                elif ms.get("reg") == "zeroth":
                    reg = aa.reg.ConstantZeroth(coefficient_neighbor=float(Fraction(ms.get("coeff", "1"))),
                                                coefficient_zeroth=0.5)
                cls = aa.MapperRectangular if ms["mesh"] == "rect" else aa.MapperDelaunay
                return cls(mapper_grids=mg, over_sampler=ovs, border_relocator=None, regularization=reg)

            mappers.append(g.stage("Mapper", [1, 13, mesh_idx, 12], mk_mapper))
            if done():
                raise StopBuild
        mapper_idx = [i for i, k in enumerate(g.kinds) if k == "Mapper"]
        settings = aa.SettingsInversion(use_w_tilde=b.get("w_tilde", False),
                                        use_positive_only_solver=b.get("positive_only", False),
                                        no_regularization_add_to_curvature_diag_value=1.0)
        inv = g.stage("Inversion", [9] + mapper_idx, lambda: aa.Inversion(
            dataset=ds, linear_obj_list=list(mappers), settings=settings))
        if done():
            raise StopBuild
        inv_idx = len(g.pool) - 1
        g.stage("FitInversion", [9, inv_idx], lambda: fit_cls(
            dataset=ds, model_data=None, inversion=inv, use_mask_in_fit=b.get("use_mask_in_fit", False)))
        if done():
            raise StopBuild
        mv = b.get("valued")
        if mv:
            pm = np.array([c == "1" for c in mv["pixel_mask"]], dtype=bool) if mv.get("pixel_mask") else None
            if pm is not None:
                g.add_input("mesh_pixel_mask", pm)
            mv_kind = mv_kind_of(mv)
            if mv["values"] == "reconstruction":
                def mk_mv():
                    # the usual use: the valued mapper is handed the inversion's (cached) reconstruction
                    try:
                        rec = inv.reconstruction
                    except Exception:
                        rec = np.zeros(sum(mp.params for mp in mappers))
                    if len(mappers) > 1:
                        rec = rec[: mappers[0].params]
                    return aa.MapperValued(mapper=mappers[0], values=rec, mesh_pixel_mask=pm)

                g.stage(mv_kind, [mapper_idx[0], inv_idx], mk_mv)
            else:
                vals = g.add_input("mv_values", _arr(mv["values"], None))
                g.stage("Buffer", [], lambda: vals)
                if done():
                    raise StopBuild
                g.stage(mv_kind, [mapper_idx[0], len(g.pool) - 1], lambda: aa.MapperValued(
                    mapper=mappers[0], values=vals, mesh_pixel_mask=pm))
    except StopBuild:
        pass
    return g


def mv_kind_of(mv):
    """effects-table kind of a valued mapper: without a mesh_pixel_mask every operation is pure; with one,
    `values_masked` (and everything built on it) writes into the values it was given — a caller-owned
    buffer or the inversion's cached reconstruction (known finding D9b)."""
    if not mv.get("pixel_mask"):
        return "MapperValued"
    return "MapperValuedMaskedRec" if mv["values"] == "reconstruction" else "MapperValuedMaskedBuf"


_FIT = None


def _fit_class(aa):
    global _FIT
    if _FIT is None:
        class FitC11(aa.FitImaging):
            def __init__(self, dataset, model_data, inversion=None, use_mask_in_fit=False):
                super().__init__(dataset=dataset, use_mask_in_fit=use_mask_in_fit)
                self._model_data = model_data
                self._inversion = inversion

            @property
            def model_data(self):
                if self._model_data is None and self._inversion is not None:
                    return self._inversion.mapped_reconstructed_data
                return self._model_data

            @property
            def inversion(self):
                return self._inversion

        _FIT = FitC11
    return _FIT


# ==================================================================================================
# operations: reads, queries, derivations
# ==================================================================================================
def do_read(obj, key):
    """dotted attribute path; a trailing component `name()` calls a zero-argument method."""
    if key == "bytes" and isinstance(obj, np.ndarray):
        return obj
    v = obj
    for part in key.split("."):
        if part.endswith("()"):
            v = getattr(v, part[:-2])()
        else:
            v = getattr(v, part)
    return v


def _shape_arg(s):
    a, b_ = s.split("x")
    return (int(a), int(b_))


def do_query(obj, kind, name, arg, build, track=None):
    """query methods with arguments; every array argument is created here (caller-owned, fresh) and
    registered in `track` (name -> (array, fingerprint at creation)) so the caller can check it afterwards."""
    aa = load_autoarray()

    def own(nm, a):
        if track is not None:
            track[nm] = (a, fp_bytes(a))
        return a

    if name == "blurring_from":
        return obj.derive_mask.blurring_from(kernel_shape_native=_shape_arg(arg))
    if name == "sub_mask":
        return obj.derive_mask.sub_1 if hasattr(obj.derive_mask, "sub_1") else obj.derive_mask.all_false
    if name == "distances_to_coordinate_from":
        y, x = (float(Fraction(s)) for s in arg.split(","))
        return obj.distances_to_coordinate_from(coordinate=(y, x))
    if name == "squared_distances_to_coordinate_from":
        y, x = (float(Fraction(s)) for s in arg.split(","))
        return obj.squared_distances_to_coordinate_from(coordinate=(y, x))
    if name == "extent_with_buffer_from":
        return obj.extent_with_buffer_from(buffer=float(Fraction(arg)))
    if name == "convolved_array_from":
        # obj: Kernel2D; convolve the build's data image (fresh caller array)
        h, w = build["mask"]["h"], build["mask"]["w"]
        src = build.get("data") or build.get("image")
        vals = own("image", _arr(src, (h, w)) if src else np.arange(1.0, h * w + 1.0).reshape(h, w))
        arr = aa.Array2D.no_mask(values=vals, pixel_scales=obj.pixel_scales)
        own("image_array2d", arr._array)
        return obj.convolved_array_from(array=arr)
    if name == "trimmed_array_from":
        return obj.trimmed_array_from(padded_array=own("padded", np.ones(obj.shape_native)), image_shape=_shape_arg(arg))
    if name == "max_pixel_list_from":
        tot, filt = arg.split(",")
        return obj.max_pixel_list_from(total_pixels=int(tot), filter_neighbors=filt == "1")
    if name == "interpolated_array_from":
        return obj.interpolated_array_from(shape_native=_shape_arg(arg))
    if name == "mapped_reconstructed_image_from":
        return obj.mapped_reconstructed_image_from()
    if name == "magnification_via_interpolation_from":
        return obj.magnification_via_interpolation_from(shape_native=_shape_arg(arg))
    if name == "regularization_weights_from":
        return obj.regularization_weights_from(index=int(arg))
    if name == "pixel_signals_from":
        return obj.pixel_signals_from(signal_scale=float(Fraction(arg)))
    if name == "mapped_to_source_from":
        n = obj.mapper_grids.mask.pixels_in_mask
        arr = aa.Array2D(values=own("array_values", np.arange(1.0, n + 1.0)), mask=obj.mapper_grids.mask)
        own("array", arr._array)
        return obj.mapped_to_source_from(array=arr)
    if name == "mapper_interpolated_array_from":
        vals = own("values", np.arange(1.0, obj.params + 1.0))
        return obj.interpolated_array_from(values=vals, shape_native=_shape_arg(arg))
    if name == "source_quantity_dict_from":
        return obj.source_quantity_dict_from(source_quantity=obj.reconstruction)
    if name == "convolve_mapping_matrix":
        mm = own("mapping_matrix", np.array(obj.linear_obj_list[0].mapping_matrix))
        return obj.convolver.convolve_mapping_matrix(mapping_matrix=mm)
    if name == "binned_array_2d_from":
        n = obj.sub_total
        return obj.binned_array_2d_from(array=own("array", np.arange(1.0, n + 1.0)))
    raise ValueError(f"unknown query {name}")


def _submask(build, idx, shape=None):
    aa = load_autoarray()
    sm = build["submasks"][idx]
    return mask_from_json(sm)


def do_derive(obj, kind, g, build):
    """apply derivation g ("how" or "how:arg"); returns the derived object."""
    aa = load_autoarray()
    how, _, arg = g.partition(":")
    if how == "mul":
        return obj * float(Fraction(arg))
    if how == "rmul":
        return float(Fraction(arg)) * obj
    if how == "add":
        return obj + float(Fraction(arg))
    if how == "sub":
        return obj - float(Fraction(arg))
    if how == "rsub":
        return float(Fraction(arg)) - obj
    if how == "div":
        return obj / float(Fraction(arg))
    if how == "neg":
        return -obj
    if how == "abs":
        return abs(obj)
    if how == "pow":
        return obj ** int(arg)
    if how == "add_self":
        return obj + obj
    if how == "mul_array":
        return obj * np.full(np.shape(obj.array), float(Fraction(arg)))
    if how == "slice":
        a, b_ = arg.split(",")
        return obj[int(a):int(b_)]
    if how == "copy":
        return obj.copy()
    if how == "copy_copy":
        import copy as _copy
        return _copy.copy(obj)
    if how == "deepcopy":
        import copy as _copy
        return _copy.deepcopy(obj)
    if how == "astype":
        return obj.astype(arg)
    if how == "real":
        return obj.real
    if how == "conj_like":
        return obj * (1 - 0j) if np.iscomplexobj(obj.array) else obj * 1.0
    if how == "rewrap":
        if kind == "Grid2D":
            return aa.Grid2D(values=obj, mask=obj.mask, over_sampling=obj.over_sampling)
        return type(obj)(values=obj, mask=obj.mask)
    if how == "native":
        return obj.native
    if how == "slim":
        return obj.slim
    if how == "flipped":
        return obj.flipped
    if how == "in_radians":
        return obj.in_radians
    if how == "subtracted_from":
        y, x = (float(Fraction(s)) for s in arg.split(","))
        return obj.subtracted_from(offset=(y, x))
    if how == "deflected":
        return obj.grid_2d_via_deflection_grid_from(deflection_grid=obj * float(Fraction(arg)))
    if how == "padded_grid_from":
        return obj.padded_grid_from(kernel_shape=_shape_arg(arg))
    if how == "normalized":
        return obj.normalized
    if how == "rescaled_odd":
        return obj.rescaled_with_odd_dimensions_from(rescale_factor=float(Fraction(arg)))
    if how == "apply_mask":
        m = _submask(build, int(arg))
        mk = aa.Mask2D(mask=m, pixel_scales=obj.mask.pixel_scales, origin=obj.mask.origin)
        return obj.apply_mask(mask=mk)
    if how == "trimmed":
        return obj.trimmed_after_convolution_from(kernel_shape=_shape_arg(arg))
    if how == "padded":
        return obj.padded_before_convolution_from(kernel_shape=_shape_arg(arg))
    if how == "resized":
        return obj.resized_from(new_shape=_shape_arg(arg))
    if how == "zoomed":
        return obj.zoomed_around_mask(buffer=int(arg))
    if how == "rescaled":
        return obj.rescaled_from(rescale_factor=float(Fraction(arg)))
    if how == "mask_resized":
        return obj.resized_from(new_shape=_shape_arg(arg))
    if how == "derive_mask":
        return getattr(obj.derive_mask, arg)
    if how == "apply_over_sampling":
        s_u, s_p = (int(s) for s in arg.split(","))
        return obj.apply_over_sampling(over_sampling=aa.OverSamplingDataset(
            uniform=aa.OverSamplingUniform(sub_size=s_u), pixelization=aa.OverSamplingUniform(sub_size=s_p)))
    if how == "apply_noise_scaling":
        m = _submask(build, int(arg))
        mk = aa.Mask2D(mask=m, pixel_scales=obj.mask.pixel_scales, origin=obj.mask.origin)
        return obj.apply_noise_scaling(mask=mk, noise_value=64.0)
    raise ValueError(f"unknown derivation {g}")


def deriv_class(kind, g):
    how = g.partition(":")[0]
    return f"{kind}.{how}"


def result_kind(kind, g):
    how = g.partition(":")[0]
    rk = effects()["kinds"][kind]["derive"].get(how, {}).get("result")
    return rk or kind


# ---- independent statement of the cached quantities, from the object's own array (numpy only) -------
def direct_expectation(obj, kind, key):
    """value of a quantity computed here from the object's own contents, or None if not stated."""
    try:
        if kind == "Visibilities" and key == "amplitudes":
            a = np.asarray(obj.array)
            return np.sqrt(np.square(a.real) + np.square(a.imag))
        if kind == "Visibilities" and key == "phases":
            a = np.asarray(obj.array)
            return np.arctan2(a.imag, a.real)
        if kind == "Visibilities" and key == "in_array":
            a = np.asarray(obj.array)
            return np.stack((np.real(a), np.imag(a)), axis=-1)
    except Exception:
        return None
    return None


def rebuild(obj, kind):
    """a brand-new object constructed through the public constructor from `obj`'s own array and mask
    (its *contents*); None when the kind has no such constructor or the contents are not a valid input."""
    aa = load_autoarray()
    try:
        if kind == "Visibilities":
            return aa.Visibilities(visibilities=np.array(obj.array))
        if kind == "Mask2D":
            return aa.Mask2D(mask=np.array(obj.array), pixel_scales=obj.pixel_scales, origin=obj.origin)
        if kind == "Array2D":
            return aa.Array2D(values=np.array(obj.array), mask=obj.mask, header=obj.header,
                              store_native=obj.store_native)
        if kind == "Grid2D":
            return aa.Grid2D(values=np.array(obj.array), mask=obj.mask,
                             store_native=len(np.shape(obj.array)) == 3,
                             over_sampling=obj.over_sampling,
                             over_sampling_non_uniform=obj.over_sampling_non_uniform)
        if kind == "Imaging":
            return aa.Imaging(data=obj.data, noise_map=obj.noise_map, psf=obj.psf,
                              noise_covariance_matrix=obj.noise_covariance_matrix,
                              over_sampling=obj.over_sampling, use_normalized_psf=False,
                              check_noise_map=False)
    except Exception:
        return None
    return None


def _same_contents(rb, obj, kind):
    try:
        if kind == "Imaging":
            return True
        return fp_bytes(np.asarray(rb.array)) == fp_bytes(np.asarray(obj.array))
    except Exception:
        return False


def safe_value(fn):
    try:
        return fp_value(fn())
    except Skip:
        raise
    except Exception as e:
        return f"err:{type(e).__name__}"


# ==================================================================================================
# running a history
# ==================================================================================================
def term_key(root, path):
    return f"{root}|{'/'.join(path)}"


class FreshEval:
    """value of (key) on a freshly built equal object described by a contents term."""

    _shared = {}  # build-key -> memo; the same fresh value serves the oracle and the model's interpretation

    def __init__(self, build):
        self.build = build
        bk = hashlib.sha1(json.dumps(build, sort_keys=True).encode()).hexdigest()
        if bk not in FreshEval._shared:
            if len(FreshEval._shared) > 4000:
                FreshEval._shared.clear()
            FreshEval._shared[bk] = {}
        self.memo = FreshEval._shared[bk]

    def obj(self, root, path):
        g = build_graph(self.build, upto=root, track=False)
        o, kind = g.pool[root], g.kinds[root]
        for gname in path:
            o = do_derive(o, kind, gname, self.build)
            kind = result_kind(kind, gname)
        return o, kind

    def value(self, root, path, step):
        k = (root, tuple(path), step["op"], step.get("key"), step.get("name"), step.get("arg"))
        if k not in self.memo:
            try:
                o, kind = self.obj(root, path)
            except Exception as e:
                self.memo[k] = "err:failed-derivation"
                return self.memo[k]
            if step["op"] == "read":
                self.memo[k] = safe_value(lambda: do_read(o, step["key"]))
            else:
                self.memo[k] = safe_value(lambda: do_query(o, kind, step["name"], step.get("arg", ""), self.build))
        return self.memo[k]


def run_history(case):
    b = case["build"]
    pre = polluted_defaults()
    try:
        g = build_graph(b)
    except Exception as e:
        # a constructor that rejects a (degenerate) input is outside this property
        raise Skip(f"graph cannot be built: {type(e).__name__}: {str(e)[:80]}")
    if pre:
        g.ctor_changed.insert(0, {"stage": -1, "kind": "(state left by earlier operations in this process)",
                                  "changed": pre})
    terms = [(i, []) for i in range(len(g.pool))]
    fresh = FreshEval(b)
    steps_out = []
    poked = set()
    snap = Snapshot(g.inputs, g.pool)
    for st in case["history"]:
        o = st["obj"]
        if o >= len(g.pool):
            steps_out.append({"value": "err:no-object", "changed": []})
            continue
        obj, kind = g.pool[o], g.kinds[o]
        out = {}
        if kind == "Failed":
            # the derivation that should have produced this object raised (in the fresh world it must too)
            root, path = terms[o]
            if st["op"] == "derive":
                g.pool.append(None)
                g.kinds.append("Failed")
                g.parents.append([])
                terms.append((root, path + [st["g"]]))
                out["value"] = None
            else:
                out["value"] = "err:failed-derivation"
                out["fresh"] = fresh.value(root, path, st)
        elif st["op"] == "read":
            holder = {}

            def rd():
                holder["v"] = do_read(obj, st["key"])
                return holder["v"]

            out["value"] = safe_value(rd)
            root, path = terms[o]
            out["fresh"] = out["value"] if o in poked else fresh.value(root, path, st)
            if path and "v" in holder:
                # derived object: consistency with its own contents, stated independently
                exp = direct_expectation(obj, kind, st["key"])
                if exp is not None:
                    out["direct"] = bool(fp_value(exp) == fp_value(holder["v"]))
                rb = rebuild(obj, kind)
                # only when the constructor takes the derived object's array as it is (a derivation may leave
                # values in masked cells which the constructor would normalise to zero)
                if rb is not None and _same_contents(rb, obj, kind):
                    rbv = safe_value(lambda: do_read(rb, st["key"]))
                    out["rebuilt"] = rbv
        elif st["op"] == "query":
            qargs = {}
            out["value"] = safe_value(lambda: do_query(obj, kind, st["name"], st.get("arg", ""), b, track=qargs))
            out["_qargs_changed"] = sorted(f"input:query-arg:{nm}" for nm, (a, f0) in qargs.items() if fp_bytes(a) != f0)
            root, path = terms[o]
            out["fresh"] = fresh.value(root, path, st)
        elif st["op"] == "poke":
            # the CALLER rewrites its own input array after construction: constructors declared to copy their
            # argument must be unaffected (every later read is still compared with the fresh-object value)
            if isinstance(obj, np.ndarray):
                if obj.dtype == bool:
                    obj[...] = ~obj
                else:
                    np.multiply(obj, 2, out=obj, casting="unsafe")
                    np.add(obj, 1, out=obj, casting="unsafe")
                poked.add(o)
            out["value"] = None
            snap = Snapshot(g.inputs, g.pool)  # new baseline: the caller's own write is not the library's
        elif st["op"] == "derive":
            try:
                new = do_derive(obj, kind, st["g"], b)
                ok = True
            except Exception as e:
                new, ok = None, False
                out["value"] = None
            if ok:
                g.pool.append(new)
                g.kinds.append(result_kind(kind, st["g"]))
                g.parents.append(list(g.parents[o]))
                root, path = terms[o]
                terms.append((root, path + [st["g"]]))
                out["value"] = None
            else:
                # keep indexes aligned: a failed derivation still occupies a pool slot (never used)
                g.pool.append(None)
                g.kinds.append("Failed")
                g.parents.append([])
                terms.append((terms[o][0], terms[o][1] + [st["g"]]))
        after = Snapshot(g.inputs, g.pool)
        qch = out.pop("_qargs_changed", [])
        out["changed"] = sorted(after.changed_since(snap) + qch)
        out["owners"] = sorted(after.owners_changed_since(snap, g.pool, g.inputs) + qch)
        snap = after
        steps_out.append(out)
    meta = {"kinds": g.kinds[: g.n_roots], "parents": g.parents[: g.n_roots],
            "terms": [[r, p] for r, p in terms]}
    return {"ctor": g.ctor_changed, "steps": steps_out, "_meta": meta}


# ==================================================================================================
# seeded simulation
# ==================================================================================================
def run_rng(case):
    aa = load_autoarray()
    b = case["build"]
    h, w = b["shape"]
    scales = tuple(float(Fraction(s)) for s in b.get("scales", ["1", "1"]))
    img_n = _arr(b["image"], (h, w))
    psf_n = _arr(b["psf"], tuple(b["psf_shape"])) if b.get("psf") else None
    inputs = {"image": img_n}
    if psf_n is not None:
        inputs["psf"] = psf_n
    image = aa.Array2D.no_mask(values=img_n, pixel_scales=scales)
    psf = aa.Kernel2D.no_mask(values=psf_n, pixel_scales=scales) if psf_n is not None else None
    before = Snapshot(inputs, [image, psf])
    fps = []
    state0 = np.random.get_state()
    try:
        for st in case["history"]:
            if st["op"] == "reseed":
                np.random.seed(st["j"])
                fps.append(None)
            elif st["op"] == "draw":
                np.random.random(st["n"])
                fps.append(None)
            elif b.get("func", "simulator") != "simulator":
                from autoarray.dataset import preprocess
                fn = b["func"]
                expo = np.full((h, w), float(Fraction(b["exposure_time"])))
                if fn == "poisson_noise_via_data_eps_from":
                    out = preprocess.poisson_noise_via_data_eps_from(data_eps=img_n, exposure_time_map=expo,
                                                                     seed=st["seed"])
                elif fn == "data_eps_with_poisson_noise_added":
                    out = preprocess.data_eps_with_poisson_noise_added(data_eps=img_n, exposure_time_map=expo,
                                                                       seed=st["seed"])
                elif fn == "gaussian_noise_via_shape_and_sigma_from":
                    out = preprocess.gaussian_noise_via_shape_and_sigma_from(shape=(h, w), sigma=0.5, seed=st["seed"])
                elif fn == "data_with_gaussian_noise_added":
                    out = preprocess.data_with_gaussian_noise_added(data=img_n, sigma=0.5, seed=st["seed"])
                elif fn == "data_with_complex_gaussian_noise_added":
                    out = preprocess.data_with_complex_gaussian_noise_added(
                        data=img_n.ravel() + 1j * img_n.ravel()[::-1], sigma=0.5, seed=st["seed"])
                else:
                    raise ValueError(fn)
                fps.append(fp_value(np.asarray(out)))
            else:
                sim = aa.SimulatorImaging(
                    exposure_time=float(Fraction(b["exposure_time"])),
                    background_sky_level=float(Fraction(b["background_sky_level"])),
                    psf=psf, normalize_psf=b.get("normalize_psf", True),
                    add_poisson_noise_to_data=b.get("add_noise", True),
                    include_poisson_noise_in_noise_map=b.get("noise_in_map", True),
                    noise_seed=st["seed"])
                ds = sim.via_image_from(image=image)
                fps.append(fp_value([np.asarray(ds.data.native.array), np.asarray(ds.noise_map.native.array),
                                     np.asarray(ds.psf.native.array)]))
    finally:
        np.random.set_state(state0)
    after = Snapshot(inputs, [image, psf])
    return {"labels": _labels(fps), "fps": fps, "changed": after.changed_since(before)}


def _labels(xs):
    """equality pattern: index of first occurrence (None stays None)."""
    first, out = {}, []
    for i, x in enumerate(xs):
        if x is None:
            out.append(None)
            continue
        key = json.dumps(x)
        first.setdefault(key, len(first))
        out.append(first[key])
    return out


# ==================================================================================================
# generators
# ==================================================================================================
def _dy(rng, lo=-8, hi=8, bits=2):
    d = 1 << bits
    return Fraction(rng.randint(lo * d, hi * d), d)


def _pos(rng, lo=1, hi=8, bits=2):
    d = 1 << bits
    return Fraction(rng.randint(lo * d, hi * d), d)


def _scales(rng):
    return [q(rng.choice([Fraction(1), Fraction(1, 2), Fraction(2), Fraction(3, 4)])),
            q(rng.choice([Fraction(1), Fraction(1, 2), Fraction(2), Fraction(5, 4)]))]


def _origin(rng):
    return [q(rng.choice([0, 0, Fraction(1, 2), -1, Fraction(3, 2)])), q(rng.choice([0, 0, -Fraction(1, 2), 2]))]


def _rand_submask(rng, m):
    """a mask with fewer (>=1) unmasked pixels than m (more True)."""
    un = [(y, x) for y in range(len(m)) for x in range(len(m[0])) if not m[y][x]]
    if not un:
        return [list(r) for r in m]
    keep = set(rng.sample(un, max(1, len(un) - rng.randint(1, max(1, len(un) // 2)))))
    return [[not ((y, x) in keep) for x in range(len(m[0]))] for y in range(len(m))]


def struct_build(rng, struct, m, form=None, store_native=None, uniform=None):
    h, w = len(m), len(m[0])
    n_un = sum(1 for r in m for v in r if not v)
    form = form or rng.choice(["slim", "native"])
    sn = rng.random() < 0.5 if store_native is None else store_native
    n = h * w if form == "native" else n_un
    b = {"graph": "structure", "struct": struct, "mask": mask_json(m), "scales": _scales(rng),
         "origin": _origin(rng), "form": form, "store_native": sn,
         "submasks": [mask_json(_rand_submask(rng, m)) for _ in range(2)]}
    # round-3 hardening: ~35 % of the structures are built from integer / float32 ndarrays or Python lists,
    # and all-unmasked ones partly through the `no_mask` classmethods
    r = rng.random()
    cont = ("ndarray" if r < 0.65 else "int64" if r < 0.75 else "list" if r < 0.85 else "list_int" if r < 0.92
            else "float32")
    if n == 0:
        cont = "ndarray"  # an empty Python list cannot carry the (0, 2) shape of an empty grid
    b["container"] = cont
    ints = cont in ("int64", "list_int")
    if n_un == h * w and struct in ("Array2D", "Kernel2D", "Grid2D") and rng.random() < 0.4:
        b["ctor"] = "no_mask"
    if struct in ("Array2D", "Kernel2D"):
        vals = [Fraction(rng.randint(-8, 8)) for _ in range(n)] if ints else [_dy(rng) for _ in range(n)]
        if struct == "Kernel2D":
            vals = [abs(v) + (1 if ints else Fraction(1, 4)) for v in vals]
            b["normalize"] = rng.random() < 0.5
        b["values"] = [q(v) for v in vals]
    else:
        if ints:
            uniform = False
        if struct == "Grid2D" and (uniform if uniform is not None else rng.random() < 0.5):
            sy, sx = Fraction(b["scales"][0]), Fraction(b["scales"][1])
            oy, ox = Fraction(b["origin"][0]), Fraction(b["origin"][1])
            cells = [(y, x) for y in range(h) for x in range(w) if form == "native" or not m[y][x]]
            pts = [(-(Fraction(y) - Fraction(h - 1, 2)) * sy + oy, (Fraction(x) - Fraction(w - 1, 2)) * sx + ox)
                   for (y, x) in cells]
        elif ints:
            pts = [(Fraction(rng.randint(-8, 8)), Fraction(rng.randint(-8, 8))) for _ in range(n)]
        else:
            pts = [(_dy(rng), _dy(rng)) for _ in range(n)]
        b["values"] = [[q(a), q(c)] for a, c in pts]
        if struct == "Grid2D":
            b["sub"] = rng.choice([0, 1, 2])
        if struct == "VectorYX2D":
            b["grid_values"] = [[q(_dy(rng)), q(_dy(rng))] for _ in range(n)]
    return b


def dataset_build(rng, m, inversion=False, d9b=False):
    h, w = len(m), len(m[0])
    n_un = sum(1 for r in m for v in r if not v)
    kh, kw = rng.choice([(1, 1), (3, 3), (1, 3), (3, 1), (3, 3)])
    b = {"graph": "inversion" if inversion else "dataset", "mask": mask_json(m), "scales": _scales(rng),
         "origin": _origin(rng),
         "data": [q(_dy(rng, -2, 8)) for _ in range(h * w)],
         "noise": [q(_pos(rng, 1, 4)) for _ in range(h * w)],
         "psf_shape": [kh, kw], "psf": [q(_pos(rng, 0, 4) + Fraction(1, 4)) for _ in range(kh * kw)],
         "model": [q(_dy(rng, -2, 8)) for _ in range(n_un)],
         "sub": rng.choice([1, 2]), "sub_pix": rng.choice([1, 2]),
         "normalize_psf": rng.random() < 0.7, "use_mask_in_fit": rng.random() < 0.3,
         "ds_store_native": rng.random() < 0.35,
         "submasks": [mask_json(_rand_submask(rng, m)) for _ in range(2)]}
    if inversion:
        nm = rng.choice([1, 1, 2])
        mappers = []
        for i in range(nm):
            if rng.random() < 0.75:
                mappers.append({"mesh": "rect", "shape": [rng.choice([2, 3]), rng.choice([2, 3])],
                                "reg": rng.choice(["constant", "constant", "zeroth"]),
                                "coeff": q(_pos(rng, 1, 4))})
            else:
                pts = set()
                while len(pts) < 6:
                    pts.add((_dy(rng, -3, 3, 3), _dy(rng, -3, 3, 3)))
                mappers.append({"mesh": "delaunay", "points": [[q(a), q(c)] for a, c in sorted(pts)],
                                "reg": "constant", "coeff": q(_pos(rng, 1, 4))})
        b["mappers"] = mappers
        b["w_tilde"] = rng.random() < 0.4
        if b["w_tilde"] and kh != kw:
            # the w-tilde formalism with a non-square PSF is C04's subject (defect D2); keep this graph buildable
            k = max(kh, kw)
            b["psf_shape"] = [k, k]
            b["psf"] = [q(_pos(rng, 0, 4) + Fraction(1, 4)) for _ in range(k * k)]
        b["positive_only"] = rng.random() < 0.4
        b["distort"] = [q(v) for v in rng.choice([(1, 0, 0, 1), (Fraction(3, 4), Fraction(1, 4), 0, 1),
                                                  (1, Fraction(-1, 2), Fraction(1, 4), Fraction(5, 4))])]
        if mappers[0]["mesh"] == "rect":
            npix = mappers[0]["shape"][0] * mappers[0]["shape"][1]
        else:
            npix = len(mappers[0]["points"])
        pm = "".join(rng.choice("01") for _ in range(npix))
        if "1" not in pm:
            pm = "1" + pm[1:]
        vals = [_dy(rng, 0, 8) + Fraction(1, 4) for _ in range(npix)]
        if d9b:
            # known finding D9b is visible: values given to the valued mapper are non-zero under the pixel mask
            b["valued"] = ({"values": "reconstruction", "pixel_mask": pm} if rng.random() < 0.5 else
                           {"values": [q(v) for v in vals], "pixel_mask": pm})
        else:
            r = rng.random()
            if r < 0.25:
                b["valued"] = {"values": "reconstruction", "pixel_mask": None}
            elif r < 0.45:
                b["valued"] = {"values": [q(v) for v in vals], "pixel_mask": None}
            elif r < 0.53:
                # a mesh_pixel_mask that is set but masks nothing
                b["valued"] = {"values": [q(v) for v in vals], "pixel_mask": "0" * npix}
            elif r < 0.9:
                # values already zero under the pixel mask: masking them is the identity, so the in-place write
                # of `values_masked` (D9b) changes nothing and every other effect stays fully checked
                b["valued"] = {"values": [q(0 if c == "1" else v) for v, c in zip(vals, pm)], "pixel_mask": pm}
    return b


def _mask_for_dataset(rng, psf_margin=1):
    h, w = rng.randint(5, 7), rng.randint(5, 7)
    m, kind = gen.random_mask(rng, h, w, margin=psf_margin)
    if sum(1 for r in m for v in r if not v) < 2:
        m = gen.mask_block(h, w, 1, h - 1, 1, w - 1)
        kind = "block"
    return m, kind


def _mask_one_pixel(rng):
    h, w = rng.randint(3, 6), rng.randint(3, 6)
    m = gen.full(h, w, True)
    m[rng.randint(1, h - 2)][rng.randint(1, w - 2)] = False
    return m, "single"


def pokeable(b):
    """pool indexes of caller-owned ndarray buffers whose constructor is declared to COPY its argument
    (Mask2D, Array2D, Kernel2D, `*.no_mask` of arrays, Grid2D / VectorYX2D except slim input with slim storage,
    which keep the caller's array by reference, as do Visibilities and MapperValued.values)."""
    if b["graph"] == "visibilities":
        return []
    out = [0]
    if b["graph"] == "structure":
        if b["struct"] == "Mask2D" or b.get("container", "ndarray") in ("list", "list_int"):
            return out
        if b["struct"] in ("Array2D", "Kernel2D"):
            out.append(2)
        elif not (b["form"] == "slim" and (not b["store_native"] or b.get("ctor") == "no_mask")):
            out.append(2)
        return out
    if b.get("container", "ndarray") not in ("list", "list_int"):
        out.append(2)
    return out + [3, 4, 10]


class Alphabet:
    """typed operation alphabet taken from the effects table."""

    def __init__(self):
        self.t = effects()["kinds"]

    def reads(self, kind):
        return list(self.t.get(kind, {}).get("reads", {}))

    def cached_reads(self, kind):
        return [k for k, v in self.t.get(kind, {}).get("reads", {}).items() if v.get("cached")]

    def queries(self, kind):
        return self.t.get(kind, {}).get("queries", {})

    def derivs(self, kind):
        return self.t.get(kind, {}).get("derive", {})

    def random_g(self, rng, kind, how):
        spec = self.derivs(kind)[how]
        args = spec.get("args")
        if not args:
            return how
        return f"{how}:{rng.choice(args)}"

    def random_query(self, rng, kind, name):
        args = self.queries(kind)[name].get("args")
        return {"op": "query", "name": name, "arg": rng.choice(args) if args else ""}


def random_history(rng, kinds, nsteps, alpha: Alphabet, focus=None, pokes=()):
    """random walk over the typed alphabet; `kinds` = kinds of the root pool (grows with derivations)."""
    kinds = list(kinds)
    hist = []
    read_log = []  # (obj, key) read so far
    readable = lambda: [i for i, k in enumerate(kinds) if alpha.reads(k) or alpha.queries(k)]
    derivable = lambda: [i for i, k in enumerate(kinds) if alpha.derivs(k)]
    last_derived = None
    pokes = list(pokes)
    for _ in range(nsteps):
        r = rng.random()
        if pokes and rng.random() < 0.06:
            hist.append({"op": "poke", "obj": pokes.pop(rng.randrange(len(pokes)))})
            continue
        if last_derived is not None and r < 0.45:
            # probe the fresh derived object, preferably with a key already read on its source
            o, src = last_derived
            ks = [k for (oo, k) in read_log if oo == src and k in alpha.reads(kinds[o])]
            key = rng.choice(ks) if ks and rng.random() < 0.7 else rng.choice(alpha.reads(kinds[o]) or [None])
            last_derived = None if rng.random() < 0.5 else last_derived
            if key:
                hist.append({"op": "read", "obj": o, "key": key})
                read_log.append((o, key))
                continue
        if r < 0.22 and derivable():
            cands = derivable()
            if focus is not None and rng.random() < 0.6:
                cands = [i for i in cands if i >= focus] or cands
            o = rng.choice(cands[-6:] if rng.random() < 0.7 else cands)
            # read cached keys on the source first, half of the time
            ck = alpha.cached_reads(kinds[o])
            if ck and rng.random() < 0.6:
                key = rng.choice(ck)
                hist.append({"op": "read", "obj": o, "key": key})
                read_log.append((o, key))
            how = rng.choice(list(alpha.derivs(kinds[o])))
            gname = alpha.random_g(rng, kinds[o], how)
            hist.append({"op": "derive", "obj": o, "g": gname})
            kinds.append(alpha.derivs(kinds[o])[how].get("result") or kinds[o])
            last_derived = (len(kinds) - 1, o)
            continue
        cands = readable()
        if not cands:
            break
        if focus is not None and rng.random() < 0.7:
            cands = [i for i in cands if i >= focus] or cands
        o = rng.choice(cands)
        if read_log and rng.random() < 0.25:
            o, key = rng.choice(read_log)  # repeated access
            hist.append({"op": "read", "obj": o, "key": key})
            continue
        qs = alpha.queries(kinds[o])
        if qs and (rng.random() < 0.25 or not alpha.reads(kinds[o])):
            stq = alpha.random_query(rng, kinds[o], rng.choice(list(qs)))
            stq["obj"] = o
            hist.append(stq)
            continue
        key = rng.choice(alpha.reads(kinds[o]))
        hist.append({"op": "read", "obj": o, "key": key})
        read_log.append((o, key))
    return hist[: max(nsteps, 1) + 6]


ROOT_KINDS = {
    "structure": lambda b: ["Buffer", "Mask2D"] if b["struct"] == "Mask2D" else ["Buffer", "Mask2D", "Buffer", b["struct"]],
    "visibilities": lambda b: ["Buffer", "Visibilities"],
}


def root_kinds(b):
    if b["graph"] in ROOT_KINDS:
        return ROOT_KINDS[b["graph"]](b)
    ks = ["Buffer", "Mask2D", "Buffer", "Buffer", "Buffer", "Array2D", "Array2D", "Kernel2D", "Imaging",
          "Imaging", "Buffer", "FitImaging"]
    if b["graph"] == "dataset":
        return ks
    ks += ["OverSampler", "Grid2DIrregular"]
    for _ in b["mappers"]:
        ks += ["Mesh", "Mapper"]
    ks += ["Inversion", "FitInversion"]
    mv = b.get("valued")
    if mv:
        if mv["values"] != "reconstruction":
            ks.append("Buffer")
        ks.append(mv_kind_of(mv))
    return ks


# ==================================================================================================
# the check
# ==================================================================================================
class C11(PropertyCheck):
    pid = "C11"
    title = "queries are pure: no input mutation, no order dependence, deterministic"
    nontrivial_rule = (
        "a case is a history over a real object graph; non-trivial = at least one step after construction "
        "(read / query / derivation) or a constructor given a mask with both masked and unmasked pixels; "
        "distinct = distinct (build spec, history)"
    )
    exhaustive_note = {
        "quick": "constructor purity: every mask with >=1 unmasked pixel for every shape with H*W <= 4, x "
                 "{Array2D, Grid2D, VectorYX2D} x {slim, native input} x {slim, native storage}; stale-cache "
                 "patterns: every (kind, cached key, derivation) triple of the effects table",
        "thorough": "constructor purity: every mask with >=1 unmasked pixel for every shape with H*W <= 6, x "
                    "{Array2D, Grid2D, VectorYX2D} x input form x storage; every (kind, cached key, derivation) triple",
    }
    trusted_extra = [
        "Python aliasing / object identity is not modelled in Lean: which operation writes which buffer and "
        "which derivation keeps which cache keys is the table harness/props/c11_effects.json, validated only by "
        "this correspondence run (byte fingerprints of every caller-owned and cached numpy buffer per step)",
        "autoconf.cached_property semantics (value stored in obj.__dict__[name]) as modelled by Impl.readF",
        "numpy global RNG: seed(k) determines all later draws (Model.Purity.Rng contract)",
        "the model's predicted value is interpreted by re-running the real code on a freshly built equal object",
    ]
    assumptions = [
        "histories use the operation alphabet of c11_effects.json (public properties, query methods, arithmetic, "
        "slicing, copy, apply_mask, trimming, padding, resizing); user-level in-place assignment (x[i] = v) is not "
        "a query and is excluded",
        "a buffer whose cache entry is deleted by the reading operation itself (curvature_matrix consumed by "
        "curvature_reg_matrix) is not protected after that step: the property speaks about values reported subsequently",
    ]
    search_budget_s = {"quick": 60, "thorough": 300}
    # functions whose purity / caching / copying behaviour the effects table and the cache machine describe
    modelled_functions = [
        "autoarray/abstract_ndarray.py:AbstractNDArray.__init__",
        "autoarray/abstract_ndarray.py:AbstractNDArray.with_new_array",
        "autoarray/abstract_ndarray.py:AbstractNDArray.copy",
        "autoarray/abstract_ndarray.py:AbstractNDArray.__copy__",
        "autoarray/abstract_ndarray.py:AbstractNDArray.__deepcopy__",
        "autoarray/abstract_ndarray.py:AbstractNDArray._dict_without_cached_properties",
        "autoarray/abstract_ndarray.py:AbstractNDArray.__getitem__",
        "autoarray/abstract_ndarray.py:AbstractNDArray.__setitem__",
        "autoarray/abstract_ndarray.py:to_new_array",
        "autoarray/abstract_ndarray.py:unwrap_array",
        "autoarray/structures/arrays/array_2d_util.py:convert_array_2d",
        "autoarray/structures/arrays/array_2d_util.py:convert_array",
        "autoarray/structures/grids/grid_2d_util.py:convert_grid_2d",
        "autoarray/structures/grids/grid_2d_util.py:convert_grid",
        "autoarray/structures/arrays/uniform_2d.py:AbstractArray2D.__init__",
        "autoarray/structures/arrays/uniform_2d.py:AbstractArray2D.native",
        "autoarray/structures/arrays/uniform_2d.py:AbstractArray2D.slim",
        "autoarray/structures/arrays/uniform_2d.py:AbstractArray2D.apply_mask",
        "autoarray/structures/arrays/uniform_2d.py:AbstractArray2D.trimmed_after_convolution_from",
        "autoarray/structures/arrays/uniform_2d.py:AbstractArray2D.padded_before_convolution_from",
        "autoarray/structures/arrays/uniform_2d.py:AbstractArray2D.resized_from",
        "autoarray/structures/arrays/uniform_2d.py:AbstractArray2D.zoomed_around_mask",
        "autoarray/structures/arrays/kernel_2d.py:Kernel2D.__init__",
        "autoarray/structures/arrays/kernel_2d.py:Kernel2D.normalized",
        "autoarray/structures/arrays/kernel_2d.py:Kernel2D.convolved_array_from",
        "autoarray/structures/grids/uniform_2d.py:Grid2D.__init__",
        "autoarray/structures/grids/uniform_2d.py:Grid2D.native",
        "autoarray/structures/grids/uniform_2d.py:Grid2D.slim",
        "autoarray/structures/grids/uniform_2d.py:Grid2D.flipped",
        "autoarray/structures/grids/uniform_2d.py:Grid2D.in_radians",
        "autoarray/structures/grids/uniform_2d.py:Grid2D.is_uniform",
        "autoarray/structures/grids/uniform_2d.py:Grid2D.over_sampler",
        "autoarray/structures/grids/uniform_2d.py:Grid2D.subtracted_from",
        "autoarray/structures/grids/uniform_2d.py:Grid2D.grid_2d_via_deflection_grid_from",
        "autoarray/structures/grids/uniform_2d.py:Grid2D.padded_grid_from",
        "autoarray/structures/vectors/uniform.py:VectorYX2D.__init__",
        "autoarray/structures/visibilities.py:AbstractVisibilities.__init__",
        "autoarray/structures/visibilities.py:AbstractVisibilities.amplitudes",
        "autoarray/structures/visibilities.py:AbstractVisibilities.phases",
        "autoarray/structures/visibilities.py:AbstractVisibilities.in_array",
        "autoarray/mask/mask_2d.py:Mask2D.__init__",
        "autoarray/mask/mask_2d.py:Mask2D.circular_radius",
        "autoarray/mask/mask_2d.py:Mask2D.is_circular",
        "autoarray/mask/mask_2d.py:Mask2D.rescaled_from",
        "autoarray/mask/mask_2d.py:Mask2D.resized_from",
        "autoarray/dataset/abstract/dataset.py:AbstractDataset.__init__",
        "autoarray/dataset/abstract/dataset.py:AbstractDataset.grids",
        "autoarray/dataset/abstract/dataset.py:AbstractDataset.grid",
        "autoarray/dataset/abstract/dataset.py:AbstractDataset.signal_to_noise_map",
        "autoarray/dataset/abstract/dataset.py:AbstractDataset.trimmed_after_convolution_from",
        "autoarray/dataset/imaging/dataset.py:Imaging.__init__",
        "autoarray/dataset/imaging/dataset.py:Imaging.grids",
        "autoarray/dataset/imaging/dataset.py:Imaging.convolver",
        "autoarray/dataset/imaging/dataset.py:Imaging.w_tilde",
        "autoarray/dataset/imaging/dataset.py:Imaging.apply_mask",
        "autoarray/dataset/imaging/dataset.py:Imaging.apply_noise_scaling",
        "autoarray/dataset/imaging/dataset.py:Imaging.apply_over_sampling",
        "autoarray/dataset/grids.py:GridsDataset.__init__",
        "autoarray/dataset/grids.py:GridsDataset.uniform",
        "autoarray/dataset/grids.py:GridsDataset.pixelization",
        "autoarray/dataset/grids.py:GridsDataset.blurring",
        "autoarray/dataset/preprocess.py:setup_random_seed",
        "autoarray/dataset/preprocess.py:poisson_noise_via_data_eps_from",
        "autoarray/dataset/preprocess.py:data_eps_with_poisson_noise_added",
        "autoarray/dataset/preprocess.py:gaussian_noise_via_shape_and_sigma_from",
        "autoarray/dataset/preprocess.py:data_with_gaussian_noise_added",
        "autoarray/dataset/preprocess.py:data_with_complex_gaussian_noise_added",
        "autoarray/dataset/imaging/simulator.py:SimulatorImaging.__init__",
        "autoarray/dataset/imaging/simulator.py:SimulatorImaging.via_image_from",
        "autoarray/fit/fit_dataset.py:FitDataset.__init__",
        "autoarray/fit/fit_imaging.py:FitImaging.__init__",
        "autoarray/inversion/inversion/factory.py:inversion_from",
        "autoarray/inversion/inversion/factory.py:inversion_imaging_from",
        "autoarray/inversion/inversion/abstract.py:AbstractInversion.__init__",
        "autoarray/inversion/inversion/abstract.py:AbstractInversion.mapping_matrix",
        "autoarray/inversion/inversion/abstract.py:AbstractInversion.operated_mapping_matrix",
        "autoarray/inversion/inversion/abstract.py:AbstractInversion.regularization_matrix",
        "autoarray/inversion/inversion/abstract.py:AbstractInversion.regularization_matrix_reduced",
        "autoarray/inversion/inversion/abstract.py:AbstractInversion.curvature_reg_matrix",
        "autoarray/inversion/inversion/abstract.py:AbstractInversion.curvature_reg_matrix_reduced",
        "autoarray/inversion/inversion/abstract.py:AbstractInversion.reconstruction",
        "autoarray/inversion/inversion/abstract.py:AbstractInversion.reconstruction_reduced",
        "autoarray/inversion/inversion/abstract.py:AbstractInversion.mapped_reconstructed_data",
        "autoarray/inversion/inversion/abstract.py:AbstractInversion.mapped_reconstructed_image",
        "autoarray/inversion/inversion/abstract.py:AbstractInversion.data_subtracted_dict",
        "autoarray/inversion/inversion/abstract.py:AbstractInversion.regularization_term",
        "autoarray/inversion/inversion/imaging/mapping.py:InversionImagingMapping.data_vector",
        "autoarray/inversion/inversion/imaging/mapping.py:InversionImagingMapping.curvature_matrix",
        "autoarray/inversion/inversion/imaging/w_tilde.py:InversionImagingWTilde.data_vector",
        "autoarray/inversion/inversion/imaging/w_tilde.py:InversionImagingWTilde.curvature_matrix",
        "autoarray/inversion/inversion/inversion_util.py:curvature_matrix_with_added_to_diag_from",
        "autoarray/inversion/inversion/mapper_valued.py:MapperValued.__init__",
        "autoarray/inversion/inversion/mapper_valued.py:MapperValued.values_masked",
        "autoarray/inversion/inversion/mapper_valued.py:MapperValued.interpolated_array_from",
        "autoarray/inversion/inversion/mapper_valued.py:MapperValued.max_pixel_list_from",
        "autoarray/inversion/inversion/mapper_valued.py:MapperValued.max_pixel_centre",
        "autoarray/inversion/inversion/mapper_valued.py:MapperValued.mapped_reconstructed_image_from",
        "autoarray/inversion/inversion/mapper_valued.py:MapperValued.magnification_via_interpolation_from",
        "autoarray/inversion/pixelization/mappers/abstract.py:AbstractMapper.__init__",
        "autoarray/inversion/pixelization/mappers/abstract.py:AbstractMapper.mapping_matrix",
        "autoarray/inversion/pixelization/mappers/abstract.py:AbstractMapper.unique_mappings",
        "autoarray/operators/over_sampling/uniform.py:OverSamplerUniform.__init__",
        "autoarray/operators/over_sampling/uniform.py:OverSamplerUniform.over_sampled_grid",
        "autoarray/operators/over_sampling/uniform.py:OverSamplerUniform.binned_array_2d_from",
        "autoarray/structures/mesh/triangulation_2d.py:Abstract2DMeshTriangulation.voronoi_pixel_areas_for_split",
        "autoarray/structures/mesh/voronoi_2d.py:Mesh2DVoronoi.areas_for_magnification",
    ]

    # ------------------------------------------------------------------ generation
    def generate(self, tier, rng):
        alpha = Alphabet()
        quick = tier == "quick"
        maxsteps = 12 if quick else 40
        # 1. constructor purity, exhaustive small masks
        cells = 4 if quick else 6
        for (h, w) in gen.shapes_upto(cells):
            for m in gen.all_masks(h, w, min_unmasked=0):
                for struct in ("Array2D", "Grid2D", "VectorYX2D"):
                    for form in ("slim", "native"):
                        for sn in (False, True):
                            b = struct_build(rng, struct, m, form=form, store_native=sn)
                            hist = [{"op": "read", "obj": 2, "key": "bytes"}, {"op": "read", "obj": 3, "key": "native"},
                                    {"op": "read", "obj": 2, "key": "bytes"}]
                            pk = pokeable(b)
                            if 2 in pk:
                                hist += [{"op": "poke", "obj": 2}, {"op": "read", "obj": 3, "key": "array"}]
                            hist += [{"op": "poke", "obj": 0}, {"op": "read", "obj": 1, "key": "array"},
                                     {"op": "read", "obj": 3, "key": "native"}, {"op": "read", "obj": 3, "key": "slim"}]
                            yield {"tag": f"ctor_exh_{struct}", "kind": "history", "build": b, "history": hist}
        # 2. stale-cache patterns: every (kind, cached key, derivation)
        yield from self._pattern_cases(rng, alpha, reps=1 if quick else 4)
        # 3. random histories over structure graphs
        n = 140 if quick else 800
        for i in range(n):
            struct = rng.choice(["Array2D", "Grid2D", "Grid2D", "VectorYX2D", "Kernel2D", "Mask2D", "Visibilities",
                                 "Visibilities"])
            b = self._struct_case_build(rng, struct)
            ks = root_kinds(b)
            hist = random_history(rng, ks, rng.randint(3, maxsteps), alpha, focus=len(ks) - 1, pokes=pokeable(b))
            yield {"tag": f"hist_{struct}", "kind": "history", "build": b, "history": hist}
        # 4. dataset / fit graphs
        n = 60 if quick else 400
        for i in range(n):
            m, mk = _mask_one_pixel(rng) if rng.random() < 0.1 else _mask_for_dataset(rng)
            b = dataset_build(rng, m, inversion=False)
            if rng.random() < 0.2:
                b["container"] = rng.choice(["int64", "list", "float32"])
                if b["container"] == "int64":
                    b["data"] = [q(rng.randint(-2, 8)) for _ in b["data"]]
            ks = root_kinds(b)
            hist = random_history(rng, ks, rng.randint(3, maxsteps), alpha, focus=5, pokes=pokeable(b))
            yield {"tag": f"hist_dataset_{mk}", "kind": "history", "build": b, "history": hist}
        # 5. inversion / mapper / valued-mapper graphs
        n = 90 if quick else 600
        for i in range(n):
            m, mk = _mask_for_dataset(rng)
            b = dataset_build(rng, m, inversion=True)
            ks = root_kinds(b)
            hist = random_history(rng, ks, rng.randint(4, maxsteps), alpha, focus=9, pokes=pokeable(b))
            yield {"tag": f"hist_inversion_{'wt' if b['w_tilde'] else 'map'}_{len(b['mappers'])}", "kind": "history",
                   "build": b, "history": hist}
        # 5b. a few histories in which known finding D9b is visible (kept few: each is shrunk and replayed)
        n = 3 if quick else 12
        for i in range(n):
            m, mk = _mask_for_dataset(rng)
            b = dataset_build(rng, m, inversion=True, d9b=True)
            ks = root_kinds(b)
            hist = random_history(rng, ks, rng.randint(4, 10), alpha, focus=len(ks) - 4)
            mvi = len(ks) - 1
            hist.insert(rng.randint(0, len(hist)), {"op": "read", "obj": mvi, "key": "values_masked"})
            hist.append({"op": "read", "obj": mvi, "key": "values"})
            yield {"tag": "hist_valued_d9b", "kind": "history", "build": b, "history": hist}
        # 5c. sweeps: every quantity of an object (and of the objects it was built from) read in a random order,
        #     twice: every ordered pair (x read, later y read) of quantities occurs in one history
        yield from self._sweep_cases(rng, alpha, reps=2 if quick else 8)
        # 6. seeded simulation under perturbed global RNG states
        n = 40 if quick else 300
        for i in range(n):
            yield self._rng_case(rng, maxsteps)

    def _struct_case_build(self, rng, struct):
        if struct == "Visibilities":
            n = rng.randint(1, 7)
            return {"graph": "visibilities", "values": [[q(_dy(rng)), q(_dy(rng))] for _ in range(n)]}
        if struct == "Kernel2D":
            h, w = rng.choice([(1, 1), (3, 3), (3, 5), (5, 3), (1, 3)])
            return struct_build(rng, struct, gen.full(h, w, False))
        if struct == "Mask2D" and rng.random() < 0.5:
            # circular masks so that circular_radius / is_circular are defined
            h = w = rng.choice([5, 7])
            r = rng.choice([1, 2])
            c = (h - 1) / 2
            m = [[not ((y - c) ** 2 + (x - c) ** 2 <= r * r + 1e-9) for x in range(w)] for y in range(h)]
            b = struct_build(rng, "Mask2D", m)
            b["scales"] = ["1", "1"]
            b["origin"] = ["0", "0"]
            return b
        h, w = rng.randint(1, 7), rng.randint(1, 7)
        r = rng.random()
        if r < 0.05:
            m = gen.full(h, w, True)                       # no unmasked pixel at all
        elif r < 0.12:
            m = gen.full(h, w, True)
            m[rng.randrange(h)][rng.randrange(w)] = False  # exactly one
        elif r < 0.2 or min(h, w) < 2:
            m = gen.full(h, w, False)                      # all unmasked
        else:
            m, _ = gen.random_mask(rng, h, w)
            if not any(not v for r_ in m for v in r_):
                m[h // 2][w // 2] = False
        return struct_build(rng, struct, m)

    def _pattern_cases(self, rng, alpha, reps):
        for kind, spec in effects()["kinds"].items():
            cached = alpha.cached_reads(kind)
            if not cached or not alpha.derivs(kind):
                continue
            for key in cached:
                for how in alpha.derivs(kind):
                    for _ in range(reps):
                        if kind in ("Array2D", "Grid2D", "VectorYX2D", "Kernel2D", "Mask2D", "Visibilities"):
                            b = self._struct_case_build(rng, kind)
                            ks = root_kinds(b)
                            o = len(ks) - 1
                        elif kind == "Imaging":
                            m, _ = _mask_for_dataset(rng)
                            b = dataset_build(rng, m)
                            ks = root_kinds(b)
                            o = rng.choice([8, 9])
                        elif kind == "Mesh":
                            m, _ = _mask_for_dataset(rng)
                            b = dataset_build(rng, m, inversion=True)
                            ks = root_kinds(b)
                            o = ks.index("Mesh")
                        else:
                            continue
                        gname = alpha.random_g(rng, kind, how)
                        d = len(ks)
                        other = rng.choice(alpha.reads(alpha.derivs(kind)[how].get("result") or kind))
                        hist = [{"op": "read", "obj": o, "key": key}, {"op": "derive", "obj": o, "g": gname},
                                {"op": "read", "obj": d, "key": key}, {"op": "read", "obj": o, "key": key},
                                {"op": "read", "obj": d, "key": other}, {"op": "derive", "obj": d, "g": gname},
                                {"op": "read", "obj": d + 1, "key": key}]
                        yield {"tag": f"pattern_{kind}", "kind": "history", "build": b, "history": hist}

    def _sweep_cases(self, rng, alpha, reps):
        def all_ops(ks, idxs):
            ops = []
            for o in idxs:
                for key in alpha.reads(ks[o]):
                    ops.append({"op": "read", "obj": o, "key": key})
                for name, spec in alpha.queries(ks[o]).items():
                    args = spec.get("args")
                    ops.append({"op": "query", "obj": o, "name": name, "arg": rng.choice(args) if args else ""})
            return ops

        for _ in range(reps):
            for struct in ("Array2D", "Grid2D", "VectorYX2D", "Kernel2D", "Mask2D", "Visibilities"):
                b = self._struct_case_build(rng, struct)
                ks = root_kinds(b)
                ops = all_ops(ks, [len(ks) - 1])
                rng.shuffle(ops)
                yield {"tag": f"sweep_{struct}", "kind": "history", "build": b, "history": ops + ops}
            m, _ = _mask_for_dataset(rng)
            b = dataset_build(rng, m)
            ks = root_kinds(b)
            ops = all_ops(ks, [8, 9, 11])
            rng.shuffle(ops)
            yield {"tag": "sweep_dataset", "kind": "history", "build": b, "history": ops + ops}
            for wt in (False, True):
                for nm in (1, 2):
                    m, _ = _mask_for_dataset(rng)
                    b = dataset_build(rng, m, inversion=True)
                    while len(b["mappers"]) != nm:
                        b = dataset_build(rng, m, inversion=True)
                    b["w_tilde"] = wt
                    if wt and b["psf_shape"][0] != b["psf_shape"][1]:
                        k = max(b["psf_shape"])
                        b["psf_shape"] = [k, k]
                        b["psf"] = [q(_pos(rng, 0, 4) + Fraction(1, 4)) for _ in range(k * k)]
                    ks = root_kinds(b)
                    idxs = [i for i, k in enumerate(ks) if k in ("Inversion", "Mapper", "FitInversion", "Mesh",
                                                                 "OverSampler", "Grid2DIrregular")
                            or k.startswith("MapperValued")] + [9]
                    ops = all_ops(ks, idxs)
                    rng.shuffle(ops)
                    yield {"tag": f"sweep_inversion_{'wt' if wt else 'map'}_{nm}", "kind": "history", "build": b,
                           "history": ops + ops}

    def _rng_case(self, rng, maxsteps):
        # >= 6 pixels and >= 300 expected counts per unit flux: two different seeds giving the same Poisson
        # image by chance (which would falsify the model's equality pattern, not the property) is < 1e-7
        h, w = rng.choice([(2, 3), (3, 2), (3, 3), (2, 4), (4, 2), (3, 4), (4, 3), (1, 6), (6, 1)])
        use_psf = rng.random() < 0.5
        b = {"graph": "rng", "shape": [h, w], "scales": _scales(rng),
             "image": [q(_pos(rng, 1, 8)) for _ in range(h * w)],
             "exposure_time": q(rng.choice([300, 1000, 3000])),
             "background_sky_level": q(rng.choice([0, 1, Fraction(1, 2)])),
             "normalize_psf": rng.random() < 0.5,
             "add_noise": rng.random() < 0.85, "noise_in_map": rng.random() < 0.85}
        if use_psf:
            b["psf_shape"] = [3, 3]
            b["psf"] = [q(_pos(rng, 0, 4) + Fraction(1, 4)) for _ in range(9)]
        b["func"] = rng.choice(["simulator"] * 4 + list(self.SEEDED_FUNCS))
        if b["func"] != "simulator":
            b.pop("psf", None)
            b.pop("psf_shape", None)
            b["add_noise"] = b["noise_in_map"] = True
        # the seeds of every case include the boundary values of the "fixed seed" domain (0 is the smallest fixed
        # seed, -1 the sentinel next to it; 2**32 - 1 is the largest numpy accepts)
        seeds = [0, 1, 2 ** 31 - 1, 2 ** 32 - 1, rng.randint(2, 50), rng.randint(51, 10 ** 6)]

        def perturb():
            r = rng.random()
            if r < 0.5:
                return {"op": "reseed", "j": rng.randint(0, 1000)}
            return {"op": "draw", "n": rng.randint(1, 5)}

        hist = [{"op": "reseed", "j": rng.randint(0, 1000)}]
        # every boundary seed (and one more) is used twice with a different global state in between
        for sd in rng.sample(seeds[:4], 4 if maxsteps > 12 else 2) + [rng.choice(seeds[4:])]:
            hist.append({"op": "simulate", "seed": sd})
            hist.append(perturb())
            if rng.random() < 0.3:
                hist.append({"op": "simulate", "seed": rng.choice(seeds + [-1])})
                hist.append(perturb())
            hist.append({"op": "simulate", "seed": sd})
        if 0 not in [st.get("seed") for st in hist]:
            hist += [{"op": "simulate", "seed": 0}, perturb(), {"op": "simulate", "seed": 0}]
        for _ in range(rng.randint(0, max(0, maxsteps - len(hist)))):
            r = rng.random()
            if r < 0.2:
                hist.append({"op": "reseed", "j": rng.choice([hist[0]["j"], rng.randint(0, 1000)])})
            elif r < 0.45:
                hist.append({"op": "draw", "n": rng.randint(0, 5)})
            elif r < 0.55:
                hist.append({"op": "simulate", "seed": -1})
            else:
                hist.append({"op": "simulate", "seed": rng.choice(seeds)})
        return {"tag": "rng" if b["func"] == "simulator" else "rng_preprocess", "kind": "rng", "build": b,
                "history": hist}

    SEEDED_FUNCS = ("poisson_noise_via_data_eps_from", "data_eps_with_poisson_noise_added",
                    "gaussian_noise_via_shape_and_sigma_from", "data_with_gaussian_noise_added",
                    "data_with_complex_gaussian_noise_added")

    # ------------------------------------------------------------------ implementation
    def run_impl(self, case):
        if case["kind"] == "rng":
            return run_rng(case)
        return run_history(case)

    # ------------------------------------------------------------------ model
    def _table_for(self, kinds_used):
        """the effects table in the driver's format (keys are `Kind.key`)."""
        t = effects()
        keys, derivs, ctors = {}, {}, {}
        # the caller rewriting its own buffer: an edit of that buffer's contents, nothing else depends on it
        keys["Buffer.__caller_write__"] = {"cached": False, "cwrites": [[0, "caller_write"]]}
        for kind, spec in t["kinds"].items():
            for k, e in list(spec.get("reads", {}).items()) + list(spec.get("queries", {}).items()):
                ent = {"cached": bool(e.get("cached", False))}
                for f in ("deps", "drops", "cwrites", "vwrites"):
                    if e.get(f):
                        ent[f] = e[f]
                if ent != {"cached": False}:
                    keys[f"{kind}.{k}"] = ent
            for how, e in spec.get("derive", {}).items():
                derivs[f"{kind}.{how}"] = {"keeps": e.get("keeps", [])}
            if spec.get("ctor_writes"):
                ctors[kind] = {"writes": spec["ctor_writes"]}
        return {"keys": keys, "derivs": derivs, "ctors": ctors}

    def model_requests(self, case, impl_obs):
        if case["kind"] == "rng":
            b = case["build"]
            npix = b["shape"][0] * b["shape"][1]
            hist = []
            for st in case["history"]:
                if st["op"] == "simulate":
                    hist.append({"op": "simulate", "seed": st["seed"], "npix": npix})
                else:
                    hist.append(st)
            return [{"op": "c11.rng_machine", "history": hist,
                     "noise_visible": bool(b.get("add_noise", True) or b.get("noise_in_map", True))}]
        meta = impl_obs.get("_meta") if isinstance(impl_obs, dict) else None
        if not meta:
            raise Skip("implementation did not build the graph")
        hist = []
        kinds = list(meta["kinds"])
        stage_at = []
        for i, (k, ps) in enumerate(zip(meta["kinds"], meta["parents"])):
            if k == "MapperValuedMaskedRec" or (k == "MapperValued" and len(ps) == 2 and meta["kinds"][ps[1]] == "Inversion"):
                # the builder hands the valued mapper `inversion.reconstruction`: a read, which caches it
                hist.append({"op": "read", "obj": ps[1], "key": "Inversion.reconstruction"})
            stage_at.append(len(hist))
            hist.append({"op": "construct", "kind": k, "root": i, "parents": ps})
        n_prefix = len(hist)
        for st in case["history"]:
            o = st["obj"]
            kind = kinds[o] if o < len(kinds) else "?"
            if st["op"] == "poke":
                hist.append({"op": "read", "obj": o, "key": "Buffer.__caller_write__"})
            elif st["op"] == "read":
                hist.append({"op": "read", "obj": o, "key": f"{kind}.{st['key']}"})
            elif st["op"] == "query":
                hist.append({"op": "read", "obj": o, "key": f"{kind}.{st['name']}"})
            else:
                hist.append({"op": "derive", "obj": o, "cls": deriv_class(kind, st["g"]), "g": st["g"]})
                kinds.append(result_kind(kind, st["g"]) if kind in effects()["kinds"] else "?")
        return [{"op": "c11.cache_machine", "effects": self._table_for(kinds), "history": hist,
                 "tag": {"n_prefix": n_prefix, "stage_at": stage_at}}]

    def model_obs(self, case, responses):
        r = responses[0]
        if "err" in r:
            return {"err": r["err"]}
        if case["kind"] == "rng":
            return {"labels": _labels(r["ok"]["outputs"]), "changed": []}
        steps = r["ok"]["steps"]
        n_roots = r["ok"]["tag"]["n_prefix"]
        ctor = [{"stage": i, "changed": steps[j]["changed"], "vchanged": steps[j]["vchanged"]}
                for i, j in enumerate(r["ok"]["tag"]["stage_at"]) if steps[j]["changed"] or steps[j]["vchanged"]]
        fresh = FreshEval(case["build"])
        out = []
        for st, s in zip(case["history"], steps[n_roots:]):
            o = {"may_change": sorted({f"obj{i}" for i in s["changed"]} | {f"obj{i}" for i, k in s["vchanged"]})}
            v = s["value"]
            if st["op"] in ("derive", "poke"):
                o["value"] = None
            elif v is None:
                o["value"] = "err:no-object"
            else:
                o["value"] = self._interpret(fresh, v, st)
            out.append(o)
        return {"ctor": ctor, "steps": out}

    def _interpret(self, fresh, v, st):
        """symbolic value -> fingerprint of the same quantity read once on a freshly built equal object."""
        if v["dirty"]:
            # computed from something an earlier operation edited in place: not a fresh-object value
            return {"edited": True}
        return fresh.value(v["at"]["root"], v["at"]["path"], st)

    def compare(self, case, impl_obs, model_obs, cmp):
        if "err" in model_obs:
            return f"model error {model_obs['err']}"
        if case["kind"] == "rng":
            return cmp.diff({"labels": impl_obs["labels"], "changed": impl_obs["changed"]}, model_obs)
        d = cmp.diff([c["stage"] for c in impl_obs["ctor"]], [c["stage"] for c in model_obs["ctor"]], "$.ctor")
        if d:
            return d
        for i, (si, sm) in enumerate(zip(impl_obs["steps"], model_obs["steps"])):
            # the table's writes are may-writes (zeroing entries that are already zero changes no byte):
            # every buffer the implementation changed must belong to an object the model says may change
            extra = [t for t in si["owners"] if t not in sm["may_change"]]
            if extra:
                return f"$.steps[{i}].changed: impl changed {si['changed'][:4]} (owners {extra}); model allows {sm['may_change']}"
            if isinstance(sm["value"], dict) and sm["value"].get("edited"):
                continue  # downstream of an in-place edit: no fresh-object prediction to compare with
            d = cmp.diff(si.get("value"), sm["value"], f"$.steps[{i}].value")
            if d:
                return d
        return None

    # ------------------------------------------------------------------ oracle
    def oracle(self, case, obs):
        if isinstance(obs, dict) and "err" in obs and "steps" not in obs and "labels" not in obs:
            return False, f"implementation raised {obs}"
        if case["kind"] == "rng":
            if obs["changed"]:
                return False, f"simulation modified its inputs: {obs['changed']}"
            by_seed = {}
            for st, f in zip(case["history"], obs["fps"]):
                if st["op"] == "simulate" and st["seed"] >= 0:
                    if st["seed"] in by_seed and by_seed[st["seed"]] != f:
                        return False, f"noise_seed={st['seed']} gave two different simulated datasets"
                    by_seed[st["seed"]] = f
            return True, ""
        if obs["ctor"]:
            c = obs["ctor"][0]
            return False, f"constructing {c['kind']} (stage {c['stage']}) modified {c['changed']}"
        for i, (st, s) in enumerate(zip(case["history"], obs["steps"])):
            what = st.get("key") or st.get("name") or st.get("g")
            if s["changed"]:
                return False, f"step {i} ({st['op']} {what} on obj {st['obj']}) modified {s['changed'][:4]}"
            if st["op"] in ("read", "query"):
                if s["value"] != s.get("fresh"):
                    return False, (f"step {i}: {st['op']} {what} on obj {st['obj']} reports {s['value']} but a freshly "
                                   f"built equal object reports {s['fresh']}")
                if s.get("direct") is False:
                    return False, f"step {i}: {what} on derived obj {st['obj']} differs from its numpy definition"
                if "rebuilt" in s and s["rebuilt"] != s["value"]:
                    return False, (f"step {i}: {what} on derived obj {st['obj']} = {s['value']} but a new object "
                                   f"constructed from its own contents reports {s['rebuilt']}")
        return True, ""

    # ------------------------------------------------------------------ known findings
    D9B_OPS = ("values_masked", "max_pixel_centre", "max_pixel_list_from", "interpolated_array_from",
               "mapped_reconstructed_image_from", "magnification_via_interpolation_from",
               "magnification_via_mesh_from")

    def known_finding(self, case, obs):
        """D9b: a MapperValued with a mesh_pixel_mask on which `values_masked` (or a quantity built on it) is
        read.  Narrowing: the case must stop failing when exactly that defect is neutralised (the property
        `values_masked` masking a copy), so any other violation in the same history is still reported."""
        if case.get("kind") != "history":
            return None
        mv = case["build"].get("valued")
        if not mv or not mv.get("pixel_mask"):
            return None
        ks = root_kinds(case["build"])
        mvi = len(ks) - 1
        if not any(st["obj"] == mvi and (st.get("key") or st.get("name")) in self.D9B_OPS
                   for st in case["history"]):
            return None
        # the symptoms must be those of this defect: nothing wrong at construction, and the only buffers that
        # change belong to the holder of the values (the caller's buffer / the inversion caching the reconstruction)
        if not isinstance(obs, dict) or obs.get("ctor"):
            return None
        holder = f"obj{mvi - 1}" if mv["values"] != "reconstruction" else f"obj{ks.index('Inversion')}"
        for st_obs in obs.get("steps", []):
            # (the valued mapper itself when its `values` is a view of the holder's array: two mappers)
            if any(t not in (holder, f"obj{mvi}") for t in st_obs.get("owners", [])):
                return None
        aa = load_autoarray()
        orig = aa.MapperValued.__dict__["values_masked"]

        def values_masked_copy(mv_self):
            values = mv_self.values
            if mv_self.mesh_pixel_mask is not None:
                values = np.array(values)
                values[mv_self.mesh_pixel_mask] = 0.0
            return values

        try:
            aa.MapperValued.values_masked = property(values_masked_copy)
            holds, _ = self.oracle(case, run_history(case))
        except Exception:
            holds = False
        finally:
            aa.MapperValued.values_masked = orig
        return "D9b" if holds else None

    def nontrivial(self, case, obs):
        if case["history"]:
            return True
        bits = case["build"].get("mask", {}).get("bits", "")
        return "0" in bits and "1" in bits

    def shrink(self, case):
        hist = case["history"]
        # shortest failing prefix first, then single non-derive steps (derive steps define later indexes)
        for n in range(1, len(hist)):
            yield {**case, "history": hist[:n]}
        # remove blocks of non-derive steps (halves, quarters, ...), keeping the last step, then single steps
        idx = [i for i, st in enumerate(hist[:-1]) if st["op"] != "derive"]
        size = len(idx) // 2
        while size >= 2:
            for a in range(0, len(idx), size):
                drop = set(idx[a:a + size])
                yield {**case, "history": [st for i, st in enumerate(hist) if i not in drop]}
            size //= 2
        for i in idx:
            yield {**case, "history": hist[:i] + hist[i + 1:]}

    def sample_view(self, case):
        return {k: v for k, v in case.items() if not k.startswith("_")}

    def theorems_for(self, case):
        if case["kind"] == "rng":
            return ["C11.seeded_simulation_independent_of_prior_state", "C11.seeded_history_outputs_agree"]
        return ["C11.reported_value_is_fresh_value", "C11.order_and_number_of_reads_irrelevant",
                "C11.pure_history_preserves_contents"]


CHECK = C11()


# ==================================================================================================
# dev tool: regenerate c11_effects.json (introspection of the public properties + the hand-written parts)
#   PYTHONPATH=/repo:/verif/harness /venv/bin/python -m props.c11 --regen-effects
# ==================================================================================================
def regen_effects():
    import random
    from autoconf.tools.decorators import CachedProperty
    import props.c11 as c11
    aa = load_autoarray()
    BLACK = {"hdu_for_output", "dtype", "in_counts", "in_counts_per_second", "original_orientation", "T",
             "header", "preloads", "run_time_dict", "settings", "profiling_dict", "dataset", "linear_obj_list",
             "mapper_grids", "border_relocator", "regularization", "mapper", "dataset_model",
             "inversion", "over_sampling", "unmasked"}
    SUB = {  # helper objects expanded into dotted keys
        "derive_mask": None, "derive_indexes": None, "derive_grid": None, "geometry": None, "grids": None,
    }

    def props_of(obj):
        out = {}
        for cls in type(obj).__mro__:
            for k, v in vars(cls).items():
                if k.startswith('_') or k in out: continue
                if isinstance(v, property): out[k] = False
                elif isinstance(v, CachedProperty): out[k] = True
        return out

    def readable(obj, prefix="", depth=0):
        res = {}
        for k, cached in sorted(props_of(obj).items()):
            if k in BLACK: continue
            try:
                v = getattr(obj, k)
            except Exception as e:
                # keep keys that raise library exceptions consistently (e.g. circular_radius on non-circular masks)
                if type(e).__name__ in ("MaskException",):
                    res[prefix + k] = {"cached": cached}
                continue
            if k in SUB and depth == 0:
                # the helper object itself is not fingerprinted; its properties are
                sub = readable(v, prefix + k + ".", depth + 1)
                res.update(sub)
                if cached:
                    res[prefix + k] = {"cached": True}
                continue
            try:
                c11.fp_value(v)
            except Exception as e:
                continue
            res[prefix + k] = {"cached": cached}
        return res

    rng = random.Random(1)
    kinds = {}
    def merge(kind, obj):
        r = readable(obj)
        kinds.setdefault(kind, {"reads": {}})
        for k, e in r.items():
            kinds[kind]["reads"].setdefault(k, e)

    # sample graphs
    for struct in ("Array2D", "Grid2D", "VectorYX2D", "Kernel2D", "Mask2D"):
        for t in range(3):
            while True:
                b = c11.CHECK._struct_case_build(rng, struct)
                if struct == "Grid2D": b["sub"] = 2
                if "0" not in b["mask"]["bits"] or b["mask"]["h"] * b["mask"]["w"] < 4:
                    continue  # sample objects: non-degenerate
                try:
                    g = c11.build_graph(b)
                    break
                except Exception:
                    continue
            merge(struct, g.pool[-1])
    b = c11.CHECK._struct_case_build(rng, "Visibilities")
    merge("Visibilities", c11.build_graph(b).pool[-1])
    for t in range(6):
        m, _ = c11._mask_for_dataset(rng)
        b = c11.dataset_build(rng, m, inversion=True)
        b["valued"] = {"values": "reconstruction", "pixel_mask": None}
        g = c11.build_graph(b)
        for o, k in zip(g.pool, g.kinds):
            if k in ("Buffer",): continue
            merge("FitImaging" if k == "FitInversion" else k, o)
    kinds["Buffer"] = {"reads": {"bytes": {"cached": False}}}
    kinds["MapperValued"]["reads"].update({"values": {"cached": False}, "mesh_pixel_mask": {"cached": False}})
    kinds["Imaging"]["reads"].update({"data": {"cached": False}, "noise_map": {"cached": False}, "psf": {"cached": False}})

    # ---- hand-written parts --------------------------------------------------------------------------
    SC = ["2", "-1/2", "0", "3/4"]
    arith = {"mul": {"args": SC}, "rmul": {"args": SC}, "add": {"args": ["1", "-3/2"]}, "sub": {"args": ["1"]},
             "rsub": {"args": ["2"]}, "div": {"args": ["2", "-4"]}, "neg": {}, "abs": {}, "pow": {"args": ["2"]},
             "add_self": {}, "mul_array": {"args": ["3", "1/2"]}, "slice": {"args": ["0,2", "1,3", "0,1"]},
             "copy": {}, "copy_copy": {}, "deepcopy": {}}
    def D(extra, base=arith, drop=()):
        d = {k: dict(v) for k, v in base.items() if k not in drop}
        d.update(extra)
        return d
    kinds["Array2D"]["derive"] = D({"native": {}, "slim": {}, "rewrap": {}, "apply_mask": {"args": ["0", "1"]},
        "trimmed": {"args": ["3x3", "1x3", "3x1"]}, "padded": {"args": ["3x3", "1x3"]},
        "resized": {"args": ["3x3", "4x6", "7x5", "2x2"]}, "zoomed": {"args": ["0", "1"]}})
    kinds["Kernel2D"]["derive"] = D({"normalized": {}, "rewrap": {}, "native": {"result": "Array2D"}, "slim": {"result": "Array2D"}},
                                     drop=("slice", "mul_array"))
    kinds["Grid2D"]["derive"] = D({"native": {}, "slim": {}, "rewrap": {}, "flipped": {}, "in_radians": {},
        "subtracted_from": {"args": ["1/2,-1", "0,0"]}, "deflected": {"args": ["1/4", "-1"]},
        "padded_grid_from": {"args": ["3x3", "1x3"]}}, drop=("pow", "abs", "rsub", "mul_array"))
    kinds["VectorYX2D"]["derive"] = D({}, drop=("pow", "abs", "rsub", "mul_array", "add_self"))
    kinds["Mask2D"]["derive"] = {"copy": {}, "copy_copy": {}, "deepcopy": {}, "slice": {"args": ["0,2", "1,3"]},
        "rescaled": {"args": ["2", "1/2"]}, "mask_resized": {"args": ["7x7", "3x5", "2x2"]},
        "derive_mask": {"args": ["edge", "border", "all_false", "edge_buffed"]}}
    kinds["Visibilities"]["derive"] = D({"real": {}}, drop=("abs", "pow", "mul_array"))
    kinds["Imaging"]["derive"] = {"apply_mask": {"args": ["0", "1"]}, "trimmed": {"args": ["3x3", "1x3"]},
        "apply_over_sampling": {"args": ["2,1", "1,2", "2,2"]}, "apply_noise_scaling": {"args": ["0", "1"]}}
    kinds["Mesh"]["derive"] = {"mul": {"args": ["2", "3/4"]}, "add": {"args": ["1"]}, "copy": {}, "deepcopy": {}, "neg": {}}
    for k in kinds.values():
        for how, e in k.get("derive", {}).items():
            e["keeps"] = []
    kinds["Mask2D"]["queries"] = {"blurring_from": {"args": ["3x3", "1x3", "3x1"]}}
    kinds["Grid2D"]["queries"] = {"distances_to_coordinate_from": {"args": ["0,0", "1/2,-1"]},
        "squared_distances_to_coordinate_from": {"args": ["0,0", "-3/4,2"]}, "extent_with_buffer_from": {"args": ["1/2", "0"]}}
    kinds["Kernel2D"]["queries"] = {"convolved_array_from": {}}
    kinds["Mapper"]["queries"] = {"pixel_signals_from": {"args": ["1", "1/2"]}, "mapped_to_source_from": {},
        "mapper_interpolated_array_from": {"args": ["3x3", "2x4"]}}
    kinds["Inversion"]["queries"] = {"regularization_weights_from": {"args": ["0"]}, "source_quantity_dict_from": {}}
    kinds["MapperValued"]["queries"] = {"max_pixel_list_from": {"args": ["1,0", "2,1", "3,0"]},
        "interpolated_array_from": {"args": ["3x3", "2x4"]}, "mapped_reconstructed_image_from": {},
        "magnification_via_interpolation_from": {"args": ["3x3"]}}
    kinds["OverSampler"]["queries"] = {"binned_array_2d_from": {}}
    # ---- known finding D9b: MapperValued.values_masked writes into the values it was given --------------------
    import copy as _copy
    D9B_READS = ["values_masked", "max_pixel_centre"]
    D9B_QUERIES = ["max_pixel_list_from", "interpolated_array_from", "mapped_reconstructed_image_from",
                   "magnification_via_interpolation_from"]
    for variant, dep, write in (
            ("MapperValuedMaskedBuf", [[2, "Buffer.bytes"]], {"cwrites": [[2, "zero_under_mesh_pixel_mask"]]}),
            ("MapperValuedMaskedRec", [[2, "Inversion.reconstruction"]],
             {"vwrites": [[2, "Inversion.reconstruction", "zero_under_mesh_pixel_mask"],
                          [2, "Inversion.reconstruction_reduced", "zero_under_mesh_pixel_mask"]]})):
        kv = _copy.deepcopy(kinds["MapperValued"])
        kv["reads"]["values"]["deps"] = dep
        for k in D9B_READS:
            kv["reads"][k].update({"deps": dep, **write})
        for k in D9B_QUERIES:
            kv["queries"][k].update({"deps": dep, **write})
        kv["note"] = "known finding D9b: may-writes of values_masked and everything built on it"
        kinds[variant] = kv
    # quantities of the inversion computed from its (cached) reconstruction, so that an in-place edit of the
    # reconstruction is seen to propagate
    R = [[0, "Inversion.reconstruction"]]
    for k in ("reconstruction_reduced", "reconstruction_dict", "mapped_reconstructed_data_dict",
              "mapped_reconstructed_image_dict", "mapped_reconstructed_data", "mapped_reconstructed_image",
              "data_subtracted_dict"):
        kinds["Inversion"]["reads"][k]["deps"] = R
    kinds["Inversion"]["reads"]["regularization_term"]["deps"] = [[0, "Inversion.reconstruction_reduced"]]
    kinds["Inversion"]["queries"]["source_quantity_dict_from"]["deps"] = R
    kinds["FitInversion"] = _copy.deepcopy(kinds["FitImaging"])
    for k in ("model_data", "residual_map", "normalized_residual_map", "chi_squared_map", "chi_squared",
              "reduced_chi_squared", "log_likelihood", "figure_of_merit", "log_evidence",
              "log_likelihood_with_regularization", "residual_flux_fraction_map"):
        kinds["FitInversion"]["reads"][k]["deps"] = [[2, "Inversion.mapped_reconstructed_data"]]
    for k in ("figure_of_merit", "log_evidence", "log_likelihood_with_regularization"):
        kinds["FitInversion"]["reads"][k]["deps"] = [[2, "Inversion.mapped_reconstructed_data"],
                                                       [2, "Inversion.regularization_term"]]
    # cache deletions performed by a property body (autoarray/inversion/inversion/abstract.py curvature_reg_matrix)
    kinds["Inversion"]["reads"]["curvature_reg_matrix"]["drops"] = ["curvature_matrix"]
    kinds["Inversion"]["reads"]["curvature_reg_matrix"]["deps"] = [[0, "Inversion.curvature_matrix"], [0, "Inversion.regularization_matrix"]]
    kinds["Imaging"]["reads"]["grid"]["deps"] = [[0, "Imaging.grids"]]

    table = {"version": 1,
     "about": "C11 effects table: per object kind the public quantities that can be read (cached = autoconf cached_property), "
              "the query methods, and the derivations with the cache keys the derived object keeps (keeps) - all empty after "
              "the D8 repair. No entry has cwrites / vwrites / ctor_writes: every operation is pure (after D7, D9). "
              "deps / drops are listed only where a property body deletes or forwards cache entries. Validated by the "
              "correspondence run on every ./check C11.",
     "kinds": {k: kinds[k] for k in sorted(kinds)}}
    json.dump(table, open(EFFECTS_PATH, 'w'), indent=1, sort_keys=True)
    for k, v in table["kinds"].items():
        print(k, len(v.get("reads", {})), "reads;", sum(1 for e in v.get("reads", {}).values() if e.get("cached")), "cached;",
              len(v.get("queries", {})), "queries;", len(v.get("derive", {})), "derivs")


if __name__ == "__main__" and "--regen-effects" in sys.argv:
    regen_effects()
