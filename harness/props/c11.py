"""C11 — queries are pure: no input mutation, no order dependence, deterministic.

Correspondence (DESIGN §5 C11): every case is a *history* over a real object graph.  The graph is built
by a fixed sequence of constructor stages from caller-owned numpy buffers; the history is a list of
property reads / query calls / derivations (arithmetic, slicing, copy, apply_mask, trimming …).

Observed on the implementation, per step
  * the value reported (canonical fingerprint: sha1 over dtype/shape/bytes of every array in it),
  * which caller-owned buffers changed bytes (P1) and which buffers reachable from the object graph
    through a path that exists before and after the step, with the same array identity, changed
    bytes (P2) — byte-level, `.tobytes()`.
Predicted by the Lean cache machine (Model/Purity.lean, driver op `c11.cache_machine`) from the effects
table `c11_effects.json`: the symbolic value `(key, contents term)` each read reports and the objects
whose contents / cached values are edited.  A symbolic value is interpreted as "the same quantity read
once on a freshly built equal object": the graph is rebuilt from equal inputs up to that object, the
derivations of the term are replayed with no reads in between, and the key is read once.

The oracle states the property directly: no protected buffer changes; every reported value equals the
fresh-object value; a derived structure reports what a brand-new structure constructed from its own
array and mask reports (plus numpy formulas for the cached quantities); equal seeds give equal
simulations whatever the prior global RNG state.
"""
from __future__ import annotations

import hashlib
import json
import sys
from fractions import Fraction
from pathlib import Path

import numpy as np

import gen
from common import PropertyCheck, Skip, load_autoarray, mask_json, mask_from_json, q

EFFECTS_PATH = Path(__file__).with_name("c11_effects.json")
_EFFECTS = None


def effects():
    global _EFFECTS
    if _EFFECTS is None:
        t = json.loads(EFFECTS_PATH.read_text())
        # round 5/6: operations added to the alphabet in code (all pure, derived objects inherit no cache key)
        for kind, extra in EXTRA_EFFECTS.items():
            if kind not in t["kinds"]:
                continue
            for sect, ents in extra.items():
                for name, e in ents.items():
                    t["kinds"][kind].setdefault(sect, {}).setdefault(name, dict(e))
        validate_effects(t)
        _EFFECTS = t
    return _EFFECTS


EXTRA_EFFECTS = {
    # (R5-C) a structure built from another structure, explicit arguments that are "set but falsy"
    "Mask2D": {"derive": {"remask": {"args": ["0,0", "1/2,-1", "0,3/2"], "keeps": []}}},
    "Array2D": {"derive": {"rewrap_native": {"keeps": []}, "rewrap_slim": {"keeps": []}}},
    "Grid2D": {"derive": {"rewrap_native": {"keeps": []}, "rewrap_slim": {"keeps": []}},
               # (R5-D) reads general.grid.remove_projected_centre unless told explicitly ("cy,cx;angle;flag")
               "queries": {"grid_2d_radial_projected_from": {"args": ["0,0;0;", "1/2,-1;30;", "0,0;0;1", "0,0;0;0"]}}},
}


IMPURE_KINDS = ("MapperValuedMaskedBuf", "MapperValuedMaskedRec")  # known finding D9b


def validate_effects(t):
    """the table must satisfy the hypotheses under which the Lean theorems apply to it
    (C11.reads_outside_impure_operations_report_fresh_values): constructors write nothing
    (`ctorWrites = []`), derivations inherit no cache key (`keeps = false`, hence KeepSound), and the keys
    that write nothing in place form a dependency-closed set (`CleanOn`), the writing keys being exactly the
    operations of known finding D9b."""
    writing, deps = set(), {}
    for kind, spec in t["kinds"].items():
        if spec.get("ctor_writes"):
            raise ValueError(f"effects table: constructor of {kind} declared to write")
        for how, e in spec.get("derive", {}).items():
            if e.get("keeps"):
                raise ValueError(f"effects table: derivation {kind}.{how} declared to keep cache keys {e['keeps']}")
        for k, e in list(spec.get("reads", {}).items()) + list(spec.get("queries", {}).items()):
            full = f"{kind}.{k}"
            deps[full] = [d[1] for d in e.get("deps", [])]
            if e.get("cwrites") or e.get("vwrites"):
                if kind not in IMPURE_KINDS:
                    raise ValueError(f"effects table: {full} declared to write in place (not a recorded finding)")
                writing.add(full)
    for k, ds in deps.items():
        if k not in writing and any(d in writing for d in ds):
            raise ValueError(f"effects table: clean key {k} reads a writing key")
    return True


# ==================================================================================================
# fingerprints
# ==================================================================================================
def fp_bytes(a: np.ndarray) -> str:
    a = np.asarray(a)
    h = hashlib.sha1()
    h.update(str(a.dtype).encode())
    h.update(str(a.shape).encode())
    if a.dtype == object:
        h.update(repr(a.tolist()).encode())
    else:
        h.update(np.ascontiguousarray(a).tobytes())
    return h.hexdigest()[:16]


def _is_structure(v):
    return hasattr(v, "_array") and hasattr(type(v), "with_new_array")


def _cached_names(cls):
    from autoconf.tools.decorators import CachedProperty
    import functools

    names = set()
    for base in cls.__mro__:
        for k, v in vars(base).items():
            if isinstance(v, (CachedProperty, functools.cached_property)):
                names.add(k)
    return names


def canon(v, depth=0):
    """canonical JSON-able description of a reported value (arrays by byte fingerprint)."""
    if v is None or isinstance(v, (bool, str)):
        return v
    if isinstance(v, (int, np.integer)):
        return int(v)
    if isinstance(v, (float, np.floating)):
        return float(v).hex()
    if isinstance(v, (complex, np.complexfloating)):
        return [float(v.real).hex(), float(v.imag).hex()]
    if isinstance(v, np.bool_):
        return bool(v)
    if isinstance(v, np.ndarray):
        return {"nd": fp_bytes(v), "shape": list(v.shape)}
    if _is_structure(v):
        out = {"cls": type(v).__name__, "arr": fp_bytes(np.asarray(v._array)),
               "shape": list(np.shape(v._array))}
        m = v.__dict__.get("mask", None)
        if m is not None and m is not v and _is_structure(m):
            out["mask"] = canon(m, depth + 1)
        for extra in ("pixel_scales", "origin"):
            if extra in v.__dict__:
                out[extra] = canon(v.__dict__[extra], depth + 1)
        return out
    if isinstance(v, (list, tuple)):
        return [canon(x, depth + 1) for x in v]
    if isinstance(v, dict):
        items = []
        for i, (k, x) in enumerate(v.items()):
            kk = k if isinstance(k, (str, int)) else f"{type(k).__name__}#{i}"
            items.append([kk, canon(x, depth + 1)])
        return {"dict": items}
    if hasattr(v, "__dict__") and type(v).__module__.split(".")[0] not in ("scipy", "numpy", "astropy"):
        out = {"cls": type(v).__name__}
        if depth < 3:
            cached = _cached_names(type(v))
            attrs = {}
            for k, x in vars(v).items():
                if k in cached or k in ("run_time_dict", "preloads"):
                    continue
                attrs[k] = canon(x, depth + 1)
            out["attrs"] = attrs
        return out
    out = {"cls": type(v).__name__}
    for k in ("points", "simplices", "vertices", "regions", "point_region", "ridge_points"):
        if hasattr(v, k):  # scipy.spatial Delaunay / Voronoi
            try:
                out[k] = canon(getattr(v, k), depth + 1)
            except Exception:
                pass
    return out


def fp_value(v) -> str:
    return hashlib.sha1(json.dumps(canon(v), sort_keys=True, default=str).encode()).hexdigest()[:16]


def walk_buffers(roots, max_depth=9):
    """{path: ndarray} for every numpy array reachable from the named roots through __dict__s, lists,
    tuples and dicts (cached_property values live in __dict__ and are therefore included)."""
    out = {}
    seen = set()  # every object / array is visited once, under the first path that reaches it (roots in order)

    def rec(v, path, depth, stack):
        if isinstance(v, np.ndarray):
            if id(v) not in seen:
                seen.add(id(v))
                out[path] = v
            return
        if depth > max_depth or id(v) in seen:
            return
        if not isinstance(v, (int, float, str, bool, type(None))):
            seen.add(id(v))
        if isinstance(v, (list, tuple)):
            if len(v) > 64:
                return
            for i, x in enumerate(v):
                rec(x, f"{path}[{i}]", depth + 1, stack)
            return
        if isinstance(v, dict):
            for i, (k, x) in enumerate(v.items()):
                kk = k if isinstance(k, (str, int)) else f"{type(k).__name__}#{i}"
                rec(x, f"{path}[{kk}]", depth + 1, stack)
            return
        d = getattr(v, "__dict__", None)
        if isinstance(d, dict) and type(v).__module__.split(".")[0] in ("autoarray", "props", "__main__"):
            stack = stack | {id(v)}
            for k, x in list(d.items()):
                if k == "run_time_dict":
                    continue
                rec(x, f"{path}.{k}", depth + 1, stack)

    for name, r in roots.items():
        rec(r, name, 0, frozenset())
    return out


def fp_state(v, depth=0, stack=frozenset()):
    """fingerprint of the whole state of an object (every attribute, cached ones included)."""
    if isinstance(v, np.ndarray):
        return fp_bytes(v)
    if v is None or isinstance(v, (bool, int, float, str, complex, np.generic)):
        return repr(v)
    if depth > 5 or id(v) in stack:
        return "..."
    if isinstance(v, (list, tuple)):
        return [fp_state(x, depth + 1, stack) for x in v[:64]]
    if isinstance(v, dict):
        return [[str(k) if isinstance(k, (str, int)) else type(k).__name__, fp_state(x, depth + 1, stack)]
                for k, x in v.items()]
    d = getattr(v, "__dict__", None)
    if isinstance(d, dict):
        stack = stack | {id(v)}
        return [type(v).__name__, [[k, fp_state(x, depth + 1, stack)] for k, x in d.items() if k != "run_time_dict"]]
    return type(v).__name__


_DEFAULTS = None


def shared_defaults():
    """the module-level default instances shared by every call that omits the argument (mutable default
    arguments: SettingsInversion / Preloads / OverSamplingDataset / DatasetModel ...)."""
    global _DEFAULTS
    if _DEFAULTS is None:
        aa = load_autoarray()
        import inspect
        from autoarray.inversion.inversion import factory
        from autoarray.inversion.inversion import inversion_util
        funcs = [("inversion_from", factory.inversion_from), ("inversion_imaging_from", factory.inversion_imaging_from),
                 ("Imaging", aa.Imaging.__init__), ("Imaging.apply_over_sampling", aa.Imaging.apply_over_sampling),
                 ("FitImaging", aa.FitImaging.__init__), ("MapperValued", aa.MapperValued.__init__),
                 ("reconstruction_positive_only_from", inversion_util.reconstruction_positive_only_from)]
        for cls_name in ("InversionImagingMapping", "InversionImagingWTilde"):
            cls = getattr(aa, cls_name, None)
            if cls is not None:
                funcs.append((cls_name, cls.__init__))
        out = {}
        for name, f in funcs:
            try:
                sig = inspect.signature(f)
            except (TypeError, ValueError):
                continue
            for pn, prm in sig.parameters.items():
                dv = prm.default
                if dv is not inspect.Parameter.empty and type(dv).__module__.split(".")[0] == "autoarray":
                    out[f"{name}({pn}=)"] = dv
        _DEFAULTS = out
        global _DEFAULTS_PRISTINE
        _DEFAULTS_PRISTINE = defaults_state()
    return _DEFAULTS


_DEFAULTS_PRISTINE = None


def defaults_state():
    return {k: hashlib.sha1(json.dumps(fp_state(v), default=str).encode()).hexdigest()[:16]
            for k, v in (_DEFAULTS or {}).items()}


def polluted_defaults():
    """shared default instances whose state differs from the one they had when autoarray was imported
    (an earlier operation in this process wrote into them)."""
    shared_defaults()
    cur = defaults_state()
    return sorted(f"default:{k}" for k, f in _DEFAULTS_PRISTINE.items()
                  if cur.get(k) != f and f"default:{k}" not in _DEFAULTS_REPORTED)


_DEFAULTS_REPORTED = set()  # already attributed to an observed step of an earlier case in this process


class Snapshot:
    def __init__(self, inputs, pool):
        self.inputs = {k: fp_bytes(v) for k, v in inputs.items()}
        shared_defaults()
        self.defaults = defaults_state()
        bufs = walk_buffers({f"obj{i}": o for i, o in enumerate(pool)})
        memo = {}
        self.paths = {}
        for p, a in bufs.items():
            if id(a) not in memo:
                memo[id(a)] = fp_bytes(a)
            self.paths[p] = (id(a), memo[id(a)])
        self._keep = list(bufs.values())  # keep ids alive
        self._by_id = {id(a): a for a in self._keep}

    def owners_changed_since(self, before: "Snapshot", pool, inputs):
        """pool objects owning a changed buffer: for each changed array the lowest pool index from which
        it is reachable (a caller-owned input that is itself a pool object counts as that object)."""
        bad_ids = set()
        for p, (i, f) in before.paths.items():
            cur = self.paths.get(p)
            if cur is not None and cur[1] != f:
                bad_ids.add(cur[0])
        toks = {f"default:{k}" for k, f in before.defaults.items() if self.defaults.get(k) != f}
        for k, f in before.inputs.items():
            if k in self.inputs and self.inputs[k] != f:
                arr = inputs[k]
                idx = [j for j, o in enumerate(pool) if o is arr]
                if idx:
                    bad_ids.add(id(arr))
                else:
                    toks.add(f"input:{k}")
        def base_id(i):
            # a view (e.g. `reconstruction[:n]`) belongs to whoever owns the array it is a view of
            a = self._by_id.get(i)
            while a is not None and isinstance(getattr(a, "base", None), np.ndarray) and id(a.base) in self._by_id:
                a = a.base
            return id(a) if a is not None else i

        for bid in {base_id(i) for i in bad_ids}:
            owners = [int(p[3:].split(".")[0].split("[")[0]) for p, (i, _) in self.paths.items() if i == bid]
            if owners:
                toks.add(f"obj{min(owners)}")
        return sorted(toks)

    def changed_since(self, before: "Snapshot"):
        ch = []
        for k, f in before.inputs.items():
            if k in self.inputs and self.inputs[k] != f:
                ch.append(f"input:{k}")
        for p, (i, f) in before.paths.items():
            # a path that exists before and after the step must hold the same bytes (also when the attribute
            # was rebound to a new array); a path that disappears (cache entry deleted) is not compared
            cur = self.paths.get(p)
            if cur is not None and cur[1] != f:
                ch.append(p)
        for k, f in before.defaults.items():
            if self.defaults.get(k) != f:
                ch.append(f"default:{k}")
                _DEFAULTS_REPORTED.add(f"default:{k}")
        return sorted(ch)


# ==================================================================================================
# object graphs
# ==================================================================================================
def _as_container(a, container):
    """the same numbers as an ndarray of another dtype or as nested Python lists (the public constructors
    accept `Union[np.ndarray, List]`)."""
    if container == "int64":
        return a.astype(np.int64)
    if container == "float32":
        return a.astype(np.float32)
    if container == "list":
        return a.tolist()
    if container == "list_int":
        return a.astype(np.int64).tolist()
    return a


# --------------------------------------------------------------------------------------------------
# round 5/6 (R5-C): the same numbers in another memory layout / container.  Layout variants keep dtype and
# values, so the expectation for an object built from one is the object built from the plain C-contiguous
# ndarray (`canonical_build`): a constructor that mishandles Fortran order / strides / read-only input then
# disagrees with the model AND with the oracle, although it is perfectly deterministic.
# --------------------------------------------------------------------------------------------------
LAYOUTS = ("fortran", "tview", "strided", "negstride", "readonly", "list", "sliced", "tuple")
LAYOUT_ROLES = ("mask", "values", "grid_values", "data", "noise", "psf", "model_data", "mv_values",
                "mesh_pixel_mask", "vis")


def _as_layout(a, how, bases=None):
    """equal-valued `a` (ndarray) as a Fortran-ordered copy / transposed view / strided slice of a bigger
    buffer / negatively strided view / read-only array / nested Python lists.  `bases` collects the
    underlying buffers of views (caller-owned too: the gaps must keep their bytes)."""
    if not isinstance(a, np.ndarray) or not how:
        return a
    if how == "fortran":
        return np.asfortranarray(a) if a.ndim >= 2 else a.copy()
    if how == "tview":
        # a transposed view of the transposed copy: same shape and values, Fortran strides, does not own its data
        if a.ndim < 2:
            return a.copy()
        base = np.ascontiguousarray(np.transpose(a))
        if bases is not None:
            bases.append(base)
        return np.transpose(base)
    if how in ("strided", "sliced"):
        # every second element (last axis) of a buffer twice as long, filled with a sentinel in the gaps;
        # "sliced": a window of a bigger buffer (offset view, unit stride in the last axis)
        if a.ndim == 0 or a.size == 0:
            return a.copy()
        fill = True if a.dtype == bool else (7 if np.issubdtype(a.dtype, np.integer) else -77.5)
        if how == "strided":
            big = np.full(a.shape[:-1] + (2 * a.shape[-1] + 1,), fill, dtype=a.dtype)
            v = big[..., 1::2]
        else:
            big = np.full(tuple(s + 2 for s in a.shape), fill, dtype=a.dtype)
            v = big[tuple(slice(1, 1 + s) for s in a.shape)]
        v[...] = a
        if bases is not None:
            bases.append(big)
        return v
    if how == "negstride":
        if a.ndim == 0 or a.size == 0:
            return a.copy()
        base = np.ascontiguousarray(a[::-1])
        if bases is not None:
            bases.append(base)
        return base[::-1]
    if how == "readonly":
        b_ = a.copy()
        b_.flags.writeable = False
        return b_
    if how == "list":
        return a.tolist()
    if how == "tuple":
        def tup(x):
            return tuple(tup(y) for y in x) if isinstance(x, list) else x
        return tup(a.tolist())
    raise ValueError(how)


def canonical_build(b):
    """the build with every layout variant replaced by the plain ndarray (same values, same dtype)."""
    if b.get("graph") == "twoworld":
        ws = [canonical_build(x) for x in b["worlds"]]
        return b if all(x is y for x, y in zip(ws, b["worlds"])) else {**b, "worlds": ws}
    if not b.get("layout"):
        return b
    return {k: v for k, v in b.items() if k != "layout"}


# --------------------------------------------------------------------------------------------------
# round 5/6 (R5-D): configuration values the anchored code reads through `conf.instance[...]`
# --------------------------------------------------------------------------------------------------
CONFIG_KEYS = {
    "positive_only": ("general", "inversion", "use_positive_only_solver"),
    "p_initial": ("general", "inversion", "positive_only_uses_p_initial"),
    "diag": ("general", "inversion", "no_regularization_add_to_curvature_diag_value"),
    "check_rec": ("general", "inversion", "check_reconstruction"),
    "border": ("general", "inversion", "use_border_relocator"),
    "native_only": ("general", "structures", "native_binned_only"),
    "remove_centre": ("general", "grid", "remove_projected_centre"),
}
CONFIG_VALUES = {
    "positive_only": [False, True], "p_initial": [False, True], "diag": [0.5, 0.001, 2.0],
    "check_rec": [False, True], "border": [False], "native_only": [True, False],
    "remove_centre": [True, False],
}


def _conf_section(name):
    from autoconf import conf
    p = CONFIG_KEYS[name]
    return conf.instance[p[0]][p[1]], p[2]


def conf_get(name):
    sec, k = _conf_section(name)
    return sec[k]


def conf_set(name, value):
    sec, k = _conf_section(name)
    sec[k] = value


class config_overrides:
    """context: the named configuration values are in force; the previous values are put back on exit (also on
    exceptions)."""

    def __init__(self, cfg):
        self.cfg = dict(cfg or {})

    def __enter__(self):
        self.old = {}
        for k, v in self.cfg.items():
            try:
                self.old[k] = conf_get(k)
                conf_set(k, v)
            except Exception:
                self.old.pop(k, None)
        return self

    def __exit__(self, *a):
        for k, v in self.old.items():
            try:
                conf_set(k, v)
            except Exception:
                pass
        return False


def cfg_key(cfg):
    return tuple(sorted((k, repr(v)) for k, v in (cfg or {}).items()))


def cfg_timeline(history):
    """configuration overrides in force at every step of a history (a `config` step takes effect at once)."""
    cur, out = {}, []
    for st in history:
        if st.get("op") == "config":
            cur = dict(cur)
            for k, v in st["set"].items():
                if v is None:
                    cur.pop(k, None)
                else:
                    cur[k] = v
        out.append(cur)
    return out


def _arr(vals, shape=None, dtype=float):
    if isinstance(vals, np.ndarray):
        a = np.array(vals, dtype=dtype)  # procedurally generated (large) builds: always a fresh copy
    else:
        a = np.array([float(Fraction(v)) for v in vals], dtype=dtype)
    return a.reshape(shape) if shape is not None else a


def _pairs(vals):
    """(n, 2) float array from a list of ["p/q", "p/q"] pairs (or a fresh copy of an ndarray)."""
    if isinstance(vals, np.ndarray):
        return np.array(vals, dtype=float).reshape(-1, 2)
    return np.array([[float(Fraction(a)), float(Fraction(c))] for a, c in vals], dtype=float).reshape(-1, 2)


class Graph:
    """pool of objects built stage by stage; `kinds[i]` names the effects-table kind of pool[i],
    `parents[i]` the pool indexes it was built from; `inputs` the caller-owned numpy buffers."""

    def __init__(self, track=True):
        self.track = track  # fingerprint inputs / earlier objects around every constructor stage
        self.pool, self.kinds, self.parents = [], [], []
        self.inputs = {}
        self.ctor_changed = []
        self.n_roots = 0

    def add_input(self, role, arr):
        self.inputs[role] = arr
        return arr

    def stage(self, kind, parents, fn):
        if self.track:
            before = Snapshot(self.inputs, self.pool)
        obj = fn()
        if self.track:
            after = Snapshot(self.inputs, self.pool)
            ch = after.changed_since(before)
            if ch:
                self.ctor_changed.append({"stage": len(self.pool), "kind": kind, "changed": ch})
        self.pool.append(obj)
        self.kinds.append(kind)
        self.parents.append(list(parents))
        self.n_roots = len(self.pool)
        return obj


class StopBuild(Exception):
    pass


# --------------------------------------------------------------------------------------------------
# procedurally generated (large) builds: the case stores only the recipe `b["proc"]`; the arrays are
# regenerated deterministically from it, so replays stay small and self-contained (round 4, L1)
# --------------------------------------------------------------------------------------------------
_EXPANDED = {}


def proc_mask(h, w, n_un, my=1, mx=1, holes=0, seed=0):
    """(h, w) boolean mask (True = masked) with exactly `n_un` unmasked pixels: the interior (margins my, mx)
    is filled row by row, so the last row is partial; `holes` interior pixels of the region are masked and the
    same number unmasked at the end of the fill (holes inside the region, count unchanged)."""
    m = np.ones((h, w), dtype=bool)
    hi, wi = h - 2 * my, w - 2 * mx
    n_un = min(n_un, hi * wi)
    flat = np.ones(hi * wi, dtype=bool)
    flat[:n_un] = False
    if holes and n_un + holes <= hi * wi and n_un > 4 * holes:
        rs = np.random.RandomState(seed)
        idx = rs.choice(np.arange(1, n_un - 1), size=holes, replace=False)
        flat[idx] = True
        flat[n_un:n_un + holes] = False
    m[my:h - my, mx:w - mx] = flat.reshape(hi, wi)
    return m


def frame_for(n_un, my=1, mx=1, skew=3):
    """a non-square frame whose interior holds n_un pixels with a partial last row."""
    import math
    wi = max(1, int(math.isqrt(max(n_un, 1))) + skew)
    hi = max(1, -(-n_un // wi))
    return hi + 2 * my, wi + 2 * mx


def _mask_json_np(m):
    return {"h": int(m.shape[0]), "w": int(m.shape[1]), "bits": "".join("1" if v else "0" for v in m.ravel())}


def _dyadic_np(rs, n, lo, hi, bits=2):
    d = 1 << bits
    return rs.randint(lo * d, hi * d + 1, size=n).astype(float) / d


def expand_build(b):
    """the full build spec of a procedural recipe (identity for ordinary builds)."""
    if b.get("graph") == "twoworld":
        ws = [expand_build(x) for x in b["worlds"]]
        if all(x is y for x, y in zip(ws, b["worlds"])):
            return b
        return {**b, "worlds": ws}
    p = b.get("proc")
    if not p:
        return b
    key = hashlib.sha1(json.dumps(b, sort_keys=True).encode()).hexdigest()
    if key in _EXPANDED:
        return _EXPANDED[key]
    rs = np.random.RandomState(p["seed"])
    out = dict(b)
    out["_proc"] = out.pop("proc")  # expanded: not expanded again
    if b["graph"] == "visibilities":
        n = p["n"]
        out["values"] = np.stack([_dyadic_np(rs, n, -8, 8), _dyadic_np(rs, n, -8, 8)], axis=-1)
    elif b["graph"] == "rng":
        h, w = b["shape"]
        out["image"] = _dyadic_np(rs, h * w, 1, 8)
    else:
        h, w = p["h"], p["w"]
        my, mx = p.get("margin", [1, 1])
        if p.get("all_unmasked"):
            m = np.zeros((h, w), dtype=bool)
        else:
            m = proc_mask(h, w, p["n_un"], my, mx, holes=p.get("holes", 0), seed=p["seed"])
        n_un = int((~m).sum())
        out["mask"] = _mask_json_np(m)
        subs = []
        for frac in (2, 3):
            sm = m.copy()
            un = np.flatnonzero(~m.ravel())
            drop = un[rs.rand(len(un)) < 1.0 / frac]
            if 0 < len(drop) < len(un):
                sm.ravel()[drop] = True
            subs.append(_mask_json_np(sm))
        out["submasks"] = subs
        if b["graph"] == "structure":
            st = b["struct"]
            n = h * w if b["form"] == "native" else n_un
            if st in ("Array2D", "Kernel2D"):
                v = _dyadic_np(rs, n, -8, 8)
                if st == "Kernel2D":
                    v = np.abs(v) + 0.25
                out["values"] = v
            elif st != "Mask2D":
                if st == "Grid2D" and p.get("uniform"):
                    sy, sx = (float(Fraction(s)) for s in b["scales"])
                    oy, ox = (float(Fraction(s)) for s in b["origin"])
                    ys, xs = np.nonzero(np.ones_like(m) if b["form"] == "native" else ~m)
                    out["values"] = np.stack([-(ys - (h - 1) / 2) * sy + oy, (xs - (w - 1) / 2) * sx + ox], axis=-1)
                else:
                    out["values"] = np.stack([_dyadic_np(rs, n, -8, 8), _dyadic_np(rs, n, -8, 8)], axis=-1)
                if st == "VectorYX2D":
                    out["grid_values"] = np.stack([_dyadic_np(rs, n, -8, 8), _dyadic_np(rs, n, -8, 8)], axis=-1)
        else:
            out["data"] = _dyadic_np(rs, h * w, -2, 8)
            out["noise"] = _dyadic_np(rs, h * w, 1, 4)
            kh, kw = b["psf_shape"]
            out["psf"] = _dyadic_np(rs, kh * kw, 0, 4) + 0.25
            if p.get("psf_signed"):
                out["psf"][:: 3] *= -1.0
                out["psf"][(kh * kw) // 2] = 8.0
            out["model"] = _dyadic_np(rs, n_un, -2, 8)
            if b["graph"] == "inversion":
                maps = []
                for ms in b["mappers"]:
                    ms = dict(ms)
                    if ms["mesh"] == "delaunay" and "n_points" in ms:
                        # distinct points in general position: a jittered lattice over the source region
                        k = ms["n_points"]
                        side = int(np.ceil(np.sqrt(k)))
                        gy, gx = np.divmod(np.arange(k), side)
                        ext = float(p.get("extent", max(h, w)))
                        pts = np.stack([(gy + 0.5) / side - 0.5, (gx + 0.5) / side - 0.5], axis=-1) * ext
                        pts += (rs.randint(-8, 9, size=pts.shape) / 64.0) * (ext / side)
                        ms["points"] = pts
                    maps.append(ms)
                out["mappers"] = maps
                mv = b.get("valued")
                if mv and isinstance(mv.get("values"), dict):
                    mv = dict(mv)
                    npix = mv["values"]["n"]
                    vals = _dyadic_np(rs, npix, 0, 8) + 0.25
                    if mv.get("pixel_mask") and mv["values"].get("zero_under_mask", True):
                        pm = np.array([c == "1" for c in mv["pixel_mask"]])
                        vals[: len(pm)][pm[: len(vals)]] = 0.0
                    mv["values"] = vals
                    out["valued"] = mv
    if len(_EXPANDED) > 64:
        _EXPANDED.clear()
    _EXPANDED[key] = out
    return out


def n_params_of(ms):
    if ms["mesh"] == "rect":
        return ms["shape"][0] * ms["shape"][1]
    return ms["n_points"] if "n_points" in ms else len(ms["points"])


def world_of(b, root):
    """(world build, first pool index of that world) of the pool root `root` (two-world graphs)."""
    if b.get("graph") != "twoworld":
        return b, 0
    n1 = len(root_kinds(b["worlds"][0]))
    return (b["worlds"][0], 0) if root < n1 else (b["worlds"][1], n1)


def build_graph(b, upto=None, track=True) -> Graph:
    """deterministic builder: equal spec -> equal (fresh) object graph.  `upto` = build only the stages
    needed for pool[upto].  A two-world graph builds two worlds one after the other into one pool, handing
    the helper objects named in `b["share"]` (configuration objects, regularization, mask, PSF object …) of the
    first world to the second; with `upto` only the world of that object is built, standalone (its own helpers):
    the fresh-object expectation of a quantity never involves the other world."""
    b = expand_build(b)
    g = Graph(track=track)
    if b["graph"] == "twoworld":
        w1, w2 = b["worlds"]
        n1 = len(root_kinds(w1))
        if upto is None:
            shared = {"__share__": set(b.get("share", []))}
            _build_world(g, w1, None, shared, "")
            if len(g.pool) != n1:
                raise ValueError("two-world graph: first world incomplete")
            _build_world(g, w2, None, shared, "w2:")
        elif upto < n1:
            _build_world(g, w1, upto, None, "")
        else:
            g.pool, g.kinds, g.parents = [None] * n1, ["Pad"] * n1, [[] for _ in range(n1)]
            _build_world(g, w2, upto - n1, None, "w2:")
        return g
    _build_world(g, b, upto, None, "")
    return g


def _build_world(g, b, upto, shared, tag):
    aa = load_autoarray()
    base = len(g.pool)

    def done():
        return upto is not None and len(g.pool) - base > upto

    def P(*idx):
        return [base + i for i in idx]

    def sh(name, factory):
        """a helper object: the first world's instance when the two-world graph shares `name`."""
        if shared is None or name not in shared["__share__"]:
            return factory()
        if name not in shared:
            shared[name] = factory()
        return shared[name]

    ro = set(b.get("readonly", ()))
    lay = b.get("layout") or {}
    opts = b.get("opts") or {}

    def lay_(role, arr):
        # (R5-C) the same numbers in another memory layout / container; the buffer a view is taken from is
        # caller-owned as well
        how = lay.get(role)
        if not how:
            return arr
        bases = []
        out = _as_layout(arr, how, bases)
        for k_, base_ in enumerate(bases):
            g.add_input(f"{tag}{role}:base{k_}", base_)
        return out

    def inp(role, arr):
        # a caller-owned buffer; handed over read-only when the build says so (memory-mapped / broadcast /
        # exported arrays): any in-place write of the library then raises in the middle of an operation
        if role in ro and isinstance(arr, np.ndarray):
            arr.flags.writeable = False
        return g.add_input(tag + role, arr)

    kind = b["graph"]
    scales = tuple(float(Fraction(s)) for s in b.get("scales", ["1", "1"]))
    origin = tuple(float(Fraction(s)) for s in b.get("origin", ["0", "0"]))
    try:
        if kind == "visibilities":
            pr = _pairs(b["values"])
            vals = np.empty(len(pr), dtype=complex)
            vals.real, vals.imag = pr[:, 0], pr[:, 1]
            vals = lay_("values", vals)
            inp("values", vals)
            g.stage("Buffer", [], lambda: vals)
            if done():
                raise StopBuild
            g.stage("Visibilities", P(0), lambda: aa.Visibilities(visibilities=vals))
            raise StopBuild
        m = mask_from_json(b["mask"])
        h, w = m.shape
        m = lay_("mask", m)
        inp("mask", m)
        g.stage("Buffer", [], lambda: m)                                            # 0
        if done():
            raise StopBuild
        if kind == "structure" and b["struct"] == "Mask2D":
            g.stage("Mask2D", P(0), lambda: aa.Mask2D(mask=m, pixel_scales=scales, origin=origin,
                                                       **opts.get("Mask2D", {})))
            raise StopBuild
        mask = g.stage("Mask2D", P(0), lambda: sh("mask", lambda: aa.Mask2D(
            mask=m, pixel_scales=scales, origin=origin)))                            # 1
        if done():
            raise StopBuild
        if kind == "structure":
            st = b["struct"]
            form, sn = b["form"], b["store_native"]
            n_un = int((~np.asarray(m, dtype=bool)).sum())
            if st in ("Array2D", "Kernel2D"):
                vals = _arr(b["values"], (h, w) if form == "native" else None)
            else:
                vals = _pairs(b["values"])
                if form == "native":
                    vals = vals.reshape(h, w, 2)
            vals = _as_container(vals, b.get("container", "ndarray"))
            vals = lay_("values", vals)
            use_no_mask = b.get("ctor") == "no_mask"
            so = _struct_opts(aa, opts.get(st, {}), b)
            inp("values", vals)
            g.stage("Buffer", [], lambda: vals)                                      # 2
            if done():
                raise StopBuild
            if st == "Array2D" and use_no_mask:
                # alternative constructor of the same functionality (the mask is all-unmasked)
                g.stage("Array2D", P(1, 2), lambda: aa.Array2D.no_mask(values=vals, pixel_scales=scales,
                                                                        shape_native=(h, w), origin=origin))
            elif st == "Array2D":
                g.stage("Array2D", P(1, 2), lambda: aa.Array2D(values=vals, mask=mask, store_native=sn, **so))
            elif st == "Kernel2D" and use_no_mask:
                g.stage("Kernel2D", P(1, 2), lambda: aa.Kernel2D.no_mask(values=vals, pixel_scales=scales,
                                                                          shape_native=(h, w), origin=origin,
                                                                          normalize=b.get("normalize", False)))
            elif st == "Kernel2D":
                g.stage("Kernel2D", P(1, 2), lambda: aa.Kernel2D(values=vals, mask=mask, store_native=sn,
                                                                  normalize=b.get("normalize", False), **so))
            elif st == "Grid2D" and use_no_mask:
                ov = sh("over_sampling", lambda: aa.OverSamplingUniform(sub_size=b.get("sub", 1))) \
                    if b.get("sub") else None
                g.stage("Grid2D", P(1, 2), lambda: aa.Grid2D.no_mask(values=vals, pixel_scales=scales,
                                                                      shape_native=(h, w), origin=origin,
                                                                      over_sampling=ov))
            elif st == "Grid2D":
                ov = sh("over_sampling", lambda: aa.OverSamplingUniform(sub_size=b.get("sub", 1))) \
                    if b.get("sub") else None
                g.stage("Grid2D", P(1, 2), lambda: aa.Grid2D(values=vals, mask=mask, store_native=sn,
                                                              over_sampling=ov, **so))
            elif st == "VectorYX2D":
                gv = _pairs(b["grid_values"])
                if form == "native":
                    gv = gv.reshape(h, w, 2)
                gv = lay_("grid_values", gv)
                inp("grid_values", gv)
                g.stage("VectorYX2D", P(1, 2), lambda: aa.VectorYX2D(values=vals, grid=gv, mask=mask,
                                                                      store_native=sn))
            else:
                raise ValueError(st)
            raise StopBuild
        # ---------------------------------------------------------------- dataset / inversion graphs
        data_n = inp("data", lay_("data", _as_container(_arr(b["data"], (h, w)), b.get("container", "ndarray"))))
        noise_n = inp("noise", lay_("noise", _arr(b["noise"], (h, w))))
        kh, kw = b["psf_shape"]
        psf_n = inp("psf", lay_("psf", _arr(b["psf"], (kh, kw))))
        g.stage("Buffer", [], lambda: data_n)                                        # 2
        if done():
            raise StopBuild
        g.stage("Buffer", [], lambda: noise_n)                                       # 3
        if done():
            raise StopBuild
        g.stage("Buffer", [], lambda: psf_n)                                         # 4
        if done():
            raise StopBuild
        def mk_arr(vals_n):
            if b.get("ds_store_native"):
                # both settings of the storage flag: natively stored data / noise-map handed to the dataset
                mk0 = aa.Mask2D.all_false(shape_native=(h, w), pixel_scales=scales, origin=origin)
                return aa.Array2D(values=vals_n, mask=mk0, store_native=True)
            return aa.Array2D.no_mask(values=vals_n, pixel_scales=scales, origin=origin)

        data = g.stage("Array2D", P(2), lambda: mk_arr(data_n))  # 5
        if done():
            raise StopBuild
        noise = g.stage("Array2D", P(3), lambda: mk_arr(noise_n))  # 6
        if done():
            raise StopBuild
        # (a shared PSF object: the second world's dataset is given the first world's Kernel2D instance)
        psf = g.stage("Kernel2D", P(4), lambda: sh("psf", lambda: aa.Kernel2D.no_mask(
            values=psf_n, pixel_scales=scales)))                                     # 7
        if done():
            raise StopBuild
        sub = b.get("sub", 1)
        ovs_ds = sh("over_sampling_dataset", lambda: aa.OverSamplingDataset(
            uniform=sh("over_sampling", lambda: aa.OverSamplingUniform(sub_size=sub)),
            pixelization=sh("over_sampling_pix", lambda: aa.OverSamplingUniform(sub_size=b.get("sub_pix", 1)))))
        io = _imaging_opts(opts.get("Imaging", {}), noise_n)
        if "noise_covariance_matrix" in io:
            inp("noise_covariance_matrix", io["noise_covariance_matrix"])
        ds0 = g.stage("Imaging", P(5, 6, 7), lambda: aa.Imaging(
            data=data, noise_map=noise, psf=psf, over_sampling=ovs_ds,
            use_normalized_psf=b.get("normalize_psf", True), **io))                  # 8
        if done():
            raise StopBuild
        ds = g.stage("Imaging", P(8, 1), lambda: ds0.apply_mask(mask=mask))          # 9
        if done():
            raise StopBuild
        md = inp("model_data", lay_("model_data", _arr(b["model"], None)))
        g.stage("Buffer", [], lambda: md)                                            # 10
        if done():
            raise StopBuild
        model_data = aa.Array2D(values=md, mask=mask)
        fit_cls = _fit_class(aa)
        fo = _fit_opts(aa, opts.get("FitImaging", {}))
        g.stage("FitImaging", P(9, 10), lambda: fit_cls(dataset=ds, model_data=model_data,
                                                         use_mask_in_fit=b.get("use_mask_in_fit", False), **fo))  # 11
        if done() or kind == "dataset":
            raise StopBuild
        # ---------------------------------------------------------------- inversion
        sub_pix = b.get("sub_pix", 1)
        ovs = g.stage("OverSampler", P(1), lambda: sh("over_sampler", lambda: aa.OverSamplerUniform(
            mask=mask, sub_size=sub_pix)))                                           # 12
        if done():
            raise StopBuild
        # source-plane grid: the over-sampled image grid pushed through a fixed smooth distortion
        a11, a12, a21, a22 = (float(Fraction(s)) for s in b.get("distort", ["1", "0", "0", "1"]))

        def mk_grid():
            gr = np.array(ovs.over_sampled_grid.array)
            out = np.stack([a11 * gr[:, 0] + a12 * gr[:, 1], a21 * gr[:, 0] + a22 * gr[:, 1]], axis=-1)
            return aa.Grid2DIrregular(values=out)

        sgrid = g.stage("Grid2DIrregular", P(12), mk_grid)                           # 13
        if done():
            raise StopBuild
        mappers = []
        mapper_idx = []
        for mi, ms in enumerate(b["mappers"]):
            def mk_mesh(ms=ms):
                if ms["mesh"] == "rect":
                    return aa.Mesh2DRectangular.overlay_grid(grid=sgrid, shape_native=tuple(ms["shape"]))
                return aa.Mesh2DDelaunay(values=_pairs(ms["points"]))

            mesh = g.stage("Mesh", P(13), mk_mesh)
            if done():
                raise StopBuild
            mesh_idx = len(g.pool) - 1

            def mk_reg(ms=ms):
                if ms.get("reg") == "constant":
                    return aa.reg.Constant(coefficient=float(Fraction(ms.get("coeff", "1"))))
                if ms.get("reg") == "zeroth":
                    return aa.reg.ConstantZeroth(coefficient_neighbor=float(Fraction(ms.get("coeff", "1"))),
                                                 coefficient_zeroth=0.5)
                return None

            def mk_mapper(ms=ms, mesh=mesh, mi=mi):
                mg = aa.MapperGrids(mask=mask, source_plane_data_grid=sgrid, source_plane_mesh_grid=mesh,
                                    image_plane_mesh_grid=None, adapt_data=None, **_plain_opts(opts.get("MapperGrids", {})))
                # (a shared regularization instance: only when both worlds ask for the same scheme / coefficient)
                reg = sh(f"regularization{mi}:{ms.get('reg')}:{ms.get('coeff', '1')}", lambda: mk_reg(ms)) \
                    if shared is not None and "regularization" in shared["__share__"] else mk_reg(ms)
                cls = aa.MapperRectangular if ms["mesh"] == "rect" else aa.MapperDelaunay
                return cls(mapper_grids=mg, over_sampler=ovs, border_relocator=None, regularization=reg,
                           **_plain_opts(opts.get("Mapper", {})))

            mappers.append(g.stage("Mapper", [base + 1, base + 13, mesh_idx, base + 12], mk_mapper))
            mapper_idx.append(len(g.pool) - 1)
            if done():
                raise StopBuild
        so_ = _plain_opts(opts.get("SettingsInversion", {}))
        if b.get("settings_implicit"):
            # (R5-D) the settings leave these to the configuration: `None` = "the value in the config files"
            skw = {"use_w_tilde": b.get("w_tilde", False)}
        else:
            skw = {"use_w_tilde": b.get("w_tilde", False), "use_positive_only_solver": b.get("positive_only", False),
                   "no_regularization_add_to_curvature_diag_value": float(Fraction(b.get("diag", "1")))}
            if b.get("p_initial") is not None:
                skw["positive_only_uses_p_initial"] = b["p_initial"]
        skw.update(so_)
        settings = sh("settings", lambda: aa.SettingsInversion(**skw))
        iko = _plain_opts(opts.get("Inversion", {}))
        if b.get("preloads") or (shared is not None and "preloads" in shared["__share__"]):
            # an explicit (empty) Preloads instance, possibly one instance for both worlds
            pre = sh("preloads", lambda: aa.Preloads())
            mk_inv = lambda: aa.Inversion(dataset=ds, linear_obj_list=list(mappers), settings=settings, preloads=pre,
                                          **iko)
        else:
            mk_inv = lambda: aa.Inversion(dataset=ds, linear_obj_list=list(mappers), settings=settings, **iko)
        inv = g.stage("Inversion", [base + 9] + mapper_idx, mk_inv)
        if done():
            raise StopBuild
        inv_idx = len(g.pool) - 1
        g.stage("FitInversion", [base + 9, inv_idx], lambda: fit_cls(
            dataset=ds, model_data=None, inversion=inv, use_mask_in_fit=b.get("use_mask_in_fit", False), **fo))
        if done():
            raise StopBuild
        mv = b.get("valued")
        if mv:
            pm = np.array([c == "1" for c in mv["pixel_mask"]], dtype=bool) if mv.get("pixel_mask") else None
            if pm is not None:
                pm = lay_("mesh_pixel_mask", pm)
                inp("mesh_pixel_mask", pm)
            mv_kind = mv_kind_of(mv)
            if isinstance(mv["values"], str) and mv["values"] == "reconstruction":
                def mk_mv():
                    # the usual use: the valued mapper is handed the inversion's (cached) reconstruction
                    try:
                        rec = inv.reconstruction
                    except Exception:
                        rec = np.zeros(sum(mp.params for mp in mappers))
                    if len(mappers) > 1:
                        rec = rec[: mappers[0].params]
                    return aa.MapperValued(mapper=mappers[0], values=rec, mesh_pixel_mask=pm)

                g.stage(mv_kind, [mapper_idx[0], inv_idx], mk_mv)
            else:
                vals_a = _arr(mv["values"], None)
                if mv.get("len_delta", 0) > 0:    # values of the wrong length: queries fail in the middle
                    vals_a = np.concatenate([vals_a, np.full(mv["len_delta"], 1.5)])
                elif mv.get("len_delta", 0) < 0:
                    vals_a = vals_a[: mv["len_delta"]]
                vals = inp("mv_values", lay_("mv_values", vals_a))
                g.stage("Buffer", [], lambda: vals)
                if done():
                    raise StopBuild
                g.stage(mv_kind, [mapper_idx[0], len(g.pool) - 1], lambda: aa.MapperValued(
                    mapper=mappers[0], values=vals, mesh_pixel_mask=pm))
    except StopBuild:
        pass
    return g


def _plain_opts(o):
    """JSON option values as keyword arguments (fractions stay strings in the case: "f:1/2" -> 0.5)."""
    out = {}
    for k, v in (o or {}).items():
        if isinstance(v, str) and v.startswith("f:"):
            v = float(Fraction(v[2:]))
        elif isinstance(v, str) and v == "dict:":
            v = {}
        out[k] = v
    return out


def _struct_opts(aa, o, b):
    out = {}
    for k, v in (o or {}).items():
        if k == "header":
            out[k] = aa.Header(header_sci_obj={"EXPTIME": 2.0} if v else None) if v is not None else None
        elif k == "over_sampling_non_uniform":
            out[k] = aa.OverSamplingUniform(sub_size=int(v)) if v is not None else None
        else:
            out[k] = v
    return out


def _imaging_opts(o, noise_n):
    out = {}
    for k, v in (o or {}).items():
        if k == "noise_covariance_matrix":
            if v:
                nm = np.asarray(noise_n, dtype=float).ravel()
                out[k] = np.diag(nm * nm)
        else:
            out[k] = v
    return out


def _fit_opts(aa, o):
    out = {}
    for k, v in (o or {}).items():
        if k == "dataset_model":
            sky, oy, ox = (float(Fraction(x)) for x in v)
            out[k] = aa.DatasetModel(background_sky_level=sky, grid_offset=(oy, ox))
        elif k == "run_time_dict":
            out[k] = {} if v == "dict:" else v
        else:
            out[k] = v
    return out


def mv_kind_of(mv):
    """effects-table kind of a valued mapper: without a mesh_pixel_mask every operation is pure; with one,
    `values_masked` (and everything built on it) writes into the values it was given — a caller-owned
    buffer or the inversion's cached reconstruction (known finding D9b)."""
    if not mv.get("pixel_mask"):
        return "MapperValued"
    return "MapperValuedMaskedRec" if mv_from_rec(mv) else "MapperValuedMaskedBuf"


def mv_from_rec(mv):
    return isinstance(mv.get("values"), str) and mv["values"] == "reconstruction"


_FIT = None


def _fit_class(aa):
    global _FIT
    if _FIT is None:
        class FitC11(aa.FitImaging):
            def __init__(self, dataset, model_data, inversion=None, use_mask_in_fit=False, **kw):
                super().__init__(dataset=dataset, use_mask_in_fit=use_mask_in_fit, **kw)
                self._model_data = model_data
                self._inversion = inversion

            @property
            def model_data(self):
                if self._model_data is None and self._inversion is not None:
                    return self._inversion.mapped_reconstructed_data
                return self._model_data

            @property
            def inversion(self):
                return self._inversion

        _FIT = FitC11
    return _FIT


# ==================================================================================================
# operations: reads, queries, derivations
# ==================================================================================================
def do_read(obj, key):
    """dotted attribute path; a trailing component `name()` calls a zero-argument method."""
    if key == "bytes" and isinstance(obj, np.ndarray):
        return obj
    v = obj
    for part in key.split("."):
        if part.endswith("()"):
            v = getattr(v, part[:-2])()
        else:
            v = getattr(v, part)
    return v


def _shape_arg(s):
    a, b_ = s.split("x")
    return (int(a), int(b_))


def do_query(obj, kind, name, arg, build, track=None):
    """query methods with arguments; every array argument is created here (caller-owned, fresh) and
    registered in `track` (name -> (array, fingerprint at creation)) so the caller can check it afterwards."""
    aa = load_autoarray()

    def own(nm, a):
        if track is not None:
            track[nm] = (a, fp_bytes(a))
        return a

    if name == "blurring_from":
        return obj.derive_mask.blurring_from(kernel_shape_native=_shape_arg(arg))
    if name == "sub_mask":
        return obj.derive_mask.sub_1 if hasattr(obj.derive_mask, "sub_1") else obj.derive_mask.all_false
    if name == "distances_to_coordinate_from":
        y, x = (float(Fraction(s)) for s in arg.split(","))
        return obj.distances_to_coordinate_from(coordinate=(y, x))
    if name == "squared_distances_to_coordinate_from":
        y, x = (float(Fraction(s)) for s in arg.split(","))
        return obj.squared_distances_to_coordinate_from(coordinate=(y, x))
    if name == "extent_with_buffer_from":
        return obj.extent_with_buffer_from(buffer=float(Fraction(arg)))
    if name == "grid_2d_radial_projected_from":
        c_, ang, flag = arg.split(";")
        cy, cx = (float(Fraction(s)) for s in c_.split(","))
        kw = {} if flag == "" else {"remove_projected_centre": flag == "1"}
        return obj.grid_2d_radial_projected_from(centre=(cy, cx), angle=float(Fraction(ang)), **kw)
    if name == "convolved_array_from" and arg == "bad_native":
        # an image whose native form is not 2D: the convolution raises half-way
        class _Native:
            def __init__(self, a):
                self.native = a
        return obj.convolved_array_from(array=_Native(own("image", np.arange(1.0, 7.0))))
    if name == "convolved_array_from":
        # obj: Kernel2D; convolve the build's data image (fresh caller array)
        h, w = build["mask"]["h"], build["mask"]["w"]
        src = build.get("data") if build.get("data") is not None else build.get("image")
        vals = own("image", _arr(src, (h, w)) if src is not None else np.arange(1.0, h * w + 1.0).reshape(h, w))
        arr = aa.Array2D.no_mask(values=vals, pixel_scales=obj.pixel_scales)
        own("image_array2d", arr._array)
        return obj.convolved_array_from(array=arr)
    if name == "trimmed_array_from":
        return obj.trimmed_array_from(padded_array=own("padded", np.ones(obj.shape_native)), image_shape=_shape_arg(arg))
    if name == "max_pixel_list_from":
        tot, filt = arg.split(",")
        return obj.max_pixel_list_from(total_pixels=int(tot), filter_neighbors=filt == "1")
    if name == "interpolated_array_from":
        return obj.interpolated_array_from(shape_native=_shape_arg(arg))
    if name == "mapped_reconstructed_image_from":
        return obj.mapped_reconstructed_image_from()
    if name == "magnification_via_interpolation_from":
        return obj.magnification_via_interpolation_from(shape_native=_shape_arg(arg))
    if name == "regularization_weights_from":
        return obj.regularization_weights_from(index=int(arg))
    if name == "pixel_signals_from":
        return obj.pixel_signals_from(signal_scale=float(Fraction(arg)))
    if name == "mapped_to_source_from" and arg == "bad_len":
        # a caller's array of the wrong length: the call fails (or not) in the middle; the objects are used afterwards
        class _Slim:
            def __init__(self, a):
                self.slim = a
        n = obj.mapper_grids.mask.pixels_in_mask
        return obj.mapped_to_source_from(array=_Slim(own("array_values", np.arange(1.0, n + 2.0))))
    if name == "mapped_to_source_from":
        n = obj.mapper_grids.mask.pixels_in_mask
        arr = aa.Array2D(values=own("array_values", np.arange(1.0, n + 1.0)), mask=obj.mapper_grids.mask)
        own("array", arr._array)
        return obj.mapped_to_source_from(array=arr)
    if name == "mapper_interpolated_array_from":
        bad, _, shp = arg.rpartition(":")
        vals = own("values", np.arange(1.0, obj.params + (2.0 if bad == "bad_len" else 1.0)))
        if bad == "readonly":
            vals.flags.writeable = False
        return obj.interpolated_array_from(values=vals, shape_native=_shape_arg(shp))
    if name == "source_quantity_dict_from":
        return obj.source_quantity_dict_from(source_quantity=obj.reconstruction)
    if name == "convolve_mapping_matrix":
        mm = own("mapping_matrix", np.array(obj.linear_obj_list[0].mapping_matrix))
        return obj.convolver.convolve_mapping_matrix(mapping_matrix=mm)
    if name == "binned_array_2d_from":
        n = obj.sub_total
        arr = own("array", np.arange(1.0, n + (2.0 if arg == "bad_len" else 1.0)))
        if arg == "readonly":
            arr.flags.writeable = False
        return obj.binned_array_2d_from(array=arr)
    raise ValueError(f"unknown query {name}")


def _submask(build, idx, shape=None):
    aa = load_autoarray()
    sm = build["submasks"][idx]
    return mask_from_json(sm)


def do_derive(obj, kind, g, build):
    """apply derivation g ("how" or "how:arg"); returns the derived object."""
    aa = load_autoarray()
    how, _, arg = g.partition(":")
    if how == "mul":
        return obj * float(Fraction(arg))
    if how == "rmul":
        return float(Fraction(arg)) * obj
    if how == "add":
        return obj + float(Fraction(arg))
    if how == "sub":
        return obj - float(Fraction(arg))
    if how == "rsub":
        return float(Fraction(arg)) - obj
    if how == "div":
        return obj / float(Fraction(arg))
    if how == "neg":
        return -obj
    if how == "abs":
        return abs(obj)
    if how == "pow":
        return obj ** int(arg)
    if how == "add_self":
        return obj + obj
    if how == "mul_array":
        return obj * np.full(np.shape(obj.array), float(Fraction(arg)))
    if how == "slice":
        a, b_ = arg.split(",")
        return obj[int(a):int(b_)]
    if how == "copy":
        return obj.copy()
    if how == "copy_copy":
        import copy as _copy
        return _copy.copy(obj)
    if how == "deepcopy":
        import copy as _copy
        return _copy.deepcopy(obj)
    if how == "astype":
        return obj.astype(arg)
    if how == "real":
        return obj.real
    if how == "conj_like":
        return obj * (1 - 0j) if np.iscomplexobj(obj.array) else obj * 1.0
    if how == "rewrap":
        if kind == "Grid2D":
            return aa.Grid2D(values=obj, mask=obj.mask, over_sampling=obj.over_sampling)
        return type(obj)(values=obj, mask=obj.mask)
    if how in ("rewrap_native", "rewrap_slim"):
        sn = how == "rewrap_native"
        if kind == "Grid2D":
            return aa.Grid2D(values=obj, mask=obj.mask, store_native=sn, over_sampling=obj.over_sampling)
        return type(obj)(values=obj, mask=obj.mask, store_native=sn)
    if how == "remask":
        oy, ox = (float(Fraction(s)) for s in arg.split(","))
        return aa.Mask2D(mask=obj, pixel_scales=obj.pixel_scales, origin=(oy, ox))
    if how == "native":
        return obj.native
    if how == "slim":
        return obj.slim
    if how == "flipped":
        return obj.flipped
    if how == "in_radians":
        return obj.in_radians
    if how == "subtracted_from":
        y, x = (float(Fraction(s)) for s in arg.split(","))
        return obj.subtracted_from(offset=(y, x))
    if how == "deflected":
        return obj.grid_2d_via_deflection_grid_from(deflection_grid=obj * float(Fraction(arg)))
    if how == "padded_grid_from":
        return obj.padded_grid_from(kernel_shape=_shape_arg(arg))
    if how == "normalized":
        return obj.normalized
    if how == "rescaled_odd":
        return obj.rescaled_with_odd_dimensions_from(rescale_factor=float(Fraction(arg)))
    if how == "apply_mask":
        m = _submask(build, int(arg))
        mk = aa.Mask2D(mask=m, pixel_scales=obj.mask.pixel_scales, origin=obj.mask.origin)
        return obj.apply_mask(mask=mk)
    if how == "trimmed":
        return obj.trimmed_after_convolution_from(kernel_shape=_shape_arg(arg))
    if how == "padded":
        return obj.padded_before_convolution_from(kernel_shape=_shape_arg(arg))
    if how == "resized":
        return obj.resized_from(new_shape=_shape_arg(arg))
    if how == "zoomed":
        return obj.zoomed_around_mask(buffer=int(arg))
    if how == "rescaled":
        return obj.rescaled_from(rescale_factor=float(Fraction(arg)))
    if how == "mask_resized":
        return obj.resized_from(new_shape=_shape_arg(arg))
    if how == "derive_mask":
        return getattr(obj.derive_mask, arg)
    if how == "apply_over_sampling":
        s_u, s_p = (int(s) for s in arg.split(","))
        return obj.apply_over_sampling(over_sampling=aa.OverSamplingDataset(
            uniform=aa.OverSamplingUniform(sub_size=s_u), pixelization=aa.OverSamplingUniform(sub_size=s_p)))
    if how == "apply_noise_scaling":
        m = _submask(build, int(arg))
        mk = aa.Mask2D(mask=m, pixel_scales=obj.mask.pixel_scales, origin=obj.mask.origin)
        return obj.apply_noise_scaling(mask=mk, noise_value=64.0)
    raise ValueError(f"unknown derivation {g}")


def derive_twin(obj, kind, g):
    """(R5-C) for a derivation that constructs a structure FROM a structure: the same public constructor called
    with the source's plain ndarray and the same explicit arguments (None where not defined).  The derived object
    must report what this one reports."""
    aa = load_autoarray()
    how, _, arg = g.partition(":")
    try:
        if how == "remask":
            oy, ox = (float(Fraction(s)) for s in arg.split(","))
            return aa.Mask2D(mask=np.array(obj.array, dtype=bool), pixel_scales=obj.pixel_scales, origin=(oy, ox))
        if how in ("rewrap", "rewrap_native", "rewrap_slim"):
            sn = {"rewrap": False, "rewrap_native": True, "rewrap_slim": False}[how]
            if kind == "Grid2D":
                return aa.Grid2D(values=np.array(obj.array), mask=obj.mask, store_native=sn,
                                 over_sampling=obj.over_sampling)
            if kind in ("Array2D", "Kernel2D"):
                return type(obj)(values=np.array(obj.array), mask=obj.mask, store_native=sn)
    except Exception:
        return None
    return None


TWIN_HOWS = ("remask", "rewrap", "rewrap_native", "rewrap_slim")


def deriv_class(kind, g):
    how = g.partition(":")[0]
    return f"{kind}.{how}"


def result_kind(kind, g):
    how = g.partition(":")[0]
    rk = effects()["kinds"][kind]["derive"].get(how, {}).get("result")
    return rk or kind


# ---- independent statement of the cached quantities, from the object's own array (numpy only) -------
def direct_expectation(obj, kind, key):
    """value of a quantity computed here from the object's own contents, or None if not stated."""
    try:
        if kind == "Visibilities" and key == "amplitudes":
            a = np.asarray(obj.array)
            return np.sqrt(np.square(a.real) + np.square(a.imag))
        if kind == "Visibilities" and key == "phases":
            a = np.asarray(obj.array)
            return np.arctan2(a.imag, a.real)
        if kind == "Visibilities" and key == "in_array":
            a = np.asarray(obj.array)
            return np.stack((np.real(a), np.imag(a)), axis=-1)
    except Exception:
        return None
    return None


def rebuild(obj, kind, kernel_ok=False):
    """a brand-new object constructed through the public constructor from `obj`'s own array and mask
    (its *contents*); None when the kind has no such constructor or the contents are not a valid input."""
    aa = load_autoarray()
    try:
        if kind == "Visibilities":
            return aa.Visibilities(visibilities=np.array(obj.array))
        if kind == "Mask2D":
            return aa.Mask2D(mask=np.array(obj.array), pixel_scales=obj.pixel_scales, origin=obj.origin)
        if kind == "Array2D":
            return aa.Array2D(values=np.array(obj.array), mask=obj.mask, header=obj.header,
                              store_native=obj.store_native)
        if kind == "Kernel2D" and kernel_ok:
            return aa.Kernel2D(values=np.array(obj.array), mask=obj.mask, header=obj.header,
                               store_native=obj.store_native)
        if kind == "Grid2D":
            return aa.Grid2D(values=np.array(obj.array), mask=obj.mask,
                             store_native=len(np.shape(obj.array)) == 3,
                             over_sampling=obj.over_sampling,
                             over_sampling_non_uniform=obj.over_sampling_non_uniform)
        if kind == "Imaging":
            return aa.Imaging(data=obj.data, noise_map=obj.noise_map, psf=obj.psf,
                              noise_covariance_matrix=obj.noise_covariance_matrix,
                              over_sampling=obj.over_sampling, use_normalized_psf=False,
                              check_noise_map=False)
    except Exception:
        return None
    return None


def _same_contents(rb, obj, kind):
    try:
        if kind == "Imaging":
            return True
        return fp_bytes(np.asarray(rb.array)) == fp_bytes(np.asarray(obj.array))
    except Exception:
        return False


def safe_value(fn):
    try:
        return fp_value(fn())
    except Skip:
        raise
    except Exception as e:
        return f"err:{type(e).__name__}"


# ==================================================================================================
# module-level state of the library (round 4, L2): a fresh-object expectation is evaluated with every
# module-level / class-level mutable container of autoarray (memo dictionaries, registries, lru caches) put
# back to the content it had when the package was imported — "a freshly built equal object" must not see
# what an earlier object left in a module-level memo keyed on shape / np.allclose / a seed only
# ==================================================================================================
_MODSTATE = {"pristine": None, "conts": None, "lru": None, "n_modules": 0}


def _container_copy(c):
    return list(c) if isinstance(c, list) else set(c) if isinstance(c, set) else dict(c)


def _container_assign(c, content):
    if isinstance(c, list):
        c[:] = content
    else:
        c.clear()
        c.update(content)


def _fn_containers(f, prefix, conts):
    """mutable containers hidden in a function: attributes, default arguments, closure cells."""
    try:
        for fk, fv in list(vars(f).items()):
            if not fk.startswith("__") and isinstance(fv, (dict, list, set)):
                conts[prefix + (fk,)] = fv
        for i, dv in enumerate(getattr(f, "__defaults__", None) or ()):
            if isinstance(dv, (dict, list, set)):
                conts[prefix + (f"<default {i}>",)] = dv
        for dk, dv in (getattr(f, "__kwdefaults__", None) or {}).items():
            if isinstance(dv, (dict, list, set)):
                conts[prefix + (f"<kwdefault {dk}>",)] = dv
        for i, cell in enumerate(getattr(f, "__closure__", None) or ()):
            try:
                cv = cell.cell_contents
            except ValueError:
                continue
            if isinstance(cv, (dict, list, set)):
                conts[prefix + (f"<closure {i}>",)] = cv
    except Exception:
        pass


def _is_code_like(v):
    import types
    return isinstance(v, (types.ModuleType, types.FunctionType, types.BuiltinFunctionType, types.MethodType, type,
                          property, staticmethod, classmethod, types.MethodDescriptorType,
                          types.WrapperDescriptorType, types.GetSetDescriptorType, types.MemberDescriptorType)) \
        or hasattr(v, "__get__") or callable(v)


def _attr_holders():
    """the namespaces in which a process-wide memo / cached default can be kept as a plain attribute: the modules
    of the library and the classes they define (plotting left out: never reached from a history)."""
    out = []
    for name, mod in list(sys.modules.items()):
        if mod is None or not (name == "autoarray" or name.startswith("autoarray.")) or ".plot" in name:
            continue
        out.append((mod, vars(mod)))
        for k, v in list(vars(mod).items()):
            if isinstance(v, type) and getattr(v, "__module__", None) == name:
                out.append((v, vars(v)))
    return out


def _data_attrs(d):
    return {k: v for k, v in d.items() if not k.startswith("__") and not _is_code_like(v)}


def _scalar_state_init():
    # per namespace: its size (an added / removed name changes it) and its data attributes (rebinding changes identity)
    _MODSTATE["holders"] = [[h, d, len(d), _data_attrs(d), dict(d)] for h, d in _attr_holders()]
    _MODSTATE["resets"] = 0


def _scalar_divergence():
    """[(holder, name, import-time value | _MISSING, current value | _MISSING)] for every data attribute of a library
    module / class that was rebound, added or removed since import (code objects — functions, properties, classes,
    modules: monkeypatching, lazy imports — are not state)."""
    out = []
    hs = _MODSTATE.get("holders")
    if hs is None:
        return out
    for rec in hs:
        h, d, n0, data0, snap0 = rec
        if len(d) == n0:
            same = True
            for k, v in data0.items():
                if d.get(k, _MISSING) is not v:
                    same = False
                    break
            if same:
                continue
        found = False
        for k in set(d) | set(snap0):
            if k.startswith("__"):
                continue
            v0, v1 = snap0.get(k, _MISSING), d.get(k, _MISSING)
            if v0 is v1:
                continue
            if (v0 is _MISSING or _is_code_like(v0)) and (v1 is _MISSING or _is_code_like(v1)):
                continue
            out.append((h, k, v0, v1))
            found = True
        if not found:
            # only code-like differences (lazy imports, monkeypatches): new baseline
            rec[2], rec[3], rec[4] = len(d), _data_attrs(d), dict(d)
    return out


_MISSING = object()


def _scan_module_state():
    import types
    conts, lru = {}, []
    for name, mod in list(sys.modules.items()):
        if mod is None or not (name == "autoarray" or name.startswith("autoarray.")):
            continue
        for k, v in list(vars(mod).items()):
            if k.startswith("__"):
                continue
            if isinstance(v, (dict, list, set)):
                conts[(name, k)] = v
            elif isinstance(v, type) and getattr(v, "__module__", None) == name:
                for ck, cv in list(vars(v).items()):
                    if not ck.startswith("__") and isinstance(cv, (dict, list, set)):
                        conts[(name, f"{v.__name__}.{ck}")] = cv
                    f = getattr(cv, "__func__", cv)
                    if isinstance(cv, property):
                        f = cv.fget
                    elif hasattr(cv, "func") and isinstance(getattr(cv, "func"), types.FunctionType):
                        f = cv.func  # autoconf / functools cached_property
                    if hasattr(f, "cache_clear"):
                        lru.append(f)
                    elif isinstance(f, types.FunctionType):
                        _fn_containers(f, (name, f"{v.__name__}.{ck}"), conts)
            elif hasattr(v, "cache_clear") and callable(v):
                lru.append(v)
            elif isinstance(v, types.FunctionType) and v.__module__ == name:
                _fn_containers(getattr(v, "__wrapped__", v), (name, k), conts)
    return conts, lru


def module_state_init():
    """record the import-time content of every module-level container (called once, before any case)."""
    if _MODSTATE["pristine"] is None:
        load_autoarray()
        conts, lru = _scan_module_state()
        _MODSTATE.update(conts=conts, lru=lru, pristine={k: _container_copy(c) for k, c in conts.items()},
                         n_modules=len(sys.modules))
        _scalar_state_init()


def module_state_rescan():
    """containers created after import (lazily created memo dictionaries) start empty."""
    module_state_init()
    conts, lru = _scan_module_state()
    for k, c in conts.items():
        if k not in _MODSTATE["conts"] or _MODSTATE["conts"][k] is not c:
            known = k in _MODSTATE["pristine"]
            _MODSTATE["conts"][k] = c
            if not known:
                _MODSTATE["pristine"][k] = type(c)() if isinstance(c, (dict, list, set)) else {}
    _MODSTATE["lru"] = lru


class pristine_module_state:
    """context: module-level containers hold their import-time content; restored afterwards."""

    def __enter__(self):
        module_state_init()
        self.saved = {}
        for k, c in _MODSTATE["conts"].items():
            try:
                self.saved[k] = _container_copy(c)
                _container_assign(c, _MODSTATE["pristine"][k])
            except Exception:
                self.saved.pop(k, None)
        for f in _MODSTATE["lru"]:
            try:
                f.cache_clear()
            except Exception:
                pass
        # (round 5/6) plain attributes of the library's modules / classes rebound or added since import — a memo kept
        # in a module global, a configuration default cached in a class attribute — hold their import-time value
        self.rebound = []
        for h, k, v0, v1 in _scalar_divergence():
            try:
                if v0 is _MISSING:
                    delattr(h, k)
                else:
                    setattr(h, k, v0)
                self.rebound.append((h, k, v1))
                _MODSTATE["resets"] = _MODSTATE.get("resets", 0) + 1
            except Exception:
                pass
        return self

    def __exit__(self, *a):
        for h, k, v1 in self.rebound:
            try:
                if v1 is _MISSING:
                    delattr(h, k)
                else:
                    setattr(h, k, v1)
            except Exception:
                pass
        for k, content in self.saved.items():
            try:
                _container_assign(_MODSTATE["conts"][k], content)
            except Exception:
                pass
        return False


# ==================================================================================================
# interrupts (round 4, L2 "fault then reuse"): an exception injected at the k-th call of a module-level
# function of the library's *_util modules made during one read / query (a MemoryError / KeyboardInterrupt can
# arrive at any call boundary); the objects are used afterwards and must report fresh-object values
# ==================================================================================================
class InjectedFault(MemoryError):
    pass


def _util_functions():
    import types
    out = []
    for name, mod in list(sys.modules.items()):
        if mod is None or not name.startswith("autoarray.") or not name.rsplit(".", 1)[-1].endswith("util"):
            continue
        if name.endswith("numba_util"):
            continue
        for fn, f in list(vars(mod).items()):
            if isinstance(f, types.FunctionType) and getattr(f, "__module__", None) == name and not fn.startswith("_"):
                out.append((mod, fn, f))
    return out


class inject_fault:
    """context: the k-th call (1-based) of any library util function raises InjectedFault."""

    def __init__(self, k):
        self.k, self.count, self.fired, self.site = k, 0, False, None

    def __enter__(self):
        import functools
        self.patched = []
        for mod, fn, f in _util_functions():
            def mk(f=f, fn=fn, mod=mod):
                @functools.wraps(f)
                def wrapper(*a, **kw):
                    self.count += 1
                    if self.count == self.k:
                        self.fired, self.site = True, f"{mod.__name__}.{fn}"
                        raise InjectedFault(f"injected at call {self.k}: {mod.__name__}.{fn}")
                    return f(*a, **kw)
                return wrapper
            setattr(mod, fn, mk())
            self.patched.append((mod, fn, f))
        return self

    def __exit__(self, *a):
        for mod, fn, f in self.patched:
            setattr(mod, fn, f)
        return False


# ==================================================================================================
# running a history
# ==================================================================================================
def term_key(root, path):
    return f"{root}|{'/'.join(path)}"


class FreshEval:
    """value of (key) on a freshly built equal object described by a contents term."""

    _shared = {}  # build-key -> memo; the same fresh value serves the oracle and the model's interpretation

    def __init__(self, build):
        bk = hashlib.sha1(json.dumps(build, sort_keys=True).encode()).hexdigest()
        self.build_as_given = expand_build(build)
        # (R5-C) the fresh equal object is built from the plain C-contiguous ndarrays of the same values; the
        # caller's buffers themselves (kind Buffer) are what they are
        cb = canonical_build(build)
        self.build = self.build_as_given if cb is build else expand_build(cb)
        self._kinds = None
        if bk not in FreshEval._shared:
            if len(FreshEval._shared) > 4000:
                FreshEval._shared.clear()
            FreshEval._shared[bk] = {}
        self.memo = FreshEval._shared[bk]

    def _build_for(self, root):
        if self.build is self.build_as_given:
            return self.build
        if self._kinds is None:
            self._kinds = root_kinds(self.build_as_given)
        return self.build_as_given if (root < len(self._kinds) and self._kinds[root] == "Buffer") else self.build

    def obj(self, root, path):
        bld = self._build_for(root)
        g = build_graph(bld, upto=root, track=False)
        o, kind = g.pool[root], g.kinds[root]
        wb = world_of(bld, root)[0]
        for gname in path:
            o = do_derive(o, kind, gname, wb)
            kind = result_kind(kind, gname)
        return o, kind

    def value(self, root, path, step, cfg=None):
        k = (root, tuple(path), step["op"], step.get("key"), step.get("name"), step.get("arg"))
        if cfg:
            k = k + (cfg_key(cfg),)
        if k not in self.memo:
            with pristine_module_state(), config_overrides(cfg):
                try:
                    o, kind = self.obj(root, path)
                except Exception as e:
                    self.memo[k] = "err:failed-derivation"
                    return self.memo[k]
                wb = world_of(self.build, root)[0]
                if step["op"] == "read":
                    self.memo[k] = safe_value(lambda: do_read(o, step["key"]))
                else:
                    self.memo[k] = safe_value(lambda: do_query(o, kind, step["name"], step.get("arg", ""), wb))
        return self.memo[k]


def _table_cached_names(kind):
    """the quantities the effects table records as cached_property for this kind (top-level names): the ones a
    user editing the object in place is told to invalidate."""
    return {k for k, e in effects()["kinds"].get(kind, {}).get("reads", {}).items()
            if e.get("cached") and "." not in k}


def do_setitem(obj, kind, st):
    """user-level in-place assignment through the public `__setitem__` of the library's own types."""
    arr = np.asarray(obj.array)
    lead = arr.shape[:-1] if kind in ("Grid2D", "VectorYX2D") else arr.shape
    n = int(np.prod(lead)) if len(lead) else 0
    if n == 0:
        return False
    k = int(Fraction(st["pos"]) * n) % n
    idx = tuple(int(i) for i in np.unravel_index(k, lead))
    if len(idx) == 1:
        idx = idx[0]
    v = float(Fraction(st["val"]))
    if kind == "Mask2D":
        obj[idx] = not bool(arr[idx])
    elif kind in ("Grid2D", "VectorYX2D"):
        obj[idx] = np.array([v, -v / 2 + 0.25])
    elif kind == "Visibilities":
        obj[idx] = complex(v, 0.5 - v)
    else:
        obj[idx] = v
    for name in _table_cached_names(kind):
        obj.__dict__.pop(name, None)
    return True


_RUNS = [0]


def _value_arrays(v, out, depth=0):
    """every numpy array reachable from a value the API returned (structures, lists, dicts, plain objects)."""
    if depth > 6 or v is None or isinstance(v, (bool, int, float, complex, str, np.generic)):
        return
    if isinstance(v, np.ndarray):
        out.append(v)
        return
    if _is_structure(v):
        a = getattr(v, "_array", None)
        if isinstance(a, np.ndarray):
            out.append(a)
        for x in list(vars(v).values()):
            _value_arrays(x, out, depth + 1)
        return
    if isinstance(v, (list, tuple)):
        for x in v[:64]:
            _value_arrays(x, out, depth + 1)
        return
    if isinstance(v, dict):
        for x in list(v.values())[:64]:
            _value_arrays(x, out, depth + 1)
        return
    d = getattr(v, "__dict__", None)
    if isinstance(d, dict) and type(v).__module__.split(".")[0] == "autoarray":
        for k, x in list(d.items()):
            if k != "run_time_dict":
                _value_arrays(x, out, depth + 1)


def scribble(arrays):
    """(R5-B) the caller overwrites, in place, arrays it was handed or handed over: NaN into floating / complex
    arrays, +1 on integers, negation of booleans.  Returns the number of arrays written."""
    seen, n = set(), 0
    for a in arrays:
        if not isinstance(a, np.ndarray) or id(a) in seen:
            continue
        seen.add(id(a))
        if not a.flags.writeable or a.size == 0 or a.dtype == object:
            continue
        try:
            if a.dtype == bool:
                np.logical_not(a, out=a)
            elif np.issubdtype(a.dtype, np.inexact):
                a[...] = np.nan
            elif np.issubdtype(a.dtype, np.integer):
                np.add(a, 1, out=a, casting="unsafe")
            else:
                continue
            n += 1
        except Exception:
            pass
    return n


CONTROL_KEYS = ("positive_only", "p_initial", "diag")


def control_of(build, cfg):
    """(R5-D) explicit-argument control of a world that leaves settings to the configuration: the same world with
    the values in force written out as explicit constructor arguments, to be evaluated under the OPPOSITE
    configuration — an explicit argument must win over any configuration value."""
    if build.get("graph") == "twoworld" or not build.get("settings_implicit"):
        return None, None
    eff = {}
    for k in CONTROL_KEYS:
        eff[k] = cfg[k] if k in (cfg or {}) else conf_pinned(k)
    cb = {k: v for k, v in build.items() if k != "settings_implicit"}
    cb["positive_only"] = bool(eff["positive_only"])
    cb["p_initial"] = bool(eff["p_initial"])
    cb["diag"] = q(Fraction(float(eff["diag"])))
    opposite = dict(cfg or {})
    opposite.update({"positive_only": not eff["positive_only"], "p_initial": not eff["p_initial"],
                     "diag": float(eff["diag"]) + 1.0})
    return cb, opposite


_PINNED = {}


def conf_pinned(name):
    """the value of the harness's pinned configuration (recorded before any history changes it)."""
    if name not in _PINNED:
        _PINNED[name] = conf_get(name)
    return _PINNED[name]


def run_history(case):
    load_autoarray()
    for k in CONFIG_KEYS:
        try:
            conf_pinned(k)
        except Exception:
            pass
    try:
        return _run_history(case)
    finally:
        # the configuration is put back whatever happened (also on exceptions / skips)
        for k, v in _PINNED.items():
            try:
                conf_set(k, v)
            except Exception:
                pass


def _run_history(case):
    b = expand_build(case["build"])
    module_state_init()
    _RUNS[0] += 1
    if b.get("graph") == "twoworld" or _RUNS[0] % 32 == 0 or len(sys.modules) != _MODSTATE["n_modules"]:
        # containers created since the last look (lazily created memo dictionaries) start empty in a fresh world
        module_state_rescan()
        _MODSTATE["n_modules"] = len(sys.modules)
    pre = polluted_defaults()
    # every case starts from the library's import-time module- / class-level state (nothing to do on the unchanged
    # tree): a failure is then reproducible from the case alone, and the shrinker cannot lean on what earlier cases
    # left in a process-wide memo or a cached configuration default
    pristine_module_state().__enter__()
    try:
        g = build_graph(b)
    except Exception as e:
        # a constructor that rejects a (degenerate) input is outside this property
        raise Skip(f"graph cannot be built: {type(e).__name__}: {str(e)[:80]}")
    if pre:
        g.ctor_changed.insert(0, {"stage": -1, "kind": "(state left by earlier operations in this process)",
                                  "changed": pre})
    ctor_changed = list(g.ctor_changed)
    n_roots = g.n_roots
    terms = [(i, []) for i in range(len(g.pool))]
    fresh = FreshEval(case["build"])
    steps_out = []
    poked = set()
    edited = set()   # objects the user assigned into (`obj[k] = v`): expectation = an object rebuilt from its contents
    tainted = set()  # objects derived from an edited object afterwards
    twins = {}       # derived object built from a structure -> the same constructor call on the plain ndarray
    returned = []    # arrays the API handed out / accepted in this round (R5-B)
    first_seen = {}  # (configuration, contents term, operation) -> value reported the first time (any round)
    cfg = {}         # configuration overrides in force
    rounds = 0
    impure = any(k in IMPURE_KINDS for k in g.kinds)
    snap = Snapshot(g.inputs, g.pool)
    for st in case["history"]:
        if st["op"] == "config":
            # (R5-D) the user changes configuration values between calls
            cfg = dict(cfg)
            for k, v in st["set"].items():
                if v is None:
                    cfg.pop(k, None)
                    conf_set(k, conf_pinned(k))
                else:
                    cfg[k] = v
                    conf_set(k, v)
            steps_out.append({"value": None, "changed": [], "owners": []})
            continue
        if st["op"] == "renew":
            # (R5-B) the caller scribbles over every array it was handed or handed over, drops the whole world and
            # builds the same world again from fresh equal inputs
            if st.get("scribble"):
                arrs = list(returned) + [a for a in g.inputs.values()]
                arrs += list(walk_buffers({f"obj{i}": o for i, o in enumerate(g.pool) if o is not None}).values())
                scribble(arrs)
            try:
                g = build_graph(b)
            except Exception as e:
                raise Skip(f"graph cannot be rebuilt: {type(e).__name__}: {str(e)[:80]}")
            rounds += 1
            for c_ in g.ctor_changed:
                ctor_changed.append({**c_, "round": rounds})
            terms = [(i, []) for i in range(len(g.pool))]
            poked, edited, tainted, twins, returned = set(), set(), set(), {}, []
            snap = Snapshot(g.inputs, g.pool)
            steps_out.append({"value": None, "changed": [], "owners": []})
            continue
        o = st["obj"]
        if o >= len(g.pool):
            steps_out.append({"value": "err:no-object", "changed": [], "owners": []})
            continue
        obj, kind = g.pool[o], g.kinds[o]
        wb = world_of(b, terms[o][0])[0]
        out = {}
        clean = not (o in poked or o in edited or o in tainted)
        if kind == "Failed":
            # the derivation that should have produced this object raised (in the fresh world it must too)
            root, path = terms[o]
            if st["op"] == "derive":
                g.pool.append(None)
                g.kinds.append("Failed")
                g.parents.append([])
                terms.append((root, path + [st["g"]]))
                out["value"] = None
            elif st["op"] in ("setitem", "fault"):
                out["value"] = None
            else:
                out["value"] = "err:failed-derivation"
                out["fresh"] = out["value"] if (o in edited or o in tainted) else fresh.value(root, path, st, cfg)
        elif st["op"] == "read":
            holder = {}

            def rd():
                holder["v"] = do_read(obj, st["key"])
                return holder["v"]

            out["value"] = safe_value(rd)
            if "v" in holder:
                _value_arrays(holder["v"], returned)
            root, path = terms[o]
            if o in edited or o in tainted:
                out["fresh"] = out["value"]
            else:
                out["fresh"] = out["value"] if o in poked else fresh.value(root, path, st, cfg)
            if (path or o in edited) and "v" in holder:
                # derived / user-edited object: consistency with its own contents, stated independently
                exp = direct_expectation(obj, kind, st["key"])
                if exp is not None:
                    out["direct"] = bool(fp_value(exp) == fp_value(holder["v"]))
                with pristine_module_state():
                    rb = rebuild(obj, kind)
                    # only when the constructor takes the derived object's array as it is (a derivation may leave
                    # values in masked cells which the constructor would normalise to zero)
                    if rb is not None and _same_contents(rb, obj, kind):
                        rbv = safe_value(lambda: do_read(rb, st["key"]))
                        out["rebuilt"] = rbv
            if o in twins and clean:
                tw = twins[o]
                out["twin"] = safe_value(lambda: do_read(tw, st["key"]))
        elif st["op"] == "query":
            qargs = {}
            holder = {}

            def qr():
                holder["v"] = do_query(obj, kind, st["name"], st.get("arg", ""), wb, track=qargs)
                return holder["v"]

            out["value"] = safe_value(qr)
            if "v" in holder:
                _value_arrays(holder["v"], returned)
            returned.extend(a for a, _ in qargs.values())
            out["_qargs_changed"] = sorted(f"input:query-arg:{nm}" for nm, (a, f0) in qargs.items() if fp_bytes(a) != f0)
            root, path = terms[o]
            if o in edited or o in tainted:
                out["fresh"] = out["value"]
                if (path or o in edited) and not str(out["value"]).startswith("err:"):
                    with pristine_module_state():
                        rb = rebuild(obj, kind)
                        if rb is not None and _same_contents(rb, obj, kind):
                            out["rebuilt"] = safe_value(lambda: do_query(rb, kind, st["name"], st.get("arg", ""), wb))
            else:
                out["fresh"] = fresh.value(root, path, st, cfg)
                if st["name"] == "grid_2d_radial_projected_from" and st.get("arg", "").endswith(";") and o not in poked:
                    # (R5-D) explicit-argument control: the flag in force written out, under the opposite configuration
                    eff = cfg["remove_centre"] if "remove_centre" in cfg else conf_pinned("remove_centre")
                    ctrl = {**st, "arg": st["arg"] + ("1" if eff else "0")}
                    out["control"] = fresh.value(root, path, ctrl, {**cfg, "remove_centre": not eff})
        elif st["op"] == "fault":
            # an interrupt injected at the k-th internal call of a read / query; the value of the interrupted
            # operation is not compared, everything the objects report afterwards is
            inner = st["inner"]
            # k = "all": one attempt per internal call boundary (k = 1, 2, ...) until the operation completes
            ks_ = range(1, 41) if st["k"] == "all" else [st["k"]]
            fired, qch_all, ch_all, own_all = [], [], [], []
            for k_ in ks_:
                with inject_fault(k_) as inj:
                    if inner["op"] == "read":
                        v = safe_value(lambda: do_read(obj, inner["key"]))
                    else:
                        qargs = {}
                        v = safe_value(lambda: do_query(obj, kind, inner["name"], inner.get("arg", ""), wb, track=qargs))
                        qch_all += [f"input:query-arg:{nm}" for nm, (a, f0) in qargs.items() if fp_bytes(a) != f0]
                if not inj.fired:
                    break
                fired.append(inj.site)
                if st["k"] == "all":
                    # attribute a change to the attempt that made it
                    mid = Snapshot(g.inputs, g.pool)
                    c_ = mid.changed_since(snap)
                    if c_:
                        ch_all += [f"{x} (interrupted at call {k_}: {inj.site})" for x in c_]
                        own_all += mid.owners_changed_since(snap, g.pool, g.inputs)
                        snap = mid
            out["_qargs_changed"] = sorted(set(qch_all))
            out["_pre_changed"], out["_pre_owners"] = ch_all, own_all
            out["value"] = None
            out["fired"] = fired[-1] if fired else None
            out["attempts"] = len(fired)
        elif st["op"] == "setitem":
            # the USER assigns into the object through its public __setitem__ and invalidates the documented
            # cached properties; from here on the expectation for this object is an object rebuilt from its contents
            ok = False
            if _is_structure(obj):
                try:
                    ok = do_setitem(obj, kind, st)
                except Exception:
                    ok = False
            aliased = []
            if ok:
                edited.add(o)
                # numpy semantics: whatever shares memory with the edited array changes with it (the caller's
                # buffer of a by-reference constructor, a slice / view derived earlier) — legitimately
                ea = np.asarray(obj.array)
                for j, pobj in enumerate(g.pool):
                    if j == o or pobj is None:
                        continue
                    aj = pobj if isinstance(pobj, np.ndarray) else getattr(pobj, "_array", None)
                    if isinstance(aj, np.ndarray) and np.may_share_memory(aj, ea):
                        aliased.append(j)
                        (poked if isinstance(pobj, np.ndarray) else tainted).add(j)
                        if not isinstance(pobj, np.ndarray):
                            # (the view's documented cached properties are invalidated with the owner's)
                            for name in _table_cached_names(g.kinds[j]):
                                pobj.__dict__.pop(name, None)
            out["value"] = None
            out["applied"] = ok
            out["aliased"] = aliased
            snap = Snapshot(g.inputs, g.pool)  # new baseline: the user's own write is not the library's
        elif st["op"] == "poke":
            # the CALLER rewrites its own input array after construction: constructors declared to copy their
            # argument must be unaffected (every later read is still compared with the fresh-object value)
            if isinstance(obj, np.ndarray) and obj.flags.writeable:
                if obj.dtype == bool:
                    obj[...] = ~obj
                else:
                    np.multiply(obj, 2, out=obj, casting="unsafe")
                    np.add(obj, 1, out=obj, casting="unsafe")
                poked.add(o)
            out["value"] = None
            snap = Snapshot(g.inputs, g.pool)  # new baseline: the caller's own write is not the library's
        elif st["op"] == "derive":
            try:
                new = do_derive(obj, kind, st["g"], wb)
                ok = True
            except Exception as e:
                new, ok = None, False
                out["value"] = None
            if ok:
                g.pool.append(new)
                g.kinds.append(result_kind(kind, st["g"]))
                g.parents.append(list(g.parents[o]))
                root, path = terms[o]
                terms.append((root, path + [st["g"]]))
                out["value"] = None
                if st["g"].partition(":")[0] in TWIN_HOWS and clean:
                    with pristine_module_state():
                        tw = derive_twin(obj, kind, st["g"])
                    if tw is not None:
                        twins[len(g.pool) - 1] = tw
            else:
                # keep indexes aligned: a failed derivation still occupies a pool slot (never used)
                g.pool.append(None)
                g.kinds.append("Failed")
                g.parents.append([])
                terms.append((terms[o][0], terms[o][1] + [st["g"]]))
            if o in edited or o in tainted:
                tainted.add(len(g.pool) - 1)
        if st["op"] in ("read", "query") and clean and not impure and "fresh" in out and kind != "Failed":
            # (R5-B / R5-D) determinism across rounds and repetitions: the same quantity of the same contents under
            # the same configuration was reported before — stated without any freshly built object
            fk = (cfg_key(cfg), terms[o][0], tuple(terms[o][1]), st["op"], st.get("key"), st.get("name"), st.get("arg"))
            if fk in first_seen:
                out["first"] = first_seen[fk]
            else:
                first_seen[fk] = out["value"]
        if st["op"] == "read" and clean and case.get("control") and "fresh" in out and kind != "Failed":
            if case["control"] == "pinned":
                # explicit settings: the value under the harness's pinned configuration (no overrides at all)
                if cfg and all(k_ in CONTROL_KEYS for k_ in cfg) and not (
                        case["build"].get("p_initial") is None and "p_initial" in cfg):
                    out["control"] = fresh.value(terms[o][0], terms[o][1], st, None)
            else:
                cb, opp = control_of(case["build"], cfg)
                if cb is not None:
                    out["control"] = FreshEval(cb).value(terms[o][0], terms[o][1], st, opp)
        after = Snapshot(g.inputs, g.pool)
        qch = out.pop("_qargs_changed", [])
        out["changed"] = sorted(out.pop("_pre_changed", []) + after.changed_since(snap) + qch)
        out["owners"] = sorted(set(out.pop("_pre_owners", []) + after.owners_changed_since(snap, g.pool, g.inputs) + qch))
        snap = after
        steps_out.append(out)
    meta = {"kinds": g.kinds[: n_roots], "parents": g.parents[: n_roots],
            "terms": [[r, p] for r, p in terms]}
    return {"ctor": ctor_changed, "steps": steps_out, "_meta": meta}


# ==================================================================================================
# seeded simulation
# ==================================================================================================
def run_rng(case):
    aa = load_autoarray()
    b = expand_build(case["build"])
    h, w = b["shape"]
    scales = tuple(float(Fraction(s)) for s in b.get("scales", ["1", "1"]))
    img_n = _arr(b["image"], (h, w))
    psf_n = _arr(b["psf"], tuple(b["psf_shape"])) if b.get("psf") else None
    inputs = {"image": img_n}
    if psf_n is not None:
        inputs["psf"] = psf_n
    image = aa.Array2D.no_mask(values=img_n, pixel_scales=scales)
    psf = aa.Kernel2D.no_mask(values=psf_n, pixel_scales=scales) if psf_n is not None else None
    before = Snapshot(inputs, [image, psf])
    fps = []
    state0 = np.random.get_state()
    try:
        for st in case["history"]:
            if st["op"] == "reseed":
                np.random.seed(st["j"])
                fps.append(None)
            elif st["op"] == "draw":
                np.random.random(st["n"])
                fps.append(None)
            elif b.get("func", "simulator") != "simulator":
                from autoarray.dataset import preprocess
                fn = b["func"]
                expo = np.full((h, w), float(Fraction(b["exposure_time"])))
                if fn == "poisson_noise_via_data_eps_from":
                    out = preprocess.poisson_noise_via_data_eps_from(data_eps=img_n, exposure_time_map=expo,
                                                                     seed=st["seed"])
                elif fn == "data_eps_with_poisson_noise_added":
                    out = preprocess.data_eps_with_poisson_noise_added(data_eps=img_n, exposure_time_map=expo,
                                                                       seed=st["seed"])
                elif fn == "gaussian_noise_via_shape_and_sigma_from":
                    out = preprocess.gaussian_noise_via_shape_and_sigma_from(shape=(h, w), sigma=0.5, seed=st["seed"])
                elif fn == "data_with_gaussian_noise_added":
                    out = preprocess.data_with_gaussian_noise_added(data=img_n, sigma=0.5, seed=st["seed"])
                elif fn == "data_with_complex_gaussian_noise_added":
                    out = preprocess.data_with_complex_gaussian_noise_added(
                        data=img_n.ravel() + 1j * img_n.ravel()[::-1], sigma=0.5, seed=st["seed"])
                else:
                    raise ValueError(fn)
                fps.append(fp_value(np.asarray(out)))
            else:
                sim = aa.SimulatorImaging(
                    exposure_time=float(Fraction(b["exposure_time"])),
                    background_sky_level=float(Fraction(b["background_sky_level"])),
                    psf=psf, normalize_psf=b.get("normalize_psf", True),
                    add_poisson_noise_to_data=b.get("add_noise", True),
                    include_poisson_noise_in_noise_map=b.get("noise_in_map", True),
                    noise_seed=st["seed"])
                ds = sim.via_image_from(image=image)
                fps.append(fp_value([np.asarray(ds.data.native.array), np.asarray(ds.noise_map.native.array),
                                     np.asarray(ds.psf.native.array)]))
    finally:
        np.random.set_state(state0)
    after = Snapshot(inputs, [image, psf])
    return {"labels": _labels(fps), "fps": fps, "changed": after.changed_since(before)}


def _labels(xs):
    """equality pattern: index of first occurrence (None stays None)."""
    first, out = {}, []
    for i, x in enumerate(xs):
        if x is None:
            out.append(None)
            continue
        key = json.dumps(x)
        first.setdefault(key, len(first))
        out.append(first[key])
    return out


# ==================================================================================================
# generators
# ==================================================================================================
def _dy(rng, lo=-8, hi=8, bits=2):
    d = 1 << bits
    return Fraction(rng.randint(lo * d, hi * d), d)


def _pos(rng, lo=1, hi=8, bits=2):
    d = 1 << bits
    return Fraction(rng.randint(lo * d, hi * d), d)


def _scales(rng):
    return [q(rng.choice([Fraction(1), Fraction(1, 2), Fraction(2), Fraction(3, 4)])),
            q(rng.choice([Fraction(1), Fraction(1, 2), Fraction(2), Fraction(5, 4)]))]


def _origin(rng):
    return [q(rng.choice([0, 0, Fraction(1, 2), -1, Fraction(3, 2)])), q(rng.choice([0, 0, -Fraction(1, 2), 2]))]


def _rand_submask(rng, m):
    """a mask with fewer (>=1) unmasked pixels than m (more True)."""
    un = [(y, x) for y in range(len(m)) for x in range(len(m[0])) if not m[y][x]]
    if not un:
        return [list(r) for r in m]
    keep = set(rng.sample(un, max(1, len(un) - rng.randint(1, max(1, len(un) // 2)))))
    return [[not ((y, x) in keep) for x in range(len(m[0]))] for y in range(len(m))]


def struct_build(rng, struct, m, form=None, store_native=None, uniform=None):
    h, w = len(m), len(m[0])
    n_un = sum(1 for r in m for v in r if not v)
    form = form or rng.choice(["slim", "native"])
    sn = rng.random() < 0.5 if store_native is None else store_native
    n = h * w if form == "native" else n_un
    b = {"graph": "structure", "struct": struct, "mask": mask_json(m), "scales": _scales(rng),
         "origin": _origin(rng), "form": form, "store_native": sn,
         "submasks": [mask_json(_rand_submask(rng, m)) for _ in range(2)]}
    # round-3 hardening: ~35 % of the structures are built from integer / float32 ndarrays or Python lists,
    # and all-unmasked ones partly through the `no_mask` classmethods
    r = rng.random()
    cont = ("ndarray" if r < 0.65 else "int64" if r < 0.75 else "list" if r < 0.85 else "list_int" if r < 0.92
            else "float32")
    if n == 0:
        cont = "ndarray"  # an empty Python list cannot carry the (0, 2) shape of an empty grid
    b["container"] = cont
    ints = cont in ("int64", "list_int")
    if n_un == h * w and struct in ("Array2D", "Kernel2D", "Grid2D") and rng.random() < 0.4:
        b["ctor"] = "no_mask"
    if struct in ("Array2D", "Kernel2D"):
        vals = [Fraction(rng.randint(-8, 8)) for _ in range(n)] if ints else [_dy(rng) for _ in range(n)]
        if struct == "Kernel2D":
            vals = [abs(v) + (1 if ints else Fraction(1, 4)) for v in vals]
            b["normalize"] = rng.random() < 0.5
        b["values"] = [q(v) for v in vals]
    else:
        if ints:
            uniform = False
        if struct == "Grid2D" and (uniform if uniform is not None else rng.random() < 0.5):
            sy, sx = Fraction(b["scales"][0]), Fraction(b["scales"][1])
            oy, ox = Fraction(b["origin"][0]), Fraction(b["origin"][1])
            cells = [(y, x) for y in range(h) for x in range(w) if form == "native" or not m[y][x]]
            pts = [(-(Fraction(y) - Fraction(h - 1, 2)) * sy + oy, (Fraction(x) - Fraction(w - 1, 2)) * sx + ox)
                   for (y, x) in cells]
        elif ints:
            pts = [(Fraction(rng.randint(-8, 8)), Fraction(rng.randint(-8, 8))) for _ in range(n)]
        else:
            pts = [(_dy(rng), _dy(rng)) for _ in range(n)]
        b["values"] = [[q(a), q(c)] for a, c in pts]
        if struct == "Grid2D":
            b["sub"] = rng.choice([0, 1, 2])
        if struct == "VectorYX2D":
            b["grid_values"] = [[q(_dy(rng)), q(_dy(rng))] for _ in range(n)]
    return b


def dataset_build(rng, m, inversion=False, d9b=False):
    h, w = len(m), len(m[0])
    n_un = sum(1 for r in m for v in r if not v)
    kh, kw = rng.choice([(1, 1), (3, 3), (1, 3), (3, 1), (3, 3)])
    b = {"graph": "inversion" if inversion else "dataset", "mask": mask_json(m), "scales": _scales(rng),
         "origin": _origin(rng),
         "data": [q(_dy(rng, -2, 8)) for _ in range(h * w)],
         "noise": [q(_pos(rng, 1, 4)) for _ in range(h * w)],
         "psf_shape": [kh, kw], "psf": [q(_pos(rng, 0, 4) + Fraction(1, 4)) for _ in range(kh * kw)],
         "model": [q(_dy(rng, -2, 8)) for _ in range(n_un)],
         "sub": rng.choice([1, 2]), "sub_pix": rng.choice([1, 2]),
         "normalize_psf": rng.random() < 0.7, "use_mask_in_fit": rng.random() < 0.3,
         "ds_store_native": rng.random() < 0.35,
         "submasks": [mask_json(_rand_submask(rng, m)) for _ in range(2)]}
    if inversion:
        nm = rng.choice([1, 1, 2])
        mappers = []
        for i in range(nm):
            if rng.random() < 0.75:
                mappers.append({"mesh": "rect", "shape": [rng.choice([2, 3]), rng.choice([2, 3])],
                                "reg": rng.choice(["constant", "constant", "zeroth"]),
                                "coeff": q(_pos(rng, 1, 4))})
            else:
                pts = set()
                while len(pts) < 6:
                    pts.add((_dy(rng, -3, 3, 3), _dy(rng, -3, 3, 3)))
                mappers.append({"mesh": "delaunay", "points": [[q(a), q(c)] for a, c in sorted(pts)],
                                "reg": "constant", "coeff": q(_pos(rng, 1, 4))})
        b["mappers"] = mappers
        b["w_tilde"] = rng.random() < 0.4
        if b["w_tilde"] and kh != kw:
            # the w-tilde formalism with a non-square PSF is C04's subject (defect D2); keep this graph buildable
            k = max(kh, kw)
            b["psf_shape"] = [k, k]
            b["psf"] = [q(_pos(rng, 0, 4) + Fraction(1, 4)) for _ in range(k * k)]
        b["positive_only"] = rng.random() < 0.4
        b["distort"] = [q(v) for v in rng.choice([(1, 0, 0, 1), (Fraction(3, 4), Fraction(1, 4), 0, 1),
                                                  (1, Fraction(-1, 2), Fraction(1, 4), Fraction(5, 4))])]
        if mappers[0]["mesh"] == "rect":
            npix = mappers[0]["shape"][0] * mappers[0]["shape"][1]
        else:
            npix = len(mappers[0]["points"])
        pm = "".join(rng.choice("01") for _ in range(npix))
        if "1" not in pm:
            pm = "1" + pm[1:]
        vals = [_dy(rng, 0, 8) + Fraction(1, 4) for _ in range(npix)]
        if d9b:
            # known finding D9b is visible: values given to the valued mapper are non-zero under the pixel mask
            b["valued"] = ({"values": "reconstruction", "pixel_mask": pm} if rng.random() < 0.5 else
                           {"values": [q(v) for v in vals], "pixel_mask": pm})
        else:
            r = rng.random()
            if r < 0.25:
                b["valued"] = {"values": "reconstruction", "pixel_mask": None}
            elif r < 0.45:
                b["valued"] = {"values": [q(v) for v in vals], "pixel_mask": None}
            elif r < 0.53:
                # a mesh_pixel_mask that is set but masks nothing
                b["valued"] = {"values": [q(v) for v in vals], "pixel_mask": "0" * npix}
            elif r < 0.9:
                # values already zero under the pixel mask: masking them is the identity, so the in-place write
                # of `values_masked` (D9b) changes nothing and every other effect stays fully checked
                b["valued"] = {"values": [q(0 if c == "1" else v) for v, c in zip(vals, pm)], "pixel_mask": pm}
    return b


def _mask_for_dataset(rng, psf_margin=1):
    h, w = rng.randint(5, 7), rng.randint(5, 7)
    m, kind = gen.random_mask(rng, h, w, margin=psf_margin)
    if sum(1 for r in m for v in r if not v) < 2:
        m = gen.mask_block(h, w, 1, h - 1, 1, w - 1)
        kind = "block"
    return m, kind


def _mask_one_pixel(rng):
    h, w = rng.randint(3, 6), rng.randint(3, 6)
    m = gen.full(h, w, True)
    m[rng.randint(1, h - 2)][rng.randint(1, w - 2)] = False
    return m, "single"


def pokeable(b):
    """pool indexes of caller-owned ndarray buffers whose constructor is declared to COPY its argument
    (Mask2D, Array2D, Kernel2D, `*.no_mask` of arrays, Grid2D / VectorYX2D except slim input with slim storage,
    which keep the caller's array by reference, as do Visibilities and MapperValued.values)."""
    if b["graph"] in ("visibilities", "twoworld") or b.get("readonly"):
        return []
    out = [0]
    if b["graph"] == "structure":
        if b["struct"] == "Mask2D" or b.get("container", "ndarray") in ("list", "list_int"):
            return out
        if b["struct"] in ("Array2D", "Kernel2D"):
            out.append(2)
        elif not (b["form"] == "slim" and (not b["store_native"] or b.get("ctor") == "no_mask")):
            out.append(2)
        return out
    if b.get("container", "ndarray") not in ("list", "list_int"):
        out.append(2)
    return out + [3, 4, 10]


class Alphabet:
    """typed operation alphabet taken from the effects table."""

    def __init__(self):
        self.t = effects()["kinds"]

    def reads(self, kind):
        return list(self.t.get(kind, {}).get("reads", {}))

    def cached_reads(self, kind):
        return [k for k, v in self.t.get(kind, {}).get("reads", {}).items() if v.get("cached")]

    def queries(self, kind):
        return self.t.get(kind, {}).get("queries", {})

    def derivs(self, kind):
        return self.t.get(kind, {}).get("derive", {})

    def random_g(self, rng, kind, how, extras=False):
        spec = self.derivs(kind)[how]
        args = spec.get("args")
        if not args:
            return how
        a = rng.choice(args)
        if extras and how in TWIN_OK and rng.random() < 0.5:
            a = twin_arg(a, rng)
        return f"{how}:{a}"

    def random_query(self, rng, kind, name, extras=False):
        args = self.queries(kind)[name].get("args")
        a = rng.choice(args) if args else ""
        if extras:
            bad = BAD_QUERY_ARGS.get(name)
            r = rng.random()
            if bad and r < 0.3:
                a = rng.choice(bad)
            elif args and name in TWIN_OK and r < 0.6:
                a = twin_arg(a, rng)
        return {"op": "query", "name": name, "arg": a}


# arguments with which a query fails (or must cope) in the middle of its work (round 4: fault then reuse)
BAD_QUERY_ARGS = {
    "mapped_to_source_from": ["bad_len"],
    "mapper_interpolated_array_from": ["bad_len:3x3", "readonly:3x3"],
    "binned_array_2d_from": ["bad_len", "readonly"],
    "regularization_weights_from": ["7"],
    "blurring_from": ["9x9", "2x2", "15x3"],
    "max_pixel_list_from": ["99,0", "0,1"],
    "trimmed_array_from": ["9x9"],
    "convolved_array_from": ["bad_native"],
}
_EPS = Fraction(1, 1 << 20)
# operations whose argument is a real number / coordinate (near-duplicate twins make sense)
TWIN_OK = {"distances_to_coordinate_from", "squared_distances_to_coordinate_from", "extent_with_buffer_from",
           "pixel_signals_from", "mul", "rmul", "add", "sub", "rsub", "div", "mul_array", "subtracted_from",
           "deflected", "rescaled"}


def twin_arg(a, rng):
    """a near-duplicate of a numeric argument string ("1/2,-1", "3/4", "3x3" stays): one component moved by 2^-20
    relative (inside np.allclose's default tolerance, far outside 1e-9), zero by 2^-33 absolute."""
    if "x" in a or ":" in a or a == "":
        return a
    parts = a.split(",")
    try:
        vals = [Fraction(x) for x in parts]
    except Exception:
        return a
    i = rng.randrange(len(vals))
    vals[i] = vals[i] * (1 + _EPS) if vals[i] != 0 else Fraction(1, 1 << 33)
    return ",".join(str(v) for v in vals)


def random_history(rng, kinds, nsteps, alpha: Alphabet, focus=None, pokes=()):
    """random walk over the typed alphabet; `kinds` = kinds of the root pool (grows with derivations)."""
    kinds = list(kinds)
    hist = []
    read_log = []  # (obj, key) read so far
    readable = lambda: [i for i, k in enumerate(kinds) if alpha.reads(k) or alpha.queries(k)]
    derivable = lambda: [i for i, k in enumerate(kinds) if alpha.derivs(k)]
    last_derived = None
    pokes = list(pokes)
    for _ in range(nsteps):
        r = rng.random()
        if pokes and rng.random() < 0.06:
            hist.append({"op": "poke", "obj": pokes.pop(rng.randrange(len(pokes)))})
            continue
        if last_derived is not None and r < 0.45:
            # probe the fresh derived object, preferably with a key already read on its source
            o, src = last_derived
            ks = [k for (oo, k) in read_log if oo == src and k in alpha.reads(kinds[o])]
            key = rng.choice(ks) if ks and rng.random() < 0.7 else rng.choice(alpha.reads(kinds[o]) or [None])
            last_derived = None if rng.random() < 0.5 else last_derived
            if key:
                hist.append({"op": "read", "obj": o, "key": key})
                read_log.append((o, key))
                continue
        if r < 0.22 and derivable():
            cands = derivable()
            if focus is not None and rng.random() < 0.6:
                cands = [i for i in cands if i >= focus] or cands
            o = rng.choice(cands[-6:] if rng.random() < 0.7 else cands)
            # read cached keys on the source first, half of the time
            ck = alpha.cached_reads(kinds[o])
            if ck and rng.random() < 0.6:
                key = rng.choice(ck)
                hist.append({"op": "read", "obj": o, "key": key})
                read_log.append((o, key))
            how = rng.choice(list(alpha.derivs(kinds[o])))
            gname = alpha.random_g(rng, kinds[o], how)
            hist.append({"op": "derive", "obj": o, "g": gname})
            kinds.append(alpha.derivs(kinds[o])[how].get("result") or kinds[o])
            last_derived = (len(kinds) - 1, o)
            continue
        cands = readable()
        if not cands:
            break
        if focus is not None and rng.random() < 0.7:
            cands = [i for i in cands if i >= focus] or cands
        o = rng.choice(cands)
        if read_log and rng.random() < 0.25:
            o, key = rng.choice(read_log)  # repeated access
            hist.append({"op": "read", "obj": o, "key": key})
            continue
        qs = alpha.queries(kinds[o])
        if qs and (rng.random() < 0.25 or not alpha.reads(kinds[o])):
            stq = alpha.random_query(rng, kinds[o], rng.choice(list(qs)))
            stq["obj"] = o
            hist.append(stq)
            continue
        key = rng.choice(alpha.reads(kinds[o]))
        hist.append({"op": "read", "obj": o, "key": key})
        read_log.append((o, key))
    return hist[: max(nsteps, 1) + 6]


ROOT_KINDS = {
    "structure": lambda b: ["Buffer", "Mask2D"] if b["struct"] == "Mask2D" else ["Buffer", "Mask2D", "Buffer", b["struct"]],
    "visibilities": lambda b: ["Buffer", "Visibilities"],
}


def root_kinds(b):
    if b["graph"] == "twoworld":
        return root_kinds(b["worlds"][0]) + root_kinds(b["worlds"][1])
    if b["graph"] in ROOT_KINDS:
        return ROOT_KINDS[b["graph"]](b)
    ks = ["Buffer", "Mask2D", "Buffer", "Buffer", "Buffer", "Array2D", "Array2D", "Kernel2D", "Imaging",
          "Imaging", "Buffer", "FitImaging"]
    if b["graph"] == "dataset":
        return ks
    ks += ["OverSampler", "Grid2DIrregular"]
    for _ in b["mappers"]:
        ks += ["Mesh", "Mapper"]
    ks += ["Inversion", "FitInversion"]
    mv = b.get("valued")
    if mv:
        if not mv_from_rec(mv):
            ks.append("Buffer")
        ks.append(mv_kind_of(mv))
    return ks


# ==================================================================================================
# the check
# ==================================================================================================
class C11(PropertyCheck):
    pid = "C11"
    title = "queries are pure: no input mutation, no order dependence, deterministic"
    nontrivial_rule = (
        "a case is a history over a real object graph; non-trivial = at least one step after construction "
        "(read / query / derivation) or a constructor given a mask with both masked and unmasked pixels; "
        "distinct = distinct (build spec, history)"
    )
    exhaustive_note = {
        "quick": "constructor purity: every mask with >=1 unmasked pixel for every shape with H*W <= 4, x "
                 "{Array2D, Grid2D, VectorYX2D} x {slim, native input} x {slim, native storage}; stale-cache "
                 "patterns: every (kind, cached key, derivation) triple of the effects table",
        "thorough": "constructor purity: every mask with >=1 unmasked pixel for every shape with H*W <= 6, x "
                    "{Array2D, Grid2D, VectorYX2D} x input form x storage; every (kind, cached key, derivation) triple",
    }
    trusted_extra = [
        "Python aliasing / object identity is not modelled in Lean: which operation writes which buffer and "
        "which derivation keeps which cache keys is the table harness/props/c11_effects.json, validated only by "
        "this correspondence run (byte fingerprints of every caller-owned and cached numpy buffer per step)",
        "autoconf.cached_property semantics (value stored in obj.__dict__[name]) as modelled by Impl.readF",
        "numpy global RNG: seed(k) determines all later draws (Model.Purity.Rng contract)",
        "the model's predicted value is interpreted by re-running the real code on a freshly built equal object",
    ]
    assumptions = [
        "histories use the operation alphabet of c11_effects.json (public properties, query methods, arithmetic, "
        "slicing, copy, apply_mask, trimming, padding, resizing); user-level in-place assignment (x[i] = v) is not "
        "a query: where a history contains one (round-4 stream), the user is taken to invalidate the cached "
        "properties the effects table documents (amplitudes / phases, is_uniform / over_sampler, circular_radius) of "
        "the object and of its views, and the expectation becomes an object rebuilt from the edited contents",
        "an interrupted read / query (exception injected at an internal call boundary, read-only or wrong-length "
        "caller input) reports nothing itself; everything the objects report afterwards must be the fresh-object value",
        "fresh-object expectations are evaluated with autoarray's module-level / class-level containers reset to "
        "their import-time content (so that a module-level memo cannot make history and expectation agree)",
        "a buffer whose cache entry is deleted by the reading operation itself (curvature_matrix consumed by "
        "curvature_reg_matrix) is not protected after that step: the property speaks about values reported subsequently",
    ]
    search_budget_s = {"quick": 60, "thorough": 300}
    # functions whose purity / caching / copying behaviour the effects table and the cache machine describe
    modelled_functions = [
        "autoarray/abstract_ndarray.py:AbstractNDArray.__init__",
        "autoarray/abstract_ndarray.py:AbstractNDArray.with_new_array",
        "autoarray/abstract_ndarray.py:AbstractNDArray.copy",
        "autoarray/abstract_ndarray.py:AbstractNDArray.__copy__",
        "autoarray/abstract_ndarray.py:AbstractNDArray.__deepcopy__",
        "autoarray/abstract_ndarray.py:AbstractNDArray._dict_without_cached_properties",
        "autoarray/abstract_ndarray.py:AbstractNDArray.__getitem__",
        "autoarray/abstract_ndarray.py:AbstractNDArray.__setitem__",
        "autoarray/abstract_ndarray.py:to_new_array",
        "autoarray/abstract_ndarray.py:unwrap_array",
        "autoarray/structures/arrays/array_2d_util.py:convert_array_2d",
        "autoarray/structures/arrays/array_2d_util.py:convert_array",
        "autoarray/structures/grids/grid_2d_util.py:convert_grid_2d",
        "autoarray/structures/grids/grid_2d_util.py:convert_grid",
        "autoarray/structures/arrays/uniform_2d.py:AbstractArray2D.__init__",
        "autoarray/structures/arrays/uniform_2d.py:AbstractArray2D.native",
        "autoarray/structures/arrays/uniform_2d.py:AbstractArray2D.slim",
        "autoarray/structures/arrays/uniform_2d.py:AbstractArray2D.apply_mask",
        "autoarray/structures/arrays/uniform_2d.py:AbstractArray2D.trimmed_after_convolution_from",
        "autoarray/structures/arrays/uniform_2d.py:AbstractArray2D.padded_before_convolution_from",
        "autoarray/structures/arrays/uniform_2d.py:AbstractArray2D.resized_from",
        "autoarray/structures/arrays/uniform_2d.py:AbstractArray2D.zoomed_around_mask",
        "autoarray/structures/arrays/kernel_2d.py:Kernel2D.__init__",
        "autoarray/structures/arrays/kernel_2d.py:Kernel2D.normalized",
        "autoarray/structures/arrays/kernel_2d.py:Kernel2D.convolved_array_from",
        "autoarray/structures/grids/uniform_2d.py:Grid2D.__init__",
        "autoarray/structures/grids/uniform_2d.py:Grid2D.native",
        "autoarray/structures/grids/uniform_2d.py:Grid2D.slim",
        "autoarray/structures/grids/uniform_2d.py:Grid2D.flipped",
        "autoarray/structures/grids/uniform_2d.py:Grid2D.in_radians",
        "autoarray/structures/grids/uniform_2d.py:Grid2D.is_uniform",
        "autoarray/structures/grids/uniform_2d.py:Grid2D.over_sampler",
        "autoarray/structures/grids/uniform_2d.py:Grid2D.subtracted_from",
        "autoarray/structures/grids/uniform_2d.py:Grid2D.grid_2d_via_deflection_grid_from",
        "autoarray/structures/grids/uniform_2d.py:Grid2D.padded_grid_from",
        "autoarray/structures/vectors/uniform.py:VectorYX2D.__init__",
        "autoarray/structures/visibilities.py:AbstractVisibilities.__init__",
        "autoarray/structures/visibilities.py:AbstractVisibilities.amplitudes",
        "autoarray/structures/visibilities.py:AbstractVisibilities.phases",
        "autoarray/structures/visibilities.py:AbstractVisibilities.in_array",
        "autoarray/mask/mask_2d.py:Mask2D.__init__",
        "autoarray/mask/mask_2d.py:Mask2D.circular_radius",
        "autoarray/mask/mask_2d.py:Mask2D.is_circular",
        "autoarray/mask/mask_2d.py:Mask2D.rescaled_from",
        "autoarray/mask/mask_2d.py:Mask2D.resized_from",
        "autoarray/dataset/abstract/dataset.py:AbstractDataset.__init__",
        "autoarray/dataset/abstract/dataset.py:AbstractDataset.grids",
        "autoarray/dataset/abstract/dataset.py:AbstractDataset.grid",
        "autoarray/dataset/abstract/dataset.py:AbstractDataset.signal_to_noise_map",
        "autoarray/dataset/abstract/dataset.py:AbstractDataset.trimmed_after_convolution_from",
        "autoarray/dataset/imaging/dataset.py:Imaging.__init__",
        "autoarray/dataset/imaging/dataset.py:Imaging.grids",
        "autoarray/dataset/imaging/dataset.py:Imaging.convolver",
        "autoarray/dataset/imaging/dataset.py:Imaging.w_tilde",
        "autoarray/dataset/imaging/dataset.py:Imaging.apply_mask",
        "autoarray/dataset/imaging/dataset.py:Imaging.apply_noise_scaling",
        "autoarray/dataset/imaging/dataset.py:Imaging.apply_over_sampling",
        "autoarray/dataset/grids.py:GridsDataset.__init__",
        "autoarray/dataset/grids.py:GridsDataset.uniform",
        "autoarray/dataset/grids.py:GridsDataset.pixelization",
        "autoarray/dataset/grids.py:GridsDataset.blurring",
        "autoarray/dataset/preprocess.py:setup_random_seed",
        "autoarray/dataset/preprocess.py:poisson_noise_via_data_eps_from",
        "autoarray/dataset/preprocess.py:data_eps_with_poisson_noise_added",
        "autoarray/dataset/preprocess.py:gaussian_noise_via_shape_and_sigma_from",
        "autoarray/dataset/preprocess.py:data_with_gaussian_noise_added",
        "autoarray/dataset/preprocess.py:data_with_complex_gaussian_noise_added",
        "autoarray/dataset/imaging/simulator.py:SimulatorImaging.__init__",
        "autoarray/dataset/imaging/simulator.py:SimulatorImaging.via_image_from",
        "autoarray/fit/fit_dataset.py:FitDataset.__init__",
        "autoarray/fit/fit_imaging.py:FitImaging.__init__",
        "autoarray/inversion/inversion/factory.py:inversion_from",
        "autoarray/inversion/inversion/factory.py:inversion_imaging_from",
        "autoarray/inversion/inversion/abstract.py:AbstractInversion.__init__",
        "autoarray/inversion/inversion/abstract.py:AbstractInversion.mapping_matrix",
        "autoarray/inversion/inversion/abstract.py:AbstractInversion.operated_mapping_matrix",
        "autoarray/inversion/inversion/abstract.py:AbstractInversion.regularization_matrix",
        "autoarray/inversion/inversion/abstract.py:AbstractInversion.regularization_matrix_reduced",
        "autoarray/inversion/inversion/abstract.py:AbstractInversion.curvature_reg_matrix",
        "autoarray/inversion/inversion/abstract.py:AbstractInversion.curvature_reg_matrix_reduced",
        "autoarray/inversion/inversion/abstract.py:AbstractInversion.reconstruction",
        "autoarray/inversion/inversion/abstract.py:AbstractInversion.reconstruction_reduced",
        "autoarray/inversion/inversion/abstract.py:AbstractInversion.mapped_reconstructed_data",
        "autoarray/inversion/inversion/abstract.py:AbstractInversion.mapped_reconstructed_image",
        "autoarray/inversion/inversion/abstract.py:AbstractInversion.data_subtracted_dict",
        "autoarray/inversion/inversion/abstract.py:AbstractInversion.regularization_term",
        "autoarray/inversion/inversion/imaging/mapping.py:InversionImagingMapping.data_vector",
        "autoarray/inversion/inversion/imaging/mapping.py:InversionImagingMapping.curvature_matrix",
        "autoarray/inversion/inversion/imaging/w_tilde.py:InversionImagingWTilde.data_vector",
        "autoarray/inversion/inversion/imaging/w_tilde.py:InversionImagingWTilde.curvature_matrix",
        "autoarray/inversion/inversion/inversion_util.py:curvature_matrix_with_added_to_diag_from",
        "autoarray/inversion/inversion/mapper_valued.py:MapperValued.__init__",
        "autoarray/inversion/inversion/mapper_valued.py:MapperValued.values_masked",
        "autoarray/inversion/inversion/mapper_valued.py:MapperValued.interpolated_array_from",
        "autoarray/inversion/inversion/mapper_valued.py:MapperValued.max_pixel_list_from",
        "autoarray/inversion/inversion/mapper_valued.py:MapperValued.max_pixel_centre",
        "autoarray/inversion/inversion/mapper_valued.py:MapperValued.mapped_reconstructed_image_from",
        "autoarray/inversion/inversion/mapper_valued.py:MapperValued.magnification_via_interpolation_from",
        "autoarray/inversion/pixelization/mappers/abstract.py:AbstractMapper.__init__",
        "autoarray/inversion/pixelization/mappers/abstract.py:AbstractMapper.mapping_matrix",
        "autoarray/inversion/pixelization/mappers/abstract.py:AbstractMapper.unique_mappings",
        "autoarray/operators/over_sampling/uniform.py:OverSamplerUniform.__init__",
        "autoarray/operators/over_sampling/uniform.py:OverSamplerUniform.over_sampled_grid",
        "autoarray/operators/over_sampling/uniform.py:OverSamplerUniform.binned_array_2d_from",
        "autoarray/structures/mesh/triangulation_2d.py:Abstract2DMeshTriangulation.voronoi_pixel_areas_for_split",
        "autoarray/structures/mesh/voronoi_2d.py:Mesh2DVoronoi.areas_for_magnification",
    ]

    # ------------------------------------------------------------------ generation
    def generate(self, tier, rng):
        if tier == "quick":
            yield from self._generate_seq(tier, rng)
            return
        # thorough budget: the rounds-5/6 streams are interleaved with the older ones (chunks in turn), so that a run
        # that is cut by a time budget (the escalated quick tier after a change of modelled code) has met every
        # stream; an uncut thorough run generates exactly the same set
        alpha = Alphabet()
        gens = [self._generate_seq(tier, rng, with_round5=False), self._round5_cases(rng, alpha, False)]
        sizes = [24, 8]
        while gens:
            for gi in range(len(gens) - 1, -1, -1):
                g_, n_ = gens[gi], sizes[gi]
                for _ in range(n_):
                    try:
                        yield next(g_)
                    except StopIteration:
                        del gens[gi], sizes[gi]
                        break

    def _generate_seq(self, tier, rng, with_round5=True):
        alpha = Alphabet()
        quick = tier == "quick"
        maxsteps = 12 if quick else 40
        # 1. constructor purity, exhaustive small masks
        cells = 4 if quick else 6
        for (h, w) in gen.shapes_upto(cells):
            for m in gen.all_masks(h, w, min_unmasked=0):
                for struct in ("Array2D", "Grid2D", "VectorYX2D"):
                    for form in ("slim", "native"):
                        for sn in (False, True):
                            b = struct_build(rng, struct, m, form=form, store_native=sn)
                            hist = [{"op": "read", "obj": 2, "key": "bytes"}, {"op": "read", "obj": 3, "key": "native"},
                                    {"op": "read", "obj": 2, "key": "bytes"}]
                            pk = pokeable(b)
                            if 2 in pk:
                                hist += [{"op": "poke", "obj": 2}, {"op": "read", "obj": 3, "key": "array"}]
                            hist += [{"op": "poke", "obj": 0}, {"op": "read", "obj": 1, "key": "array"},
                                     {"op": "read", "obj": 3, "key": "native"}, {"op": "read", "obj": 3, "key": "slim"}]
                            yield {"tag": f"ctor_exh_{struct}", "kind": "history", "build": b, "history": hist}
        # 2. stale-cache patterns: every (kind, cached key, derivation)
        yield from self._pattern_cases(rng, alpha, reps=1 if quick else 4)
        # 3. random histories over structure graphs
        n = 140 if quick else 800
        for i in range(n):
            struct = rng.choice(["Array2D", "Grid2D", "Grid2D", "VectorYX2D", "Kernel2D", "Mask2D", "Visibilities",
                                 "Visibilities"])
            b = self._struct_case_build(rng, struct)
            ks = root_kinds(b)
            hist = random_history(rng, ks, rng.randint(3, maxsteps), alpha, focus=len(ks) - 1, pokes=pokeable(b))
            yield {"tag": f"hist_{struct}", "kind": "history", "build": b, "history": hist}
        # 4. dataset / fit graphs
        n = 60 if quick else 400
        for i in range(n):
            m, mk = _mask_one_pixel(rng) if rng.random() < 0.1 else _mask_for_dataset(rng)
            b = dataset_build(rng, m, inversion=False)
            if rng.random() < 0.2:
                b["container"] = rng.choice(["int64", "list", "float32"])
                if b["container"] == "int64":
                    b["data"] = [q(rng.randint(-2, 8)) for _ in b["data"]]
            ks = root_kinds(b)
            hist = random_history(rng, ks, rng.randint(3, maxsteps), alpha, focus=5, pokes=pokeable(b))
            yield {"tag": f"hist_dataset_{mk}", "kind": "history", "build": b, "history": hist}
        # 5. inversion / mapper / valued-mapper graphs
        n = 90 if quick else 600
        for i in range(n):
            m, mk = _mask_for_dataset(rng)
            b = dataset_build(rng, m, inversion=True)
            ks = root_kinds(b)
            hist = random_history(rng, ks, rng.randint(4, maxsteps), alpha, focus=9, pokes=pokeable(b))
            yield {"tag": f"hist_inversion_{'wt' if b['w_tilde'] else 'map'}_{len(b['mappers'])}", "kind": "history",
                   "build": b, "history": hist}
        # 5b. a few histories in which known finding D9b is visible (kept few: each is shrunk and replayed)
        n = 3 if quick else 12
        for i in range(n):
            m, mk = _mask_for_dataset(rng)
            b = dataset_build(rng, m, inversion=True, d9b=True)
            ks = root_kinds(b)
            hist = random_history(rng, ks, rng.randint(4, 10), alpha, focus=len(ks) - 4)
            mvi = len(ks) - 1
            hist.insert(rng.randint(0, len(hist)), {"op": "read", "obj": mvi, "key": "values_masked"})
            hist.append({"op": "read", "obj": mvi, "key": "values"})
            yield {"tag": "hist_valued_d9b", "kind": "history", "build": b, "history": hist}
        # 5c. sweeps: every quantity of an object (and of the objects it was built from) read in a random order,
        #     twice: every ordered pair (x read, later y read) of quantities occurs in one history
        yield from self._sweep_cases(rng, alpha, reps=2 if quick else 8)
        # 6. seeded simulation under perturbed global RNG states
        n = 40 if quick else 300
        for i in range(n):
            yield self._rng_case(rng, maxsteps)
        # 7. round 4: reuse histories on real objects (faults, user edits, twins, two worlds)
        yield from self._reuse_cases(rng, alpha, quick)
        # 8. rounds 5/6: decades, ownership histories, layouts, configuration histories, option pairs, large sizes
        if with_round5:
            yield from self._round5_cases(rng, alpha, quick)

    # ------------------------------------------------------------------ rounds 5/6: R5-A … R5-F streams
    DECADES = (-45, -30, -20, -10, 10, 20, 30, 45)
    DECADES_EXTREME = (-480, -300, 300, 480)   # squares of values up to 8 * 2^480 stay below 1e300

    @staticmethod
    def _scale_vals(vals, k):
        f = Fraction(2) ** k
        if vals and isinstance(vals[0], list):
            return [[q(Fraction(a) * f), q(Fraction(c) * f)] for a, c in vals]
        return [q(Fraction(v) * f) for v in vals]

    def _scale_world(self, b, k, fields):
        """the named ingredients of a build multiplied by 2^k (powers of two keep dyadic values exact)."""
        if b.get("graph") == "twoworld":
            for wld in b["worlds"]:
                self._scale_world(wld, k, fields)
            return b
        for f in fields:
            if f == "mv_values":
                mv = b.get("valued")
                if mv and isinstance(mv.get("values"), list):
                    mv["values"] = self._scale_vals(mv["values"], k)
            elif f == "coeff":
                for ms in b.get("mappers", []):
                    ms["coeff"] = q(Fraction(ms.get("coeff", "1")) * Fraction(2) ** k)
            elif f == "points":
                for ms in b.get("mappers", []):
                    if "points" in ms:
                        ms["points"] = self._scale_vals(ms["points"], k)
            elif isinstance(b.get(f), list) and b[f]:
                b[f] = self._scale_vals(b[f], k)
        return b

    @staticmethod
    def _uniform_values(b):
        """(y, x) coordinates of a uniform grid for the build's mask, pixel scales and origin (exact)."""
        m = mask_from_json(b["mask"])
        h, w = m.shape
        sy, sx = Fraction(b["scales"][0]), Fraction(b["scales"][1])
        oy, ox = Fraction(b["origin"][0]), Fraction(b["origin"][1])
        cells = [(y, x) for y in range(h) for x in range(w) if b["form"] == "native" or not m[y][x]]
        return [[q(-(Fraction(y) - Fraction(h - 1, 2)) * sy + oy), q((Fraction(x) - Fraction(w - 1, 2)) * sx + ox)]
                for (y, x) in cells]

    def _near(self, rng, n, mode, e):
        """n values that are nearly uniform / nearly zero at relative (absolute) distance 2^-e."""
        eps = Fraction(1, 1 << e)
        c = _pos(rng, 1, 4)
        if mode == "uniform":
            return [q(c * (1 + rng.randint(0, 3) * eps)) for _ in range(n)]
        if mode == "zero":
            return [q(rng.randint(-3, 3) * eps) for _ in range(n)]
        raise ValueError(mode)

    def _struct_hist(self, rng, alpha, b, n_ops=12):
        return self._large_history(rng, alpha, b, n_ops)

    def _decade_cases(self, rng, alpha, quick):
        """(R5-A, R5-E) ordinary worlds with everything, or one ingredient, scaled by 2^k; nearly uniform / nearly
        zero / nearly equal ingredients; origins far from zero; near-duplicate and same-shape worlds side by side at
        small and large magnitudes (inside np.allclose / np.isclose defaults, far outside 1e-9 relative)."""
        n = 21 if quick else 200
        for i in range(n):
            struct = ["Array2D", "Grid2D", "VectorYX2D", "Kernel2D", "Visibilities", "Grid2D", "Mask2D"][i % 7]
            b = self._struct_case_build(rng, struct)
            b.pop("container", None)
            k = rng.choice(self.DECADES if i % 3 else self.DECADES_EXTREME)
            mode = rng.choice(["world", "values", "origin_far", "near_uniform", "near_zero"])
            if struct == "Mask2D":
                mode = rng.choice(["world", "origin_far"])
            if struct == "Visibilities":
                if mode in ("near_uniform", "near_zero"):
                    re_ = self._near(rng, len(b["values"]), mode[5:], rng.choice([20, 30, 40]))
                    b["values"] = [[r_, q(Fraction(r_) * Fraction(rng.randint(-2, 2), 1 << 40))] for r_ in re_]
                b["values"] = self._scale_vals(b["values"], k)
            else:
                uniform = struct == "Grid2D" and rng.random() < 0.6
                if mode == "origin_far":
                    # an origin 1e5 pixel scales away from zero (exact dyadics), values following it where uniform
                    b["origin"] = [q(Fraction(rng.choice([1, -1]) * (1 << 17)) + Fraction(1, 2)),
                                   q(Fraction(rng.choice([1, -1]) * 3 * (1 << 15)) - Fraction(1, 4))]
                    if abs(k) <= 45 and rng.random() < 0.5:
                        self._scale_world(b, k, ["scales", "origin"])
                elif mode == "world":
                    self._scale_world(b, k, ["scales", "origin"])
                if struct == "Grid2D" and uniform:
                    b["values"] = self._uniform_values(b)
                    if mode in ("near_uniform", "near_zero") and b["values"]:
                        # nearly uniform: one coordinate moved by 2^-30 of a pixel scale
                        j = rng.randrange(len(b["values"]))
                        b["values"][j][0] = q(Fraction(b["values"][j][0]) + Fraction(b["scales"][0]) / (1 << 30))
                elif struct != "Mask2D":
                    if mode in ("near_uniform", "near_zero") and struct in ("Array2D", "Kernel2D"):
                        b["values"] = self._near(rng, len(b["values"]), "uniform" if struct == "Kernel2D" else mode[5:],
                                                 rng.choice([20, 30, 40]))
                    if mode in ("world", "values", "near_uniform", "near_zero"):
                        self._scale_world(b, k, ["values", "grid_values"])
            ks = root_kinds(b)
            hist = self._struct_hist(rng, alpha, b, 10)
            yield {"tag": f"dec_{struct}_{mode}", "kind": "history", "build": b, "history": hist}
        # datasets / fits / inversions: data, noise-map and model image scaled together or one at a time
        n = 8 if quick else 80
        for i in range(n):
            inversion = i % 2 == 0
            m, _ = _mask_for_dataset(rng)
            if inversion:
                b = self._inv_build(rng, valued=rng.choice(["masked", None]))
                b["positive_only"] = False
            else:
                b = dataset_build(rng, m)
            k = rng.choice(self.DECADES) if i % 4 else rng.choice((-300, 300))
            mode = ["world", "noise", "data", "near", "psf", "coeff"][i % 6]
            if mode == "near":
                h, w = b["mask"]["h"], b["mask"]["w"]
                n_un = b["mask"]["bits"].count("0")
                b["noise"] = self._near(rng, h * w, "uniform", rng.choice([20, 30, 40]))
                if rng.random() < 0.5:
                    b["data"] = self._near(rng, h * w, "zero", 40)
                    b["model"] = self._near(rng, n_un, "zero", 40)
                if rng.random() < 0.5:
                    kh, kw = b["psf_shape"]
                    b["psf"] = [q(Fraction(1) if j == (kh * kw) // 2 else Fraction(1, 1 << 30)) for j in range(kh * kw)]
                self._scale_world(b, rng.choice((-20, 0, 20)), ["data", "noise", "model"])
            elif mode == "world":
                self._scale_world(b, k, ["data", "noise", "model", "mv_values"])
                if abs(k) <= 45 and rng.random() < 0.5:
                    self._scale_world(b, rng.choice((-10, 10, 17)), ["scales", "origin", "points"])
            elif mode == "coeff" and inversion:
                self._scale_world(b, rng.choice((-45, -20, 20, 45)), ["coeff"])
            elif mode in ("noise", "data", "psf"):
                self._scale_world(b, k, [mode] + (["model"] if mode == "data" else []))
            hist = self._large_history(rng, alpha, b, 14 if inversion else 12)
            yield {"tag": f"dec_{b['graph']}_{mode}", "kind": "history", "build": b, "history": hist}
        # two worlds in one process at small / large magnitudes: near-duplicates (2^-20 … 2^-40 relative) and
        # entirely different worlds of the same shape whose values are all tiny (np.allclose(a, b) is True)
        n = 3 if quick else 60
        for i in range(n):
            c = self._two_world_case(rng, alpha, [0, 2, 5, 3, 2, 5, 0, 2][i % 8])
            k = [-40, -40, -30, 30, -45, 20, -20, -33][i % 8]
            fields = ["data", "noise", "model", "values", "grid_values", "mv_values"]
            if i % 2:
                fields += ["scales", "origin"]
            self._scale_world(c["build"], k, fields)
            for wld in c["build"]["worlds"]:
                if wld.get("graph") == "inversion":
                    wld["positive_only"] = False
                if wld.get("container") in ("int64", "list_int"):
                    wld["container"] = "ndarray"
            c["tag"] = "dec_" + c["tag"][len("reuse_"):]
            yield c
        n = 6 if quick else 60
        for i in range(n):
            yield self._redraw_two_world_case(rng, alpha, i)

    def _redraw_two_world_case(self, rng, alpha, i):
        """two worlds in one process that are equal except for ONE ingredient, which is drawn afresh (entirely
        different, not a near-duplicate), the whole placed at a small or large decade: anything that decides
        "same as before" with an absolute tolerance (pixel scales equal within 1e-8, origin close to the last one,
        noise-map allclose to the previous one) now confuses the two worlds."""
        import copy as _copy
        k = rng.choice([-45, -40, -33, -30, -30, 30])
        if i % 3 != 2:
            struct = ["Grid2D", "Mask2D", "Array2D", "Kernel2D", "VectorYX2D", "Visibilities"][(i // 3 * 2 + i % 3) % 6]
            b1 = self._struct_case_build(rng, struct)
            b1.pop("container", None)
            if struct == "Grid2D":
                b1["values"] = self._uniform_values(b1)
            b2 = _copy.deepcopy(b1)
            f = rng.choice(["scales", "origin"] if struct in ("Mask2D", "Grid2D") else ["scales", "origin", "values"])
            if struct == "Visibilities":
                f = "values"
            if f == "scales":
                b2["scales"] = [q(Fraction(x) * rng.choice([2, 3, Fraction(1, 2), Fraction(5, 4)])) for x in b1["scales"]]
            elif f == "origin":
                b2["origin"] = [q(Fraction(b1["origin"][0]) + rng.choice([1, -2, Fraction(1, 2)])),
                                q(Fraction(b1["origin"][1]) - rng.choice([1, 3, Fraction(3, 4)]))]
            else:
                fresh_ = self._struct_case_build(rng, struct)
                if struct == "Visibilities":
                    b2["values"] = [[q(_dy(rng)), q(_dy(rng))] for _ in b1["values"]]
                elif b1["values"] and isinstance(b1["values"][0], list):
                    b2["values"] = [[q(_dy(rng)), q(_dy(rng))] for _ in b1["values"]]
                else:
                    b2["values"] = [q(abs(_dy(rng)) + Fraction(1, 4)) if struct == "Kernel2D" else q(_dy(rng))
                                    for _ in b1["values"]]
            if struct == "Grid2D" and f in ("scales", "origin"):
                b2["values"] = self._uniform_values(b2)
            b = {"graph": "twoworld", "worlds": [b1, b2], "share": []}
            self._scale_world(b, k, ["scales", "origin", "values", "grid_values"])
            ks = root_kinds(b)
            n1 = len(root_kinds(b1))
            tops = [n1 - 1, len(ks) - 1]
            ops1 = self._ops_of(rng, alpha, ks, [tops[0]])
            hist = []
            for op in rng.sample(ops1, min(16, len(ops1))):
                pair = [op, {**op, "obj": tops[1]}]
                if rng.random() < 0.5:
                    pair.reverse()
                hist += pair
            return {"tag": f"dec_redraw_{struct}_{f}", "kind": "history", "build": b, "history": hist + hist[:8]}
        b1 = self._inv_build(rng, valued=None)
        b1["positive_only"] = False
        b2 = _copy.deepcopy(b1)
        f = rng.choice(["scales", "origin", "noise", "data", "coeff"])
        h, w = b1["mask"]["h"], b1["mask"]["w"]
        if f == "scales":
            b2["scales"] = [q(Fraction(x) * rng.choice([2, 3, Fraction(1, 2)])) for x in b1["scales"]]
        elif f == "origin":
            b2["origin"] = [q(Fraction(b1["origin"][0]) + 1), q(Fraction(b1["origin"][1]) - Fraction(3, 2))]
        elif f == "noise":
            b2["noise"] = [q(_pos(rng, 1, 4)) for _ in range(h * w)]
        elif f == "data":
            b2["data"] = [q(_dy(rng, -2, 8)) for _ in range(h * w)]
        else:
            for ms in b2["mappers"]:
                ms["coeff"] = q(Fraction(ms.get("coeff", "1")) * rng.choice([2, 3, Fraction(1, 2)]))
        b = {"graph": "twoworld", "worlds": [b1, b2], "share": []}
        fields = ["data", "noise", "model", "mv_values"] + (["scales", "origin", "points"] if f in ("scales", "origin") else [])
        if f == "coeff":
            fields = ["coeff"]
        self._scale_world(b, k, fields)
        ks = root_kinds(b)
        n1 = len(root_kinds(b1))
        i1 = self._inv_idxs(ks[:n1], base=0)
        hist = []
        for op in self._sample_ops(rng, alpha, ks, i1, 14, exclude=(("Imaging", "w_tilde"),)):
            o2 = op["obj"] + n1
            if o2 >= len(ks) or ks[o2] != ks[op["obj"]]:
                hist.append(op)
                continue
            pair = [op, {**op, "obj": o2}]
            if rng.random() < 0.5:
                pair.reverse()
            hist += pair
        return {"tag": f"dec_redraw_inversion_{f}", "kind": "history", "build": b, "history": hist + hist[:8]}

    def _round_ops(self, rng, alpha, b, n_ops):
        """operations of one round of an ownership / configuration history (indexes valid in every round)."""
        ks = root_kinds(b)
        if b["graph"] == "inversion":
            ops = self._sample_ops(rng, alpha, ks, self._inv_idxs(ks), n_ops)
        elif b["graph"] == "dataset":
            ops = self._ops_of(rng, alpha, ks, [8, 9, 11, 5, 7])
            ops = rng.sample(ops, min(n_ops, len(ops)))
        else:
            top = len(ks) - 1
            ops = self._ops_of(rng, alpha, ks, [top])
            ops = rng.sample(ops, min(n_ops, len(ops)))
            kind = ks[top]
            derivs = list(alpha.derivs(kind))
            d = len(ks)
            for how in rng.sample(derivs, min(2, len(derivs))):
                ops.append({"op": "derive", "obj": top, "g": alpha.random_g(rng, kind, how)})
                rk = alpha.derivs(kind)[how].get("result") or kind
                keys = alpha.reads(rk)
                ops += [{"op": "read", "obj": d, "key": k_} for k_ in rng.sample(keys, min(4, len(keys)))]
                d += 1
        return ops

    def _ownership_cases(self, rng, alpha, quick):
        """(R5-B) observe -> the caller scribbles (NaN / +1 / negation, in place) over every array the API returned
        or accepted and over every buffer reachable from the objects -> the same world is built again from fresh
        equal inputs -> observe; three rounds.  Every observation is compared with the model's value for a fresh
        world and with what the first round reported."""
        reps = 1 if quick else 6
        for _ in range(reps):
            for struct in ("Array2D", "Grid2D", "VectorYX2D", "Kernel2D", "Mask2D", "Visibilities"):
                b = self._struct_case_build(rng, struct)
                ops = self._round_ops(rng, alpha, b, 14)
                ren = {"op": "renew", "obj": 0, "scribble": True}
                yield {"tag": f"own_{struct}", "kind": "history", "build": b,
                       "history": ops + [ren] + ops + [ren] + ops}
        n = 2 if quick else 12
        for i in range(n):
            m, _ = _mask_for_dataset(rng)
            b = dataset_build(rng, m)
            ops = self._round_ops(rng, alpha, b, 16)
            ren = {"op": "renew", "obj": 0, "scribble": True}
            yield {"tag": "own_dataset", "kind": "history", "build": b, "history": ops + [ren] + ops + [ren] + ops}
        n = 2 if quick else 24
        for i in range(n):
            b = self._inv_build(rng, wt=(i % 2 == 1), valued=None)
            if i % 4 < 2:
                npix = n_params_of(b["mappers"][0])
                b["valued"] = {"values": [q(_dy(rng, 0, 8) + Fraction(1, 4)) for _ in range(npix)], "pixel_mask": None}
            ops = self._round_ops(rng, alpha, b, 14)
            ren = {"op": "renew", "obj": 0, "scribble": True}
            ops2 = list(ops)
            rng.shuffle(ops2)
            yield {"tag": f"own_inversion_{'wt' if b['w_tilde'] else 'map'}", "kind": "history", "build": b,
                   "history": ops + [ren] + ops2 + [ren] + ops}

    GEN_LAYOUTS = ("fortran", "tview", "strided", "negstride", "readonly", "list", "sliced")
    # `Visibilities` keeps the caller's array by reference: a non-unit stride would reach numpy's transcendental
    # loops (arctan2 has a SIMD body for contiguous data and a scalar one for strided data — last-bit differences
    # that are numpy's, not the library's), so these are not generated for it
    STRIDE_LAYOUTS = ("strided", "negstride", "tview", "fortran")
    # MapperValued documents ndarrays only for its values / mesh_pixel_mask
    NDARRAY_ONLY_ROLES = ("mv_values", "mesh_pixel_mask")

    def _layout_cases(self, rng, alpha, quick):
        """(R5-C) equal-valued inputs in other memory layouts / containers: Fortran-ordered, transposed view, strided
        slice of a bigger buffer, offset window, negatively strided, read-only, nested lists — for every array a
        constructor takes.  The expectation is the object built from the plain C-contiguous ndarray."""
        structs = ("Array2D", "Grid2D", "VectorYX2D", "Kernel2D", "Mask2D", "Visibilities")
        combos = [(s, lay, role) for s in structs for lay in self.GEN_LAYOUTS
                  for role in (("values", "mask") if s not in ("Mask2D", "Visibilities") else
                               (("mask",) if s == "Mask2D" else ("values",)))
                  if not (s == "Visibilities" and lay in self.STRIDE_LAYOUTS)]
        if quick:
            combos = rng.sample(combos, 32)
        for struct, lay, role in combos:
            for form in (("native", "slim") if (not quick and struct not in ("Mask2D", "Visibilities")) else (None,)):
                b = self._struct_case_build(rng, struct)
                if struct not in ("Mask2D", "Visibilities"):
                    while form is not None and b["form"] != form:
                        b = self._struct_case_build(rng, struct)
                    if lay in ("fortran", "tview") and role == "values" and rng.random() < 0.7 and b["form"] != "native":
                        # Fortran order only differs from C order for the 2D / 3D native forms
                        m = mask_from_json(b["mask"]).tolist()
                        b = struct_build(rng, struct, m, form="native")
                b["container"] = "ndarray"
                b["layout"] = {role: lay}
                if struct == "VectorYX2D" and role == "values" and rng.random() < 0.5:
                    b["layout"]["grid_values"] = rng.choice(self.GEN_LAYOUTS)
                if rng.random() < 0.25 and role != "mask" and struct != "Visibilities":
                    b["layout"]["mask"] = rng.choice(self.GEN_LAYOUTS)
                ks = root_kinds(b)
                top = len(ks) - 1
                hist = []
                if struct not in ("Mask2D", "Visibilities"):
                    hist = [{"op": "read", "obj": 2, "key": "bytes"}, {"op": "read", "obj": top, "key": "native"},
                            {"op": "read", "obj": top, "key": "slim"}, {"op": "read", "obj": 2, "key": "bytes"}]
                hist += self._round_ops(rng, alpha, b, 10)
                for o in pokeable(b)[:2]:
                    hist += [{"op": "poke", "obj": o}, {"op": "read", "obj": top, "key": "array"}]
                yield {"tag": f"lay_{struct}_{lay}", "kind": "history", "build": b, "history": hist}
        # dataset / inversion graphs: every caller-owned array of the graph in a random layout
        n = 6 if quick else 60
        for i in range(n):
            if i % 2:
                b = self._inv_build(rng, wt=(i % 4 == 3))
            else:
                m, _ = _mask_for_dataset(rng)
                b = dataset_build(rng, m)
            roles = ["mask", "data", "noise", "psf", "model_data", "mv_values", "mesh_pixel_mask"]
            b["layout"] = {r_: rng.choice([l_ for l_ in self.GEN_LAYOUTS
                                           if not (l_ == "list" and r_ in self.NDARRAY_ONLY_ROLES)])
                           for r_ in rng.sample(roles, rng.randint(2, 5))}
            hist = self._round_ops(rng, alpha, b, 16)
            yield {"tag": f"lay_{b['graph']}", "kind": "history", "build": b, "history": hist + hist[:6]}

    def _config_cases(self, rng, alpha, quick):
        """(R5-D) configuration histories: every configuration value the anchored code reads is flipped between
        calls — before worlds are (re)built from fresh inputs (settings left to the configuration; explicit-argument
        control worlds evaluated under the opposite configuration), and in the middle of a history on reused
        objects whose settings are explicit (nothing may follow the flip)."""
        def flips(keys):
            return {k: rng.choice(CONFIG_VALUES[k]) for k in keys}

        ren = {"op": "renew", "obj": 0}
        # (a) inversions whose settings say "whatever the configuration says"
        n = 2 if quick else 30
        for i in range(n):
            b = self._inv_build(rng, wt=(i % 3 == 2), valued=None)
            b["settings_implicit"] = True
            if i % 2:
                # a mapper without regularization: no_regularization_add_to_curvature_diag_value matters
                b["mappers"][-1]["reg"] = None
            b.pop("positive_only", None)
            ops = self._round_ops(rng, alpha, b, 10)
            keys = ["positive_only", "p_initial", "diag"]
            c1, c2 = flips(keys), flips(keys)
            c2["positive_only"] = not c1["positive_only"]
            if i % 2:
                while c2["diag"] == c1["diag"]:
                    c2["diag"] = rng.choice(CONFIG_VALUES["diag"])
            extra = flips(["check_rec"]) if i % 2 == 0 else {}
            hist = [{"op": "config", "obj": 0, "set": {**c1, **extra}}, ren] + ops + \
                   [{"op": "config", "obj": 0, "set": c2}, ren] + ops + \
                   [{"op": "config", "obj": 0, "set": c1}, ren] + ops
            yield {"tag": "cfg_inversion_implicit", "kind": "history", "build": b, "history": hist, "control": True}
        # (b) explicit settings on reused objects: configuration flips between the calls change nothing
        n = 2 if quick else 20
        for i in range(n):
            b = self._inv_build(rng, wt=(i % 2 == 1), valued=None)
            # explicit values, also the "set but falsy" ones: False, 0.0
            b["positive_only"] = [False, True, False][i % 3]
            b["p_initial"] = [False, True][i % 2] if i % 4 else None
            b["diag"] = q([Fraction(0), Fraction(1, 2), Fraction(1)][i % 3])
            if i % 2 == 0:
                b["mappers"][-1]["reg"] = None
            ops = self._round_ops(rng, alpha, b, 14)
            # (only values the world's settings give explicitly are flipped on reused objects: a value left to the
            # configuration legitimately follows it at call time, and cached quantities keep what they were computed with)
            keys = ["positive_only", "diag"] + (["p_initial"] if b["p_initial"] is not None else [])
            hist = ops[:5] + [{"op": "config", "obj": 0, "set": flips(keys)}] + ops + \
                [{"op": "config", "obj": 0, "set": flips(keys)}] + ops[5:] + ops[:5]
            yield {"tag": "cfg_inversion_explicit", "kind": "history", "build": b, "history": hist,
                   "control": "pinned"}
        # (c) structures / datasets built under both values of general.structures.native_binned_only
        n = 4 if quick else 40
        for i in range(n):
            if i % 3 == 2:
                m, _ = _mask_for_dataset(rng)
                b = dataset_build(rng, m)
            else:
                b = self._struct_case_build(rng, ["Array2D", "Kernel2D", "Grid2D", "Array2D"][i % 4])
            ops = self._round_ops(rng, alpha, b, 10)
            v = i % 2 == 0
            hist = [{"op": "config", "obj": 0, "set": {"native_only": v}}, ren] + ops + \
                   [{"op": "config", "obj": 0, "set": {"native_only": not v}}, ren] + ops + \
                   [{"op": "config", "obj": 0, "set": {"native_only": v}}, ren] + ops
            yield {"tag": f"cfg_native_only_{b['graph']}", "kind": "history", "build": b, "history": hist}
        # (d) a plain method reading the configuration at call time, with its explicit argument as control
        n = 3 if quick else 24
        for i in range(n):
            b = self._struct_case_build(rng, "Grid2D")
            ks = root_kinds(b)
            top = len(ks) - 1
            qs = [{"op": "query", "obj": top, "name": "grid_2d_radial_projected_from", "arg": a}
                  for a in alpha.queries("Grid2D")["grid_2d_radial_projected_from"]["args"]]
            other = rng.sample(self._ops_of(rng, alpha, ks, [top]), 4)
            hist = []
            for v in (True, False, True, None):
                hist += [{"op": "config", "obj": 0, "set": {"remove_centre": v}}] + qs + other
            yield {"tag": "cfg_remove_centre", "kind": "history", "build": b, "history": hist}

    # values that are "set but falsy" or simply rare, per constructor parameter (only parameters the introspected
    # signature really has are used; boolean parameters not listed here get the negation of their default)
    OPTION_MENU = {
        "Imaging": {"pad_for_convolver": [True], "check_noise_map": [False], "noise_covariance_matrix": [True],
                    "use_normalized_psf": [None, False]},
        "SettingsInversion": {"use_positive_only_solver": [True, False], "positive_only_uses_p_initial": [False, True],
                              "force_edge_pixels_to_zeros": [False], "force_edge_image_pixels_to_zeros": [True],
                              "image_pixels_source_zero": [[0], []], "use_border_relocator": [False],
                              "no_regularization_add_to_curvature_diag_value": ["f:0", "f:1/2"],
                              "use_w_tilde_numpy": [True], "use_source_loop": [True]},
        "FitImaging": {"dataset_model": [["0", "0", "0"], ["1/2", "0", "0"], ["0", "1/2", "-1"]],
                       "run_time_dict": ["dict:"]},
        "Inversion": {"run_time_dict": ["dict:"]},
        "MapperGrids": {"run_time_dict": ["dict:"]},
        "Mapper": {"run_time_dict": ["dict:"]},
        "Array2D": {"skip_mask": [True], "header": [True, False]},
        "Kernel2D": {"header": [True]},
        "Grid2D": {"over_sampling_non_uniform": [1, 2]},
        "Mask2D": {"invert": [True]},
    }
    # (pad_for_convolver changes the frame, so the builder's mask no longer fits; use_linear_operators needs pylops)
    OPTION_SKIP = {"use_linear_operators", "use_w_tilde", "store_native", "normalize", "pad_for_convolver"}

    def _option_atoms(self):
        """(R5-F) (class, parameter, value) for every non-default option value of the constructors the histories
        go through, from the introspected signatures."""
        import inspect
        aa = load_autoarray()
        from autoarray.inversion.inversion import factory
        sigs = {"Imaging": aa.Imaging.__init__, "SettingsInversion": aa.SettingsInversion.__init__,
                "FitImaging": aa.FitImaging.__init__, "Inversion": factory.inversion_from,
                "MapperGrids": aa.MapperGrids.__init__, "Mapper": aa.MapperRectangular.__init__,
                "Array2D": aa.Array2D.__init__, "Kernel2D": aa.Kernel2D.__init__, "Grid2D": aa.Grid2D.__init__,
                "Mask2D": aa.Mask2D.__init__}
        atoms = []
        for cls, f in sigs.items():
            try:
                params = inspect.signature(f).parameters
            except (TypeError, ValueError):
                continue
            menu = self.OPTION_MENU.get(cls, {})
            for pn, prm in params.items():
                if pn in self.OPTION_SKIP or pn == "self":
                    continue
                if pn in menu:
                    atoms += [(cls, pn, v) for v in menu[pn]]
                elif isinstance(prm.default, bool):
                    atoms.append((cls, pn, not prm.default))
        return atoms

    GRAPH_OF_CLASS = {"Array2D": "structure", "Kernel2D": "structure", "Grid2D": "structure", "Mask2D": "structure",
                      "Imaging": "dataset", "FitImaging": "dataset"}

    def _option_cases(self, rng, alpha, quick):
        """(R5-F) rarely combined options: each non-default value of one constructor option with each of another
        (every single one at least once per run), on constructor purity + a sampled sweep, twice."""
        atoms = self._option_atoms()
        singles = [(a,) for a in atoms]
        pairs = [(a, c) for i, a in enumerate(atoms) for c in atoms[i + 1:]
                 if (a[0], a[1]) != (c[0], c[1])
                 and not (self.GRAPH_OF_CLASS.get(a[0]) == "structure" and a[0] != c[0])
                 and not (self.GRAPH_OF_CLASS.get(c[0]) == "structure" and a[0] != c[0])]
        rng.shuffle(pairs)
        rng.shuffle(singles)
        # (quick: a sample of the single options and of the pairs; thorough: every single one and 260 pairs)
        chosen = (singles[:5] + pairs[:3]) if quick else (singles + pairs[:260])
        # covering cases: every applicable option takes a non-default value with probability 0.4, so that each pair of
        # option values of one graph is met within a handful of cases (quick: 8 such cases per run)
        by_graph = {"structure:Array2D": [a for a in atoms if a[0] == "Array2D"],
                    "dataset": [a for a in atoms if a[0] in ("Imaging", "FitImaging")],
                    "inversion": [a for a in atoms if self.GRAPH_OF_CLASS.get(a[0]) != "structure"]}
        for j in range(14 if quick else 80):
            gname = ["inversion", "inversion", "dataset", "inversion", "inversion", "inversion", "structure:Array2D"][j % 7]
            params = {}
            for a in by_graph[gname]:
                params.setdefault((a[0], a[1]), []).append(a)
            combo = tuple(rng.choice(v) for k_, v in sorted(params.items())
                          if rng.random() < (0.5 if k_[0] in ("SettingsInversion", "Imaging", "Array2D") else 0.25))
            if len(combo) >= 2:
                chosen.append(combo)
        for combo in chosen:
            classes = {a[0] for a in combo}
            if classes & {"Array2D", "Kernel2D", "Grid2D", "Mask2D"}:
                struct = sorted(classes)[0]
                b = self._struct_case_build(rng, struct)
                b.pop("ctor", None)
                if struct == "Mask2D":
                    b["scales"], b["origin"] = _scales(rng), _origin(rng)
            elif classes <= {"Imaging", "FitImaging"}:
                m, _ = _mask_for_dataset(rng)
                b = dataset_build(rng, m)
            else:
                b = self._inv_build(rng, wt=rng.random() < 0.4, valued=None)
                if any(a[1] == "no_regularization_add_to_curvature_diag_value" for a in combo):
                    b["mappers"][-1]["reg"] = None
            b["opts"] = {}
            for cls, pn, v in combo:
                if cls == "Imaging" and pn == "use_normalized_psf":
                    b["normalize_psf"] = v
                elif cls == "FitImaging" and pn == "use_mask_in_fit":
                    b["use_mask_in_fit"] = v
                else:
                    b["opts"].setdefault(cls, {})[pn] = v
            ops = self._round_ops(rng, alpha, b, 12)
            if b["graph"] == "inversion":
                # every core quantity of the inversion, twice, in two orders (what every other quantity is computed from)
                ks = root_kinds(b)
                inv = ks.index("Inversion")
                core = [{"op": "read", "obj": inv, "key": k_} for k_ in self.INV_CORE]
                rng.shuffle(core)
                ops = core + [o_ for o_ in ops if o_ not in core][:4]
                hist = ops + list(reversed(ops))
            else:
                hist = ops + ops[: len(ops) // 2]
            pk = pokeable(b)
            if pk:
                hist += [{"op": "poke", "obj": rng.choice(pk)}] + [o_ for o_ in ops if o_["op"] != "derive"][:6]
            name = "+".join(f"{c}.{p}" for c, p, _ in combo)
            yield {"tag": f"opt_{min(len(combo), 3)}{'+' if len(combo) > 2 else ''}_{b['graph']}", "kind": "history",
                   "build": b, "history": hist, "options": name}

    def _always_large_cases(self, rng, alpha, quick):
        """(R5-E) always-on mid / large sizes, beyond 2^16 elements where a Python-speed run stays within budget."""
        t = (1 << 16) + rng.choice([1, 3, 257, 1025])
        fams = ["Array2D", "Grid2D", "Visibilities", "Mask2D"] + ([] if quick else ["VectorYX2D"])
        # (quick: Visibilities — cheap, and its cached quantities change under every arithmetic derivation — plus one
        # other family)
        picks = (["Visibilities"] + rng.sample(["Array2D", "Mask2D"], 1)) if quick else fams
        for fam in picks:
            if fam == "Visibilities":
                b = {"graph": "visibilities", "proc": {"seed": rng.randint(0, 10 ** 6), "n": t}}
            elif fam == "Mask2D":
                b = self._proc_struct(rng, "Mask2D", frame=(251, 263 + rng.randint(0, 6)))
            else:
                b = self._proc_struct(rng, fam, n_un=t)
                if fam in ("Array2D",) and rng.random() < 0.5:
                    b["container"] = "float32"
            yield {"tag": f"big_{fam}", "kind": "history", "build": b,
                   "history": self._large_history(rng, alpha, b, 6 if quick else 10, skip_slow=True,
                                                  n_derivs=1 if quick else 3)}
        if not quick:
            # a dataset / an inversion beyond 2^15 unmasked pixels (mapping formalism), a PSF of 225 pixels
            yield {"tag": "big_dataset", "kind": "history",
                   "build": (bd := self._proc_dataset(rng, (1 << 15) + 5, psf_shape=(3, 3))),
                   "history": self._large_history(rng, alpha, bd, 6)}
            yield {"tag": "big_inversion", "kind": "history",
                   "build": (bi := self._proc_dataset(rng, (1 << 15) + 3, inversion=True, psf_shape=(1, 3))),
                   "history": self._large_history(rng, alpha, bi, 6)}

    def _round5_cases(self, rng, alpha, quick):
        if quick:
            # (the sweeps carry the ownership rounds of the quick tier)
            yield from self._decade_cases(rng, alpha, quick)
            yield from self._layout_cases(rng, alpha, quick)
            yield from self._config_cases(rng, alpha, quick)
            yield from self._option_cases(rng, alpha, quick)
            yield from self._always_large_cases(rng, alpha, quick)
            return
        gens = [self._decade_cases(rng, alpha, quick), self._ownership_cases(rng, alpha, quick),
                self._layout_cases(rng, alpha, quick), self._config_cases(rng, alpha, quick),
                self._option_cases(rng, alpha, quick)]
        while gens:
            for gi in range(len(gens) - 1, -1, -1):
                for _ in range(3):
                    try:
                        yield next(gens[gi])
                    except StopIteration:
                        del gens[gi]
                        break
        yield from self._always_large_cases(rng, alpha, quick)   # (the slow ones last)

    # ------------------------------------------------------------------ round 4: reuse histories (L2)
    INV_CORE = ("curvature_matrix", "operated_mapping_matrix", "data_vector", "reconstruction",
                "curvature_reg_matrix", "mapped_reconstructed_data", "regularization_matrix", "mapping_matrix",
                "log_det_curvature_reg_matrix_term", "regularization_term")

    def _ops_of(self, rng, alpha, ks, idxs, extras=False, exclude=()):
        ops = []
        for o in idxs:
            for key in alpha.reads(ks[o]):
                if (ks[o], key) in exclude:
                    continue
                ops.append({"op": "read", "obj": o, "key": key})
            for name in alpha.queries(ks[o]):
                if (ks[o], name) in exclude:
                    continue
                stq = alpha.random_query(rng, ks[o], name, extras=extras)
                stq["obj"] = o
                ops.append(stq)
        return ops

    def _inv_idxs(self, ks, base=0, with_dataset=True):
        idx = [i for i, k in enumerate(ks) if k in ("Inversion", "Mapper", "FitInversion", "Mesh", "OverSampler",
                                                     "Grid2DIrregular") or k.startswith("MapperValued")]
        return idx + ([base + 9] if with_dataset else [])

    def _sample_ops(self, rng, alpha, ks, idxs, n, extras=False, exclude=()):
        """a sample of n operations on the given objects, always containing a few of the inversion's core
        quantities (the ones every other quantity is computed from)."""
        ops = self._ops_of(rng, alpha, ks, idxs, extras=extras, exclude=exclude)
        core = [op for op in ops if op["op"] == "read" and ks[op["obj"]] == "Inversion" and op["key"] in self.INV_CORE]
        pick = rng.sample(core, min(4, len(core)))
        rest = [op for op in ops if op not in pick]
        pick += rng.sample(rest, min(max(0, n - len(pick)), len(rest)))
        rng.shuffle(pick)
        return pick

    def _inv_build(self, rng, nm=None, wt=None, valued="masked"):
        m, _ = _mask_for_dataset(rng)
        b = dataset_build(rng, m, inversion=True)
        while nm is not None and len(b["mappers"]) != nm:
            b = dataset_build(rng, m, inversion=True)
        if wt is not None:
            b["w_tilde"] = wt
        if b["w_tilde"] and b["psf_shape"][0] != b["psf_shape"][1]:
            k = max(b["psf_shape"])
            b["psf_shape"] = [k, k]
            b["psf"] = [q(_pos(rng, 0, 4) + Fraction(1, 4)) for _ in range(k * k)]
        if valued == "masked":
            npix = n_params_of(b["mappers"][0])
            pm = "".join(rng.choice("01") for _ in range(npix))
            pm = pm if "1" in pm else "1" + pm[1:]
            pm = pm if "0" in pm else "0" + pm[1:]
            vals = [_dy(rng, 0, 8) + Fraction(1, 4) for _ in range(npix)]
            b["valued"] = {"values": [q(0 if c == "1" else v) for v, c in zip(vals, pm)], "pixel_mask": pm}
        return b

    def _reuse_cases(self, rng, alpha, quick):
        """history stream on REAL reused objects (DESIGN §13, L2): fault-then-reuse (read-only / wrong-length
        inputs, failing query arguments, interrupts injected at internal call boundaries), user edits through
        `__setitem__`, near-duplicate argument twins, two worlds in one process (near-duplicate inputs, equal
        shapes, shared configuration / helper objects) — every observation compared with a freshly built object."""
        # ---- (iii) fault then reuse: inputs that make an operation fail in the middle -------------------
        n = 10 if quick else 60
        for i in range(n):
            b = self._inv_build(rng, wt=(i % 3 == 0))
            how = ["readonly_values", "len+1", "len-1", "readonly_all", "readonly_values"][i % 5]
            if how == "readonly_values":
                # values non-zero under the pixel mask: `values_masked` has to write — and cannot
                npix = n_params_of(b["mappers"][0])
                b["valued"]["values"] = [q(_dy(rng, 0, 8) + Fraction(1, 4)) for _ in range(npix)]
                b["readonly"] = ["mv_values"] + (["mesh_pixel_mask"] if rng.random() < 0.5 else [])
            elif how in ("len+1", "len-1"):
                b["valued"]["len_delta"] = 1 if how == "len+1" else -1
            else:
                b["readonly"] = ["mask", "data", "noise", "psf", "model_data", "mv_values", "mesh_pixel_mask"]
            ks = root_kinds(b)
            mvi = len(ks) - 1
            mapper = ks.index("Mapper")
            mv_ops = self._ops_of(rng, alpha, ks, [mvi], extras=True)
            rng.shuffle(mv_ops)
            pre = self._sample_ops(rng, alpha, ks, [mapper, ks.index("Inversion")], rng.choice([0, 3, 6]))
            post = self._sample_ops(rng, alpha, ks, self._inv_idxs(ks, with_dataset=False), 14)
            post += [{"op": "read", "obj": mapper, "key": "mapping_matrix"}]
            yield {"tag": f"reuse_fault_input_{how}", "kind": "history", "build": b,
                   "history": pre + mv_ops + post + mv_ops[:4] + post}
        # failing query arguments on every kind that has queries
        n = 8 if quick else 40
        for i in range(n):
            b = self._inv_build(rng)
            ks = root_kinds(b)
            idxs = self._inv_idxs(ks) + [1, 7]
            qs = [op for op in self._ops_of(rng, alpha, ks, idxs, extras=True) if op["op"] == "query"]
            rng.shuffle(qs)
            post = self._sample_ops(rng, alpha, ks, idxs, 16)
            yield {"tag": "reuse_fault_args", "kind": "history", "build": b,
                   "history": post[:5] + qs + post + qs[:3] + post}
        # interrupts injected at internal call boundaries of reads / queries
        n = 24 if quick else 160
        for i in range(n):
            r = i % 4
            if r == 3:
                struct = rng.choice(["Array2D", "Grid2D", "Mask2D", "Kernel2D", "Kernel2D", "VectorYX2D"])
                b = self._struct_case_build(rng, struct)
                ks = root_kinds(b)
                idxs = [len(ks) - 1]
            elif r == 2:
                m, _ = _mask_for_dataset(rng)
                b = dataset_build(rng, m)
                ks = root_kinds(b)
                idxs = [8, 9, 11]
            else:
                b = self._inv_build(rng, wt=(r == 1))
                ks = root_kinds(b)
                idxs = self._inv_idxs(ks)
            if r != 3:
                idxs = idxs + [7]  # the PSF kernel object
            ops = self._sample_ops(rng, alpha, ks, idxs, 16)
            # every query of the objects involved is interrupted at every one of its internal call boundaries
            # (k = "all"); reads at a random one or at all of them
            qs = [op for op in self._ops_of(rng, alpha, ks, idxs) if op["op"] == "query"]
            hist = list(ops[:rng.choice([0, 2, 5])])
            for op in rng.sample(qs, min(3, len(qs))) + rng.sample(ops, min(5, len(ops))):
                k = "all" if (op["op"] == "query" or rng.random() < 0.4) else rng.choice([1, 1, 2, 2, 3, 4, 5, 7, 10])
                hist.append({"op": "fault", "obj": op["obj"], "k": k,
                             "inner": {k_: v for k_, v in op.items() if k_ != "obj"}})
                hist += rng.sample(ops, min(3, len(ops)))
            yield {"tag": f"reuse_interrupt_{b['graph']}", "kind": "history", "build": b, "history": hist + ops}
        # ---- (i) read -> user edit through the public __setitem__ -> read --------------------------------
        reps = 2 if quick else 10
        for _ in range(reps):
            for struct in ("Array2D", "Grid2D", "VectorYX2D", "Kernel2D", "Mask2D", "Visibilities"):
                b = self._struct_case_build(rng, struct)
                ks = root_kinds(b)
                top = len(ks) - 1
                ops = self._ops_of(rng, alpha, ks, [top])
                rng.shuffle(ops)
                half = ops[: len(ops) // 2]
                edit = lambda o: {"op": "setitem", "obj": o, "pos": q(Fraction(rng.randint(0, 63), 64)),
                                  "val": q(_dy(rng, 1, 8) + Fraction(1, 8))}
                hist = half + [edit(top)] + ops + [edit(top)] + ops[len(ops) // 2:]
                # objects derived before / after the edit
                derivs = list(alpha.derivs(struct))
                for how in rng.sample(derivs, min(3, len(derivs))):
                    d = len(ks) + sum(1 for st in hist if st["op"] == "derive")
                    hist.append({"op": "derive", "obj": top, "g": alpha.random_g(rng, struct, how)})
                    rk = alpha.derivs(struct)[how].get("result") or struct
                    keys = alpha.reads(rk)
                    probe = [{"op": "read", "obj": d, "key": k} for k in rng.sample(keys, min(6, len(keys)))]
                    hist += probe + [edit(rng.choice([top, d]))] + probe + \
                        [{"op": "read", "obj": top, "key": k} for k in rng.sample(alpha.reads(struct), 4)]
                yield {"tag": f"reuse_setitem_{struct}", "kind": "history", "build": b, "history": hist}
        # ---- (ii) near-duplicate argument twins on the same object ---------------------------------------
        n = 16 if quick else 100
        for i in range(n):
            struct = rng.choice(["Array2D", "Grid2D", "Grid2D", "VectorYX2D", "Visibilities", "Mask2D", "Kernel2D"])
            b = self._struct_case_build(rng, struct)
            ks = root_kinds(b)
            top = len(ks) - 1
            hist = []
            pool_kinds = list(ks)
            for _ in range(rng.randint(2, 4)):
                qs = list(alpha.queries(struct))
                tw = [h for h in alpha.derivs(struct) if h in TWIN_OK]
                if qs and (rng.random() < 0.5 or not tw):
                    name = rng.choice(qs)
                    a0 = alpha.random_query(rng, struct, name)
                    a1 = {**a0, "arg": twin_arg(a0["arg"], rng)} if name in TWIN_OK else \
                        alpha.random_query(rng, struct, name, extras=True)
                    hist += [{**a0, "obj": top}, {**a1, "obj": top}, {**a0, "obj": top}]
                elif tw:
                    how = rng.choice(tw)
                    g0 = alpha.random_g(rng, struct, how)
                    g1 = f"{how}:{twin_arg(g0.partition(':')[2], rng)}"
                    keys = rng.sample(alpha.reads(struct), 3)
                    for gname in (g0, g1, g0):
                        d = len(pool_kinds)
                        hist.append({"op": "derive", "obj": top, "g": gname})
                        pool_kinds.append(struct)
                        hist += [{"op": "read", "obj": d, "key": k} for k in keys + ["array"]]
            yield {"tag": f"reuse_twin_args_{struct}", "kind": "history", "build": b, "history": hist}
        # mapper / inversion queries with near-duplicate arguments
        n = 4 if quick else 30
        for i in range(n):
            b = self._inv_build(rng)
            ks = root_kinds(b)
            mapper = ks.index("Mapper")
            hist = []
            for _ in range(3):
                a0 = alpha.random_query(rng, "Mapper", "pixel_signals_from")
                a1 = {**a0, "arg": twin_arg(a0["arg"], rng)}
                hist += [{**a0, "obj": mapper}, {**a1, "obj": mapper}, {**a0, "obj": mapper}]
            yield {"tag": "reuse_twin_args_Mapper", "kind": "history", "build": b, "history": hist}
        # ---- (ii)/(iv) two worlds in one process ---------------------------------------------------------
        n = 30 if quick else 200
        for i in range(n):
            yield self._two_world_case(rng, alpha, i)

    TWIN_FIELDS = ("data", "noise", "psf", "scales", "origin", "coeff", "distort", "model", "mv_values")

    def _perturb_list(self, xs, rng, all_entries=True, keep_zero=False):
        """every entry (or one entry) multiplied by 1 + 2^-20; zeros moved by 2^-33."""
        k = None if all_entries else rng.randrange(len(xs))
        out = []
        for i, x in enumerate(xs):
            v = Fraction(x)
            if k is None or i == k:
                v = v * (1 + _EPS) if (v != 0 or keep_zero) else Fraction(1, 1 << 33)
            out.append(q(v))
        return out

    def _two_world_case(self, rng, alpha, i):
        import copy as _copy
        mode = ["twin", "share", "shape", "twin", "share", "twin_struct", "share_struct"][i % 7]
        if mode in ("twin_struct", "share_struct"):
            struct = rng.choice(["Array2D", "Grid2D", "Grid2D", "VectorYX2D", "Kernel2D", "Mask2D", "Visibilities"])
            b1 = self._struct_case_build(rng, struct)
            b2 = _copy.deepcopy(b1)
            share = []
            if mode == "share_struct":
                struct = "Grid2D"
                b1 = self._struct_case_build(rng, struct)
                b1["sub"] = rng.choice([1, 2])
                b2 = self._struct_case_build(rng, struct)
                b2["sub"] = b1["sub"]
                share = ["over_sampling"]
            else:
                f = rng.choice(["values", "values", "scales", "origin"])
                if struct == "Visibilities" or f == "values":
                    if struct == "Mask2D":
                        bits = list(b2["mask"]["bits"])
                        k = rng.randrange(len(bits))
                        bits[k] = "0" if bits[k] == "1" else "1"
                        if "0" in bits:
                            b2["mask"]["bits"] = "".join(bits)
                    elif isinstance(b2["values"][0], list) if b2["values"] else False:
                        flat = self._perturb_list([x for pr in b2["values"] for x in pr], rng, rng.random() < 0.5)
                        b2["values"] = [flat[j:j + 2] for j in range(0, len(flat), 2)]
                    elif b2.get("values"):
                        b2["values"] = self._perturb_list(b2["values"], rng, rng.random() < 0.5)
                    if b2.get("container") in ("int64", "list_int"):
                        b2["container"] = b1["container"] = "ndarray"
                else:
                    b2[f] = self._perturb_list(b2[f], rng, rng.random() < 0.5)
            b = {"graph": "twoworld", "worlds": [b1, b2], "share": share}
            ks = root_kinds(b)
            n1 = len(root_kinds(b1))
            tops = [n1 - 1, len(ks) - 1]
            ops1 = self._ops_of(rng, alpha, ks, [tops[0]], extras=False)
            pick = rng.sample(range(len(ops1)), min(24, len(ops1)))
            hist = []
            for j in pick:
                pair = [ops1[j], {**ops1[j], "obj": tops[1]}]
                if rng.random() < 0.5:
                    pair.reverse()
                hist += pair
            return {"tag": f"reuse_two_{mode}_{struct}", "kind": "history", "build": b, "history": hist + hist[:12]}
        b1 = self._inv_build(rng, valued=rng.choice(["masked", None]))
        if mode == "twin":
            b2 = _copy.deepcopy(b1)
            f = rng.choice(self.TWIN_FIELDS)
            every = rng.random() < 0.6
            if f == "coeff":
                for ms in b2["mappers"]:
                    ms["coeff"] = self._perturb_list([ms["coeff"]], rng)[0]
            elif f == "mv_values":
                if b2.get("valued") and not mv_from_rec(b2["valued"]):
                    # (zeros stay zeros: values that are non-zero under the pixel mask are known finding D9b)
                    b2["valued"]["values"] = self._perturb_list(b2["valued"]["values"], rng, True, keep_zero=True)
                else:
                    b2["data"] = self._perturb_list(b2["data"], rng, every)
            else:
                b2[f] = self._perturb_list(b2[f], rng, every)
            share = []
        elif mode == "shape":
            # same frame, same number of unmasked pixels, same mesh sizes: everything else drawn afresh
            b2 = _copy.deepcopy(b1)
            m = mask_from_json(b1["mask"])
            h, w = m.shape
            for f, gen_ in (("data", lambda: _dy(rng, -2, 8)), ("noise", lambda: _pos(rng, 1, 4)),
                            ("model", lambda: _dy(rng, -2, 8))):
                b2[f] = [q(gen_()) for _ in b1[f]]
            if rng.random() < 0.6:
                # another mask of the same shape with the same count: rotate the unmasked region by one pixel
                m2 = np.roll(m, 1, axis=rng.choice([0, 1]))
                if (not m2[0].all()) or (not m2[-1].all()) or (not m2[:, 0].all()) or (not m2[:, -1].all()):
                    m2 = m
                b2["mask"] = _mask_json_np(m2)
                b2["submasks"] = [mask_json(_rand_submask(rng, m2.tolist())) for _ in range(2)]
            b2["psf"] = [q(_pos(rng, 0, 4) + Fraction(1, 4)) for _ in b1["psf"]]
            for ms in b2["mappers"]:
                ms["coeff"] = q(_pos(rng, 1, 4))
            if b2.get("valued") and not mv_from_rec(b2["valued"]):
                pm = b2["valued"].get("pixel_mask")
                b2["valued"]["values"] = [q(0 if (pm and pm[k] == "1") else _dy(rng, 0, 8) + Fraction(1, 4))
                                          for k in range(len(b2["valued"]["values"]))]
            share = []
        else:
            share = rng.sample(["over_sampling", "over_sampling_pix", "over_sampling_dataset", "settings",
                                "preloads", "regularization", "psf", "mask", "over_sampler"], rng.randint(2, 5))
            if "over_sampler" in share and "mask" not in share:
                share.append("mask")
            b2 = self._inv_build(rng, nm=len(b1["mappers"]) if "settings" in share else None,
                                 valued=rng.choice(["masked", None]))
            if "settings" in share:
                b2["w_tilde"], b2["positive_only"] = b1["w_tilde"], b1["positive_only"]
            if "over_sampling" in share or "over_sampling_dataset" in share:
                b2["sub"] = b1["sub"]
            if "over_sampling_pix" in share or "over_sampling_dataset" in share or "over_sampler" in share:
                b2["sub_pix"] = b1["sub_pix"]
            if "psf" in share or b2["w_tilde"]:
                b2["psf"], b2["psf_shape"], b2["normalize_psf"] = b1["psf"], b1["psf_shape"], b1["normalize_psf"]
                b2["scales"] = b1["scales"]
            if "mask" in share:
                for f in ("mask", "scales", "origin", "submasks"):
                    b2[f] = b1[f]
                h, w = b1["mask"]["h"], b1["mask"]["w"]
                n_un = b1["mask"]["bits"].count("0")
                b2["data"] = [q(_dy(rng, -2, 8)) for _ in range(h * w)]
                b2["noise"] = [q(_pos(rng, 1, 4)) for _ in range(h * w)]
                b2["model"] = [q(_dy(rng, -2, 8)) for _ in range(n_un)]
            if "regularization" in share:
                for ms1, ms2 in zip(b1["mappers"], b2["mappers"]):
                    if ms1["mesh"] == ms2["mesh"] or ms2.get("reg") == ms1.get("reg"):
                        ms2["reg"], ms2["coeff"] = ms1["reg"], ms1["coeff"]
        b = {"graph": "twoworld", "worlds": [b1, b2], "share": share}
        ks = root_kinds(b)
        n1 = len(root_kinds(b1))
        i1 = [j for j in self._inv_idxs(ks[:n1], base=0)]
        i2 = [n1 + j for j in self._inv_idxs(ks[n1:], base=0)]
        hist = []
        if mode in ("twin", "shape"):
            # the same operation on both worlds, in both orders
            ops1 = self._sample_ops(rng, alpha, ks, i1, 22, exclude=(("Imaging", "w_tilde"),))
            for op in ops1:
                o2 = op["obj"] + n1
                if o2 >= len(ks) or ks[o2] != ks[op["obj"]]:
                    hist.append(op)
                    continue
                pair = [op, {**op, "obj": o2}]
                if rng.random() < 0.5:
                    pair.reverse()
                hist += pair
        else:
            ops = self._sample_ops(rng, alpha, ks, i1, 14) + self._sample_ops(rng, alpha, ks, i2, 14)
            rng.shuffle(ops)
            hist = ops
        return {"tag": f"reuse_two_{mode}", "kind": "history", "build": b, "history": hist + hist[: len(hist) // 2]}

    # ------------------------------------------------------------------ round 4: sizes around new constants (L1)
    LARGE_MAX = {"struct": 150000, "vis": 300000, "dataset": 70000, "inv_rows": 70000, "inv_wt": 1100,
                 "mesh": 2600, "kernel": 450, "rng": 70000}

    def _proc_struct(self, rng, struct, n_un=None, frame=None):
        """procedural structure build: exactly n_un unmasked pixels in a non-square frame, or an H x W frame with
        H*W = frame pixels."""
        p = {"seed": rng.randint(0, 10 ** 6)}
        if frame is not None:
            h, w = frame
            p.update(h=h, w=w, margin=[0, 0], n_un=h * w - max(0, min(3, h * w - 1)), holes=0)
        else:
            h, w = frame_for(n_un, 1, 1, skew=rng.choice([2, 3, 5]))
            p.update(h=h, w=w, margin=[1, 1], n_un=n_un, holes=rng.choice([0, 2]))
        b = {"graph": "structure", "struct": struct, "proc": p, "scales": _scales(rng), "origin": _origin(rng),
             "form": rng.choice(["slim", "native"]), "store_native": rng.random() < 0.5, "container": "ndarray"}
        if struct == "Kernel2D":
            b["normalize"] = rng.random() < 0.5
            p["all_unmasked"] = True
        if struct == "Grid2D":
            b["sub"] = rng.choice([0, 1, 2])
            p["uniform"] = rng.random() < 0.5
        return b

    def _proc_dataset(self, rng, n_un, inversion=False, psf_shape=(3, 3), sub=1, sub_pix=1, wt=False,
                      mappers=None, valued=None, small_frame=None):
        kh, kw = psf_shape
        my, mx = max(1, kh // 2), max(1, kw // 2)
        h, w = frame_for(n_un, my, mx, skew=rng.choice([2, 3, 5]))
        p = {"seed": rng.randint(0, 10 ** 6), "h": h, "w": w, "n_un": n_un, "margin": [my, mx],
             "holes": rng.choice([0, 2]), "psf_signed": rng.random() < 0.5}
        b = {"graph": "inversion" if inversion else "dataset", "proc": p, "scales": _scales(rng),
             "origin": _origin(rng), "psf_shape": [kh, kw], "sub": sub, "sub_pix": sub_pix,
             "normalize_psf": rng.random() < 0.5, "use_mask_in_fit": rng.random() < 0.3,
             "ds_store_native": rng.random() < 0.35}
        if inversion:
            b["mappers"] = mappers or [{"mesh": "rect", "shape": [3, rng.choice([2, 3])],
                                        "reg": rng.choice(["constant", "zeroth"]), "coeff": q(_pos(rng, 1, 4))}]
            b["w_tilde"] = wt
            # (the non-negative solver iterates over active sets: not with thousands of mesh pixels)
            b["positive_only"] = rng.random() < 0.3 and max(n_params_of(ms) for ms in b["mappers"]) <= 600
            b["distort"] = [q(v) for v in rng.choice([(1, 0, 0, 1), (Fraction(3, 4), Fraction(1, 4), 0, 1)])]
            p["extent"] = float(max(h * float(Fraction(b["scales"][0])), w * float(Fraction(b["scales"][1]))))
            npix = n_params_of(b["mappers"][0])
            if valued is None:
                valued = rng.choice(["rec", "masked", "masked"])
            if valued == "rec":
                b["valued"] = {"values": "reconstruction", "pixel_mask": None}
            elif valued == "masked":
                pm = "".join("1" if rng.random() < 0.3 else "0" for _ in range(npix))
                pm = ("1" if "1" not in pm else pm[0]) + pm[1:]
                b["valued"] = {"values": {"n": npix, "zero_under_mask": True}, "pixel_mask": pm}
        return b

    SOLVE_WORDS = ("reconstruct", "log_det", "regularization_term", "data_subtracted", "noise_map", "errors")

    SLOW_DERIVS = ("apply_mask", "zoomed", "padded", "trimmed", "resized", "padded_grid_from", "derive_mask",
                   "rescaled", "mask_resized")
    SLOW_WORDS = ("derive_", "zoom")   # pure-Python border / edge / zoom loops: seconds at 2^16 pixels (C10's subject)

    def _large_history(self, rng, alpha, b, n_ops=14, skip_slow=False, n_derivs=3):
        ks = root_kinds(b)
        excl = set()
        if skip_slow:
            excl |= {(k_, key) for k_ in set(ks) for key in alpha.reads(k_) if any(w in key for w in self.SLOW_WORDS)}
        n_un = b["proc"].get("n_un", 0) if "proc" in b else 0
        if n_un > 600:
            excl.add(("Imaging", "w_tilde"))  # O(N^2) in pure Python
        big_mesh = b["graph"] == "inversion" and max(n_params_of(ms) for ms in b["mappers"]) > 600
        if b["graph"] == "inversion":
            idxs = self._inv_idxs(ks)
            if big_mesh:
                # every fresh-object value of a quantity behind the dense solve costs one O(P^3) factorisation:
                # keep the quantities in front of it, and exactly two behind it
                idxs = [i for i in idxs if ks[i] != "FitInversion"]
                excl |= {("Inversion", k) for k in alpha.reads("Inversion") if any(w in k for w in self.SOLVE_WORDS)}
                excl.add(("Inversion", "source_quantity_dict_from"))
        elif b["graph"] == "dataset":
            idxs = [8, 9, 11, 5, 7]
        else:
            idxs = [len(ks) - 1]
        ops = self._ops_of(rng, alpha, ks, idxs, exclude=excl)
        core = [op for op in ops if op["op"] == "read" and ks[op["obj"]] == "Inversion" and op["key"] in self.INV_CORE]
        rest = [op for op in ops if op not in core]
        ops = core + rng.sample(rest, min(max(0, n_ops - len(core)), len(rest)))
        rng.shuffle(ops)
        if big_mesh:
            inv = ks.index("Inversion")
            ops.insert(rng.randint(0, len(ops)), {"op": "read", "obj": inv, "key": "reconstruction"})
            ops.append({"op": "read", "obj": inv, "key": "mapped_reconstructed_data"})
        hist = ops + ops
        if b["graph"] in ("structure", "visibilities"):
            kind = ks[-1]
            top = len(ks) - 1
            derivs = [h for h in alpha.derivs(kind) if not (skip_slow and h in self.SLOW_DERIVS)]
            d = len(ks)
            for how in rng.sample(derivs, min(n_derivs, len(derivs))):
                ck = [k_ for k_ in alpha.cached_reads(kind) if (kind, k_) not in excl]
                pool_ = [k_ for k_ in alpha.reads(kind) if (kind, k_) not in excl]
                pre = rng.sample(pool_, 3) + ([rng.choice(ck)] if ck else [])
                hist += [{"op": "read", "obj": top, "key": k} for k in pre]
                hist.append({"op": "derive", "obj": top, "g": alpha.random_g(rng, kind, how)})
                rk = alpha.derivs(kind)[how].get("result") or kind
                keys = [k_ for k_ in alpha.reads(rk) if not (skip_slow and any(w in k_ for w in self.SLOW_WORDS))]
                # the keys read on the source before the derivation, on the derived object; and the source again
                hist += [{"op": "read", "obj": d, "key": k} for k in pre if k in keys]
                hist += [{"op": "read", "obj": d, "key": k} for k in rng.sample(keys, min(3, len(keys)))]
                hist += [{"op": "read", "obj": top, "key": k} for k in pre[:2]]
                d += 1
            hist += ops[:6]
        return hist

    def generate_large(self, hints, rng):
        """cases whose sizes straddle every new integer constant of the anchored source (DESIGN §13, L1): for each
        hint c and each size dimension the histories of this property run over (unmasked pixels = rows of the
        mapping matrix, frame pixels H*W, total sub-pixels, mesh pixels, kernel pixels, visibilities, simulated
        image pixels) the sizes c+1, c, c + c//3 + 1, 2c+1, c-1, on non-square off-origin anisotropic frames with a
        partial last row, noise-maps != 1, signed asymmetric kernels, both formalisms.  The builds are procedural
        (the case stores the recipe); the cache machine is symbolic, so the model comparison is size-independent."""
        alpha = Alphabet()
        M = self.LARGE_MAX

        def divisors(t):
            best = (1, t)
            for a in range(2, int(t ** 0.5) + 1):
                if t % a == 0 and a != t // a:
                    best = (a, t // a)
            return best if rng.random() < 0.5 else (best[1], best[0])

        def case(b, tag, n_ops=None):
            size = max(b.get("proc", {}).get("n_un", 0), b.get("proc", {}).get("n", 0))
            return {"tag": f"large_{tag}", "kind": "history", "build": b,
                    "history": self._large_history(rng, alpha, b, n_ops or scale(14, size))}

        def scale(n, t):
            # fewer distinct quantities per history as the objects grow (every one costs a fresh build)
            return n if t <= 5000 else max(6, n // 2) if t <= 20000 else max(4, n // 3)

        def frame_of(t, c):
            fr = divisors(t)
            if min(fr) == 1 and t > 5000:  # a prime: no 1 x t frames of that length, the neighbour on the same side of c
                fr = divisors(t + 1 if t > c else t - 1)
            return fr

        # cheapest families first inside each target size, so that a time cut leaves every dimension its c + 1 case
        RANK = ("Visibilities", "rng", "dataset", "Array2D", "Grid2D", "VectorYX2D", "Mask2D", "Kernel2D", "kernel",
                "inv_subpix", "inv_rows", "inv_wt", "inv_mesh")

        def rank(cs):
            tag = cs["tag"][len("large_"):]
            return next((i for i, r in enumerate(RANK) if tag.startswith(r)), len(RANK))

        def one_target(c, t):
            # rows of the mapping matrix / unmasked pixels of an inversion (mapping formalism)
            if t <= M["inv_rows"]:
                yield case(self._proc_dataset(rng, t, inversion=True, psf_shape=rng.choice([(3, 3), (1, 3), (1, 1)]),
                                              wt=False), f"inv_rows_{t}", n_ops=scale(18, t))
            if t <= M["inv_wt"]:
                yield case(self._proc_dataset(rng, t, inversion=True, psf_shape=(3, 3), wt=True), f"inv_wt_rows_{t}")
            # total sub-pixels of the pixelization grid
            if 4 <= t <= 4 * M["inv_rows"]:
                yield case(self._proc_dataset(rng, -(-t // 4), inversion=True, sub_pix=2, sub=rng.choice([1, 2])),
                           f"inv_subpix_{t}")
            # mesh pixels (small image): rectangular and Delaunay, both formalisms
            if 9 <= t <= M["mesh"]:
                r_, c_ = divisors(t)
                if min(r_, c_) < 3:
                    r_ = max(3, int(t ** 0.5) - 1)
                    c_ = -(-t // r_)
                for mesh_spec, nm in (({"mesh": "rect", "shape": [r_, c_]}, "rect"),
                                      ({"mesh": "delaunay", "n_points": t}, "delaunay")):
                    ms = {**mesh_spec, "reg": "constant", "coeff": q(_pos(rng, 1, 4))}
                    yield case(self._proc_dataset(rng, rng.randint(20, 40), inversion=True, mappers=[ms],
                                                  wt=(t == c + 1 and nm == "rect") or t <= 600,
                                                  valued="masked"),
                               f"inv_mesh_{nm}_{t}", n_ops=16)
            # kernel pixels
            if 9 <= t <= M["kernel"]:
                kh = max(3, int(t ** 0.5) // 2 * 2 + 1)
                kw = max(3, (-(-t // kh)) // 2 * 2 + 1)
                for (a_, b_) in {(kh, kw), (kh, max(1, kw - 2)), (kh, kw + 2)}:
                    if a_ * b_ in range(t - 2 * kh, t + 2 * kh + 1):
                        yield case(self._proc_dataset(rng, rng.randint(12, 30), inversion=rng.random() < 0.5,
                                                      psf_shape=(a_, b_)), f"kernel_{a_}x{b_}")
                yield case(self._proc_struct(rng, "Kernel2D", frame=(kh, kw)), f"Kernel2D_{kh}x{kw}")
            # datasets / fits: unmasked pixels, sub-pixels
            if t <= M["dataset"]:
                yield case(self._proc_dataset(rng, t, psf_shape=rng.choice([(3, 3), (3, 1)]), sub=1), f"dataset_{t}")
                yield case(self._proc_dataset(rng, -(-t // 4), sub=2), f"dataset_sub_{t}")
            # structures: unmasked pixels and frame pixels
            if t <= M["struct"]:
                for struct in ("Array2D", "Grid2D", "VectorYX2D"):
                    yield case(self._proc_struct(rng, struct, n_un=t), f"{struct}_{t}")
                fr = frame_of(t, c)
                for struct in ("Mask2D", "Array2D", "Grid2D"):
                    yield case(self._proc_struct(rng, struct, frame=fr), f"{struct}_frame_{fr[0]}x{fr[1]}")
            if t <= M["vis"]:
                b = {"graph": "visibilities", "proc": {"seed": rng.randint(0, 10 ** 6), "n": t}}
                yield case(b, f"Visibilities_{t}")
            if 6 <= t <= M["rng"]:
                h, w = divisors(t)
                b = {"graph": "rng", "shape": [h, w], "scales": _scales(rng), "proc": {"seed": rng.randint(0, 10 ** 6)},
                     "exposure_time": q(1000), "background_sky_level": q(1), "normalize_psf": True,
                     "add_noise": True, "noise_in_map": True, "func": rng.choice(["simulator"] + list(self.SEEDED_FUNCS))}
                hist = [{"op": "reseed", "j": 3}]
                for sd in (0, 7, 2 ** 32 - 1):
                    hist += [{"op": "simulate", "seed": sd}, {"op": "draw", "n": 3}, {"op": "simulate", "seed": sd}]
                yield {"tag": f"large_rng_{t}", "kind": "rng", "build": b, "history": hist}

        for c in sorted(set(int(x) for x in hints)):
            if c < 8:
                continue
            # (just above first: a gate is usually `> c` or `>= c`; the expensive 2c + 1 late)
            for t in (c + 1, c, c + c // 3 + 1, 2 * c + 1, c - 1):
                if t < 2:
                    continue
                yield from sorted(one_target(c, t), key=rank)

    def _struct_case_build(self, rng, struct):
        if struct == "Visibilities":
            n = rng.randint(1, 7)
            return {"graph": "visibilities", "values": [[q(_dy(rng)), q(_dy(rng))] for _ in range(n)]}
        if struct == "Kernel2D":
            h, w = rng.choice([(1, 1), (3, 3), (3, 5), (5, 3), (1, 3)])
            return struct_build(rng, struct, gen.full(h, w, False))
        if struct == "Mask2D" and rng.random() < 0.5:
            # circular masks so that circular_radius / is_circular are defined
            h = w = rng.choice([5, 7])
            r = rng.choice([1, 2])
            c = (h - 1) / 2
            m = [[not ((y - c) ** 2 + (x - c) ** 2 <= r * r + 1e-9) for x in range(w)] for y in range(h)]
            b = struct_build(rng, "Mask2D", m)
            b["scales"] = ["1", "1"]
            b["origin"] = ["0", "0"]
            return b
        h, w = rng.randint(1, 7), rng.randint(1, 7)
        r = rng.random()
        if r < 0.05:
            m = gen.full(h, w, True)                       # no unmasked pixel at all
        elif r < 0.12:
            m = gen.full(h, w, True)
            m[rng.randrange(h)][rng.randrange(w)] = False  # exactly one
        elif r < 0.2 or min(h, w) < 2:
            m = gen.full(h, w, False)                      # all unmasked
        else:
            m, _ = gen.random_mask(rng, h, w)
            if not any(not v for r_ in m for v in r_):
                m[h // 2][w // 2] = False
        return struct_build(rng, struct, m)

    def _pattern_cases(self, rng, alpha, reps):
        for kind, spec in effects()["kinds"].items():
            cached = alpha.cached_reads(kind)
            if not cached or not alpha.derivs(kind):
                continue
            for key in cached:
                for how in alpha.derivs(kind):
                    for _ in range(reps):
                        if kind in ("Array2D", "Grid2D", "VectorYX2D", "Kernel2D", "Mask2D", "Visibilities"):
                            b = self._struct_case_build(rng, kind)
                            ks = root_kinds(b)
                            o = len(ks) - 1
                        elif kind == "Imaging":
                            m, _ = _mask_for_dataset(rng)
                            b = dataset_build(rng, m)
                            ks = root_kinds(b)
                            o = rng.choice([8, 9])
                        elif kind == "Mesh":
                            m, _ = _mask_for_dataset(rng)
                            b = dataset_build(rng, m, inversion=True)
                            ks = root_kinds(b)
                            o = ks.index("Mesh")
                        else:
                            continue
                        gname = alpha.random_g(rng, kind, how)
                        d = len(ks)
                        other = rng.choice(alpha.reads(alpha.derivs(kind)[how].get("result") or kind))
                        hist = [{"op": "read", "obj": o, "key": key}, {"op": "derive", "obj": o, "g": gname},
                                {"op": "read", "obj": d, "key": key}, {"op": "read", "obj": o, "key": key},
                                {"op": "read", "obj": d, "key": other}, {"op": "derive", "obj": d, "g": gname},
                                {"op": "read", "obj": d + 1, "key": key}]
                        yield {"tag": f"pattern_{kind}", "kind": "history", "build": b, "history": hist}

    def _sweep_cases(self, rng, alpha, reps):
        ren = {"op": "renew", "obj": 0, "scribble": True}

        def owned(ops):
            """(R5-B) ownership rounds behind the two passes over one world: the caller scribbles over every array it
            was handed or handed over, builds the same world again from fresh equal inputs and sweeps again (other
            order); and once more (the third request of a process-wide memo)."""
            o2 = list(ops)
            rng.shuffle(o2)
            return ops + ops + [ren] + o2 + [ren] + ops[: (len(ops) + 1) // 2]

        def all_ops(ks, idxs):
            ops = []
            for o in idxs:
                for key in alpha.reads(ks[o]):
                    ops.append({"op": "read", "obj": o, "key": key})
                for name, spec in alpha.queries(ks[o]).items():
                    args = spec.get("args")
                    ops.append({"op": "query", "obj": o, "name": name, "arg": rng.choice(args) if args else ""})
            return ops

        for rep_i in range(reps):
            for struct in ("Array2D", "Grid2D", "VectorYX2D", "Kernel2D", "Mask2D", "Visibilities"):
                b = self._struct_case_build(rng, struct)
                ks = root_kinds(b)
                ops = all_ops(ks, [len(ks) - 1])
                rng.shuffle(ops)
                yield {"tag": f"sweep_{struct}", "kind": "history", "build": b, "history": owned(ops)}
            m, _ = _mask_for_dataset(rng)
            b = dataset_build(rng, m)
            ks = root_kinds(b)
            ops = all_ops(ks, [8, 9, 11])
            rng.shuffle(ops)
            yield {"tag": "sweep_dataset", "kind": "history", "build": b, "history": owned(ops)}
            for wt in (False, True):
                for nm in (1, 2):
                    m, _ = _mask_for_dataset(rng)
                    b = dataset_build(rng, m, inversion=True)
                    while len(b["mappers"]) != nm:
                        b = dataset_build(rng, m, inversion=True)
                    b["w_tilde"] = wt
                    if wt and b["psf_shape"][0] != b["psf_shape"][1]:
                        k = max(b["psf_shape"])
                        b["psf_shape"] = [k, k]
                        b["psf"] = [q(_pos(rng, 0, 4) + Fraction(1, 4)) for _ in range(k * k)]
                    ks = root_kinds(b)
                    idxs = [i for i, k in enumerate(ks) if k in ("Inversion", "Mapper", "FitInversion", "Mesh",
                                                                 "OverSampler", "Grid2DIrregular")
                            or k.startswith("MapperValued")] + [9]
                    ops = all_ops(ks, idxs)
                    rng.shuffle(ops)
                    yield {"tag": f"sweep_inversion_{'wt' if wt else 'map'}_{nm}", "kind": "history", "build": b,
                           "history": owned(ops) if rep_i % 2 == 0 else ops + ops}

    def _rng_case(self, rng, maxsteps):
        # >= 6 pixels and >= 300 expected counts per unit flux: two different seeds giving the same Poisson
        # image by chance (which would falsify the model's equality pattern, not the property) is < 1e-7
        h, w = rng.choice([(2, 3), (3, 2), (3, 3), (2, 4), (4, 2), (3, 4), (4, 3), (1, 6), (6, 1)])
        use_psf = rng.random() < 0.5
        b = {"graph": "rng", "shape": [h, w], "scales": _scales(rng),
             "image": [q(_pos(rng, 1, 8)) for _ in range(h * w)],
             "exposure_time": q(rng.choice([300, 1000, 3000])),
             "background_sky_level": q(rng.choice([0, 1, Fraction(1, 2)])),
             "normalize_psf": rng.random() < 0.5,
             "add_noise": rng.random() < 0.85, "noise_in_map": rng.random() < 0.85}
        if use_psf:
            b["psf_shape"] = [3, 3]
            b["psf"] = [q(_pos(rng, 0, 4) + Fraction(1, 4)) for _ in range(9)]
        b["func"] = rng.choice(["simulator"] * 4 + list(self.SEEDED_FUNCS))
        if b["func"] != "simulator":
            b.pop("psf", None)
            b.pop("psf_shape", None)
            b["add_noise"] = b["noise_in_map"] = True
        # the seeds of every case include the boundary values of the "fixed seed" domain (0 is the smallest fixed
        # seed, -1 the sentinel next to it; 2**32 - 1 is the largest numpy accepts)
        seeds = [0, 1, 2 ** 31 - 1, 2 ** 32 - 1, rng.randint(2, 50), rng.randint(51, 10 ** 6)]

        def perturb():
            r = rng.random()
            if r < 0.5:
                return {"op": "reseed", "j": rng.randint(0, 1000)}
            return {"op": "draw", "n": rng.randint(1, 5)}

        hist = [{"op": "reseed", "j": rng.randint(0, 1000)}]
        # every boundary seed (and one more) is used twice with a different global state in between
        for sd in rng.sample(seeds[:4], 4 if maxsteps > 12 else 2) + [rng.choice(seeds[4:])]:
            hist.append({"op": "simulate", "seed": sd})
            hist.append(perturb())
            if rng.random() < 0.3:
                hist.append({"op": "simulate", "seed": rng.choice(seeds + [-1])})
                hist.append(perturb())
            hist.append({"op": "simulate", "seed": sd})
        if 0 not in [st.get("seed") for st in hist]:
            hist += [{"op": "simulate", "seed": 0}, perturb(), {"op": "simulate", "seed": 0}]
        for _ in range(rng.randint(0, max(0, maxsteps - len(hist)))):
            r = rng.random()
            if r < 0.2:
                hist.append({"op": "reseed", "j": rng.choice([hist[0]["j"], rng.randint(0, 1000)])})
            elif r < 0.45:
                hist.append({"op": "draw", "n": rng.randint(0, 5)})
            elif r < 0.55:
                hist.append({"op": "simulate", "seed": -1})
            else:
                hist.append({"op": "simulate", "seed": rng.choice(seeds)})
        return {"tag": "rng" if b["func"] == "simulator" else "rng_preprocess", "kind": "rng", "build": b,
                "history": hist}

    SEEDED_FUNCS = ("poisson_noise_via_data_eps_from", "data_eps_with_poisson_noise_added",
                    "gaussian_noise_via_shape_and_sigma_from", "data_with_gaussian_noise_added",
                    "data_with_complex_gaussian_noise_added")

    # ------------------------------------------------------------------ implementation
    def run_impl(self, case):
        if case["kind"] == "rng":
            return run_rng(case)
        return run_history(case)

    # ------------------------------------------------------------------ model
    def _table_for(self, kinds_used):
        """the effects table in the driver's format (keys are `Kind.key`)."""
        t = effects()
        keys, derivs, ctors = {}, {}, {}
        # the caller rewriting its own buffer: an edit of that buffer's contents, nothing else depends on it
        keys["Buffer.__caller_write__"] = {"cached": False, "cwrites": [[0, "caller_write"]]}
        # the user assigning into a structure through its public __setitem__: an edit of that object's contents
        # (the user also invalidates the documented cached properties of the object: `drops`)
        for kind in t["kinds"]:
            keys[f"{kind}.__setitem__"] = {"cached": False, "cwrites": [[0, "user_setitem"]],
                                           "drops": sorted(f"{kind}.{n}" for n in _table_cached_names(kind))}
        for kind, spec in t["kinds"].items():
            for k, e in list(spec.get("reads", {}).items()) + list(spec.get("queries", {}).items()):
                ent = {"cached": bool(e.get("cached", False))}
                for f in ("deps", "drops", "cwrites", "vwrites"):
                    if e.get(f):
                        ent[f] = e[f]
                if ent != {"cached": False}:
                    keys[f"{kind}.{k}"] = ent
            for how, e in spec.get("derive", {}).items():
                derivs[f"{kind}.{how}"] = {"keeps": e.get("keeps", [])}
            if spec.get("ctor_writes"):
                ctors[kind] = {"writes": spec["ctor_writes"]}
        return {"keys": keys, "derivs": derivs, "ctors": ctors}

    def model_requests(self, case, impl_obs):
        if case["kind"] == "rng":
            b = case["build"]
            npix = b["shape"][0] * b["shape"][1]
            hist = []
            for st in case["history"]:
                if st["op"] == "simulate":
                    hist.append({"op": "simulate", "seed": st["seed"], "npix": npix})
                else:
                    hist.append(st)
            return [{"op": "c11.rng_machine", "history": hist,
                     "noise_visible": bool(b.get("add_noise", True) or b.get("noise_in_map", True))}]
        meta = impl_obs.get("_meta") if isinstance(impl_obs, dict) else None
        if not meta:
            raise Skip("implementation did not build the graph")
        prefix = []
        stage_at = []
        for i, (k, ps) in enumerate(zip(meta["kinds"], meta["parents"])):
            if k == "MapperValuedMaskedRec" or (k == "MapperValued" and len(ps) == 2 and meta["kinds"][ps[1]] == "Inversion"):
                # the builder hands the valued mapper `inversion.reconstruction`: a read, which caches it
                prefix.append({"op": "read", "obj": ps[1], "key": "Inversion.reconstruction"})
            stage_at.append(len(prefix))
            prefix.append({"op": "construct", "kind": k, "root": i, "parents": ps})
        n_prefix = len(prefix)
        impl_steps = impl_obs.get("steps", [])
        # (R5-B) a `renew` step drops the world and builds it again from fresh equal inputs: one machine run per
        # round, each starting from the constructions; `config` steps are invisible to the machine
        rounds, cur = [], []
        for i_st, st in enumerate(case["history"]):
            if st["op"] == "renew":
                rounds.append(cur)
                cur = []
            elif st["op"] != "config":
                cur.append((i_st, st))
        rounds.append(cur)
        table = None
        reqs = []
        for r_i, steps in enumerate(rounds):
            hist = list(prefix)
            kinds = list(meta["kinds"])
            step_at = {}
            for i_st, st in steps:
                o = st["obj"]
                kind = kinds[o] if o < len(kinds) else "?"
                step_at[str(i_st)] = len(hist)
                if st["op"] == "poke":
                    hist.append({"op": "read", "obj": o, "key": "Buffer.__caller_write__"})
                elif st["op"] == "setitem":
                    applied = i_st < len(impl_steps) and impl_steps[i_st].get("applied")
                    hist.append({"op": "read", "obj": o, "key": f"{kind}.__setitem__" if applied else f"{kind}.__noop__"})
                    for j in (impl_steps[i_st].get("aliased", []) if applied else []):
                        # numpy aliasing (views, by-reference constructors): the same user write, seen through object j
                        kj = kinds[j] if j < len(kinds) else "?"
                        hist.append({"op": "read", "obj": j, "key": "Buffer.__caller_write__" if kj == "Buffer"
                                     else f"{kj}.__setitem__"})
                elif st["op"] == "fault":
                    # an interrupted read / query: reports nothing, must change nothing
                    hist.append({"op": "read", "obj": o, "key": f"{kind}.__interrupted__"})
                elif st["op"] == "read":
                    hist.append({"op": "read", "obj": o, "key": f"{kind}.{st['key']}"})
                elif st["op"] == "query":
                    hist.append({"op": "read", "obj": o, "key": f"{kind}.{st['name']}"})
                else:
                    hist.append({"op": "derive", "obj": o, "cls": deriv_class(kind, st["g"]), "g": st["g"]})
                    kinds.append(result_kind(kind, st["g"]) if kind in effects()["kinds"] else "?")
            if table is None:
                table = self._table_for(kinds)
            reqs.append({"op": "c11.cache_machine", "effects": table, "history": hist,
                         "tag": {"n_prefix": n_prefix, "stage_at": stage_at, "step_at": step_at, "round": r_i}})
        return reqs

    def model_obs(self, case, responses):
        for r in responses:
            if "err" in r:
                return {"err": r["err"]}
        if case["kind"] == "rng":
            return {"labels": _labels(responses[0]["ok"]["outputs"]), "changed": []}
        fresh = FreshEval(case["build"])
        cfgs = cfg_timeline(case["history"])
        out = [{"may_change": [], "value": None} for _ in case["history"]]
        ctor = []
        for r in responses:
            steps = r["ok"]["steps"]
            tag = r["ok"]["tag"]
            ctor += [{"stage": i, "changed": steps[j]["changed"], "vchanged": steps[j]["vchanged"]}
                     for i, j in enumerate(tag["stage_at"]) if steps[j]["changed"] or steps[j]["vchanged"]]
            for i_s, j in tag["step_at"].items():
                i_st = int(i_s)
                st = case["history"][i_st]
                s = steps[j]
                o = {"may_change": sorted({f"obj{i}" for i in s["changed"]} | {f"obj{i}" for i, k in s["vchanged"]})}
                v = s["value"]
                if st["op"] in ("derive", "poke", "setitem", "fault"):
                    o["value"] = None
                elif v is None:
                    o["value"] = "err:no-object"
                else:
                    o["value"] = self._interpret(fresh, v, st, cfgs[i_st])
                out[i_st] = o
        return {"ctor": ctor, "steps": out}

    def _interpret(self, fresh, v, st, cfg=None):
        """symbolic value -> fingerprint of the same quantity read once on a freshly built equal object."""
        if v["dirty"]:
            # computed from something an earlier operation edited in place: not a fresh-object value
            return {"edited": True}
        return fresh.value(v["at"]["root"], v["at"]["path"], st, cfg)

    def compare(self, case, impl_obs, model_obs, cmp):
        if "err" in model_obs:
            return f"model error {model_obs['err']}"
        if case["kind"] == "rng":
            return cmp.diff({"labels": impl_obs["labels"], "changed": impl_obs["changed"]}, model_obs)
        d = cmp.diff([c["stage"] for c in impl_obs["ctor"]], [c["stage"] for c in model_obs["ctor"]], "$.ctor")
        if d:
            return d
        for i, (si, sm) in enumerate(zip(impl_obs["steps"], model_obs["steps"])):
            # the table's writes are may-writes (zeroing entries that are already zero changes no byte):
            # every buffer the implementation changed must belong to an object the model says may change
            extra = [t for t in si["owners"] if t not in sm["may_change"]]
            if extra:
                return f"$.steps[{i}].changed: impl changed {si['changed'][:4]} (owners {extra}); model allows {sm['may_change']}"
            if isinstance(sm["value"], dict) and sm["value"].get("edited"):
                continue  # downstream of an in-place edit: no fresh-object prediction to compare with
            d = cmp.diff(si.get("value"), sm["value"], f"$.steps[{i}].value")
            if d:
                return d
        return None

    # ------------------------------------------------------------------ oracle
    def oracle(self, case, obs):
        if isinstance(obs, dict) and "err" in obs and "steps" not in obs and "labels" not in obs:
            return False, f"implementation raised {obs}"
        if case["kind"] == "rng":
            if obs["changed"]:
                return False, f"simulation modified its inputs: {obs['changed']}"
            by_seed = {}
            for st, f in zip(case["history"], obs["fps"]):
                if st["op"] == "simulate" and st["seed"] >= 0:
                    if st["seed"] in by_seed and by_seed[st["seed"]] != f:
                        return False, f"noise_seed={st['seed']} gave two different simulated datasets"
                    by_seed[st["seed"]] = f
            return True, ""
        if obs["ctor"]:
            c = obs["ctor"][0]
            return False, f"constructing {c['kind']} (stage {c['stage']}) modified {c['changed']}"
        for i, (st, s) in enumerate(zip(case["history"], obs["steps"])):
            what = st.get("key") or st.get("name") or st.get("g")
            if st["op"] == "fault":
                what = f"interrupted at internal call {st['k']} (last: {s.get('fired')}): " \
                       f"{st['inner'].get('key') or st['inner'].get('name')}"
            if s["changed"]:
                return False, f"step {i} ({st['op']} {what} on obj {st['obj']}) modified {s['changed'][:4]}"
            if st["op"] in ("read", "query"):
                if s["value"] != s.get("fresh"):
                    return False, (f"step {i}: {st['op']} {what} on obj {st['obj']} reports {s['value']} but a freshly "
                                   f"built equal object reports {s['fresh']}")
                if s.get("direct") is False:
                    return False, f"step {i}: {what} on derived obj {st['obj']} differs from its numpy definition"
                if "rebuilt" in s and s["rebuilt"] != s["value"]:
                    return False, (f"step {i}: {what} on derived obj {st['obj']} = {s['value']} but a new object "
                                   f"constructed from its own contents reports {s['rebuilt']}")
                if "first" in s and s["first"] != s["value"]:
                    return False, (f"step {i}: {st['op']} {what} on obj {st['obj']} reports {s['value']} but the same "
                                   f"quantity of an equal object under the same configuration reported {s['first']} "
                                   f"earlier in this process")
                if "twin" in s and s["twin"] != s["value"]:
                    return False, (f"step {i}: {what} on obj {st['obj']} (a structure built from a structure) = "
                                   f"{s['value']} but the same constructor call on the plain ndarray gives {s['twin']}")
                if "control" in s and s["control"] != s["value"]:
                    return False, (f"step {i}: {st['op']} {what} on obj {st['obj']} reports {s['value']} with the value "
                                   f"left to the configuration, but {s['control']} with the value in force passed as "
                                   f"an explicit argument")
        return True, ""

    # ------------------------------------------------------------------ known findings
    D9B_OPS = ("values_masked", "max_pixel_centre", "max_pixel_list_from", "interpolated_array_from",
               "mapped_reconstructed_image_from", "magnification_via_interpolation_from",
               "magnification_via_mesh_from")

    def known_finding(self, case, obs):
        """D9b: a MapperValued with a mesh_pixel_mask on which `values_masked` (or a quantity built on it) is
        read.  Narrowing: the case must stop failing when exactly that defect is neutralised (the property
        `values_masked` masking a copy), so any other violation in the same history is still reported."""
        if case.get("kind") != "history":
            return None
        mv = case["build"].get("valued")
        if not mv or not mv.get("pixel_mask"):
            return None
        if "mv_values" in case["build"].get("readonly", ()) or mv.get("len_delta"):
            # the write of D9b cannot happen (read-only values raise, a wrong-length mask index raises)
            return None
        ks = root_kinds(case["build"])
        mvi = len(ks) - 1
        if not any(st["obj"] == mvi and (st.get("key") or st.get("name") or st.get("inner", {}).get("key")
                                         or st.get("inner", {}).get("name")) in self.D9B_OPS
                   for st in case["history"]):
            return None
        # the symptoms must be those of this defect: nothing wrong at construction, and the only buffers that
        # change belong to the holder of the values (the caller's buffer / the inversion caching the reconstruction)
        if not isinstance(obs, dict) or obs.get("ctor"):
            return None
        holder = f"obj{mvi - 1}" if not mv_from_rec(mv) else f"obj{ks.index('Inversion')}"
        for st_obs in obs.get("steps", []):
            # (the valued mapper itself when its `values` is a view of the holder's array: two mappers)
            if any(t not in (holder, f"obj{mvi}") for t in st_obs.get("owners", [])):
                return None
        aa = load_autoarray()
        orig = aa.MapperValued.__dict__["values_masked"]

        def values_masked_copy(mv_self):
            values = mv_self.values
            if mv_self.mesh_pixel_mask is not None:
                values = np.array(values)
                values[mv_self.mesh_pixel_mask] = 0.0
            return values

        try:
            aa.MapperValued.values_masked = property(values_masked_copy)
            holds, _ = self.oracle(case, run_history(case))
        except Exception:
            holds = False
        finally:
            aa.MapperValued.values_masked = orig
        return "D9b" if holds else None

    def nontrivial(self, case, obs):
        if case["history"]:
            return True
        bits = case["build"].get("mask", {}).get("bits", "")
        return "0" in bits and "1" in bits

    def shrink(self, case):
        hist = case["history"]
        if '"proc"' in json.dumps(case["build"]):
            # procedurally generated (large) build: every candidate costs seconds — prefixes on a geometric ladder,
            # then the last step behind each shorter prefix
            n, seen = 1, set()
            while n < len(hist):
                seen.add(n)
                yield {**case, "history": hist[:n]}
                n = n + 1 if n < 4 else int(n * 1.5)
            for n in sorted(seen):
                if n + 1 < len(hist):
                    yield {**case, "history": hist[:n] + [hist[-1]]}
            return
        # shortest failing prefix first, then single non-derive steps (derive steps define later indexes)
        for n in range(1, len(hist)):
            yield {**case, "history": hist[:n]}
        # remove blocks of non-derive steps (halves, quarters, ...), keeping the last step, then single steps
        idx = [i for i, st in enumerate(hist[:-1]) if st["op"] != "derive"]
        size = len(idx) // 2
        while size >= 2:
            for a in range(0, len(idx), size):
                drop = set(idx[a:a + size])
                yield {**case, "history": [st for i, st in enumerate(hist) if i not in drop]}
            size //= 2
        for i in idx:
            yield {**case, "history": hist[:i] + hist[i + 1:]}

    def sample_view(self, case):
        return {k: v for k, v in case.items() if not k.startswith("_")}

    def theorems_for(self, case):
        if case["kind"] == "rng":
            return ["C11.seeded_simulation_independent_of_prior_state", "C11.seeded_history_outputs_agree"]
        return ["C11.reported_value_is_fresh_value", "C11.order_and_number_of_reads_irrelevant",
                "C11.pure_history_preserves_contents"]


CHECK = C11()


# ==================================================================================================
# dev tool: regenerate c11_effects.json (introspection of the public properties + the hand-written parts)
#   PYTHONPATH=/repo:/verif/harness /venv/bin/python -m props.c11 --regen-effects
# ==================================================================================================
def regen_effects():
    import random
    from autoconf.tools.decorators import CachedProperty
    import props.c11 as c11
    aa = load_autoarray()
    BLACK = {"hdu_for_output", "dtype", "in_counts", "in_counts_per_second", "original_orientation", "T",
             "header", "preloads", "run_time_dict", "settings", "profiling_dict", "dataset", "linear_obj_list",
             "mapper_grids", "border_relocator", "regularization", "mapper", "dataset_model",
             "inversion", "over_sampling", "unmasked"}
    SUB = {  # helper objects expanded into dotted keys
        "derive_mask": None, "derive_indexes": None, "derive_grid": None, "geometry": None, "grids": None,
    }

    def props_of(obj):
        out = {}
        for cls in type(obj).__mro__:
            for k, v in vars(cls).items():
                if k.startswith('_') or k in out: continue
                if isinstance(v, property): out[k] = False
                elif isinstance(v, CachedProperty): out[k] = True
        return out

    def readable(obj, prefix="", depth=0):
        res = {}
        for k, cached in sorted(props_of(obj).items()):
            if k in BLACK: continue
            try:
                v = getattr(obj, k)
            except Exception as e:
                # keep keys that raise library exceptions consistently (e.g. circular_radius on non-circular masks)
                if type(e).__name__ in ("MaskException",):
                    res[prefix + k] = {"cached": cached}
                continue
            if k in SUB and depth == 0:
                # the helper object itself is not fingerprinted; its properties are
                sub = readable(v, prefix + k + ".", depth + 1)
                res.update(sub)
                if cached:
                    res[prefix + k] = {"cached": True}
                continue
            try:
                c11.fp_value(v)
            except Exception as e:
                continue
            res[prefix + k] = {"cached": cached}
        return res

    rng = random.Random(1)
    kinds = {}
    def merge(kind, obj):
        r = readable(obj)
        kinds.setdefault(kind, {"reads": {}})
        for k, e in r.items():
            kinds[kind]["reads"].setdefault(k, e)

    # sample graphs
    for struct in ("Array2D", "Grid2D", "VectorYX2D", "Kernel2D", "Mask2D"):
        for t in range(3):
            while True:
                b = c11.CHECK._struct_case_build(rng, struct)
                if struct == "Grid2D": b["sub"] = 2
                if "0" not in b["mask"]["bits"] or b["mask"]["h"] * b["mask"]["w"] < 4:
                    continue  # sample objects: non-degenerate
                try:
                    g = c11.build_graph(b)
                    break
                except Exception:
                    continue
            merge(struct, g.pool[-1])
    b = c11.CHECK._struct_case_build(rng, "Visibilities")
    merge("Visibilities", c11.build_graph(b).pool[-1])
    for t in range(6):
        m, _ = c11._mask_for_dataset(rng)
        b = c11.dataset_build(rng, m, inversion=True)
        b["valued"] = {"values": "reconstruction", "pixel_mask": None}
        g = c11.build_graph(b)
        for o, k in zip(g.pool, g.kinds):
            if k in ("Buffer",): continue
            merge("FitImaging" if k == "FitInversion" else k, o)
    kinds["Buffer"] = {"reads": {"bytes": {"cached": False}}}
    kinds["MapperValued"]["reads"].update({"values": {"cached": False}, "mesh_pixel_mask": {"cached": False}})
    kinds["Imaging"]["reads"].update({"data": {"cached": False}, "noise_map": {"cached": False}, "psf": {"cached": False}})

    # ---- hand-written parts --------------------------------------------------------------------------
    SC = ["2", "-1/2", "0", "3/4"]
    arith = {"mul": {"args": SC}, "rmul": {"args": SC}, "add": {"args": ["1", "-3/2"]}, "sub": {"args": ["1"]},
             "rsub": {"args": ["2"]}, "div": {"args": ["2", "-4"]}, "neg": {}, "abs": {}, "pow": {"args": ["2"]},
             "add_self": {}, "mul_array": {"args": ["3", "1/2"]}, "slice": {"args": ["0,2", "1,3", "0,1"]},
             "copy": {}, "copy_copy": {}, "deepcopy": {}}
    def D(extra, base=arith, drop=()):
        d = {k: dict(v) for k, v in base.items() if k not in drop}
        d.update(extra)
        return d
    kinds["Array2D"]["derive"] = D({"native": {}, "slim": {}, "rewrap": {}, "apply_mask": {"args": ["0", "1"]},
        "trimmed": {"args": ["3x3", "1x3", "3x1"]}, "padded": {"args": ["3x3", "1x3"]},
        "resized": {"args": ["3x3", "4x6", "7x5", "2x2"]}, "zoomed": {"args": ["0", "1"]}})
    kinds["Kernel2D"]["derive"] = D({"normalized": {}, "rewrap": {}, "native": {"result": "Array2D"}, "slim": {"result": "Array2D"}},
                                     drop=("slice", "mul_array"))
    kinds["Grid2D"]["derive"] = D({"native": {}, "slim": {}, "rewrap": {}, "flipped": {}, "in_radians": {},
        "subtracted_from": {"args": ["1/2,-1", "0,0"]}, "deflected": {"args": ["1/4", "-1"]},
        "padded_grid_from": {"args": ["3x3", "1x3"]}}, drop=("pow", "abs", "rsub", "mul_array"))
    kinds["VectorYX2D"]["derive"] = D({}, drop=("pow", "abs", "rsub", "mul_array", "add_self"))
    kinds["Mask2D"]["derive"] = {"copy": {}, "copy_copy": {}, "deepcopy": {}, "slice": {"args": ["0,2", "1,3"]},
        "rescaled": {"args": ["2", "1/2"]}, "mask_resized": {"args": ["7x7", "3x5", "2x2"]},
        "derive_mask": {"args": ["edge", "border", "all_false", "edge_buffed"]}}
    kinds["Visibilities"]["derive"] = D({"real": {}}, drop=("abs", "pow", "mul_array"))
    kinds["Imaging"]["derive"] = {"apply_mask": {"args": ["0", "1"]}, "trimmed": {"args": ["3x3", "1x3"]},
        "apply_over_sampling": {"args": ["2,1", "1,2", "2,2"]}, "apply_noise_scaling": {"args": ["0", "1"]}}
    kinds["Mesh"]["derive"] = {"mul": {"args": ["2", "3/4"]}, "add": {"args": ["1"]}, "copy": {}, "deepcopy": {}, "neg": {}}
    for k in kinds.values():
        for how, e in k.get("derive", {}).items():
            e["keeps"] = []
    kinds["Mask2D"]["queries"] = {"blurring_from": {"args": ["3x3", "1x3", "3x1"]}}
    kinds["Grid2D"]["queries"] = {"distances_to_coordinate_from": {"args": ["0,0", "1/2,-1"]},
        "squared_distances_to_coordinate_from": {"args": ["0,0", "-3/4,2"]}, "extent_with_buffer_from": {"args": ["1/2", "0"]}}
    kinds["Kernel2D"]["queries"] = {"convolved_array_from": {}}
    kinds["Mapper"]["queries"] = {"pixel_signals_from": {"args": ["1", "1/2"]}, "mapped_to_source_from": {},
        "mapper_interpolated_array_from": {"args": ["3x3", "2x4"]}}
    kinds["Inversion"]["queries"] = {"regularization_weights_from": {"args": ["0"]}, "source_quantity_dict_from": {}}
    kinds["MapperValued"]["queries"] = {"max_pixel_list_from": {"args": ["1,0", "2,1", "3,0"]},
        "interpolated_array_from": {"args": ["3x3", "2x4"]}, "mapped_reconstructed_image_from": {},
        "magnification_via_interpolation_from": {"args": ["3x3"]}}
    kinds["OverSampler"]["queries"] = {"binned_array_2d_from": {}}
    # ---- known finding D9b: MapperValued.values_masked writes into the values it was given --------------------
    import copy as _copy
    D9B_READS = ["values_masked", "max_pixel_centre"]
    D9B_QUERIES = ["max_pixel_list_from", "interpolated_array_from", "mapped_reconstructed_image_from",
                   "magnification_via_interpolation_from"]
    for variant, dep, write in (
            ("MapperValuedMaskedBuf", [[2, "Buffer.bytes"]], {"cwrites": [[2, "zero_under_mesh_pixel_mask"]]}),
            ("MapperValuedMaskedRec", [[2, "Inversion.reconstruction"]],
             {"vwrites": [[2, "Inversion.reconstruction", "zero_under_mesh_pixel_mask"],
                          [2, "Inversion.reconstruction_reduced", "zero_under_mesh_pixel_mask"]]})):
        kv = _copy.deepcopy(kinds["MapperValued"])
        kv["reads"]["values"]["deps"] = dep
        for k in D9B_READS:
            kv["reads"][k].update({"deps": dep, **write})
        for k in D9B_QUERIES:
            kv["queries"][k].update({"deps": dep, **write})
        kv["note"] = "known finding D9b: may-writes of values_masked and everything built on it"
        kinds[variant] = kv
    # quantities of the inversion computed from its (cached) reconstruction, so that an in-place edit of the
    # reconstruction is seen to propagate
    R = [[0, "Inversion.reconstruction"]]
    for k in ("reconstruction_reduced", "reconstruction_dict", "mapped_reconstructed_data_dict",
              "mapped_reconstructed_image_dict", "mapped_reconstructed_data", "mapped_reconstructed_image",
              "data_subtracted_dict"):
        kinds["Inversion"]["reads"][k]["deps"] = R
    kinds["Inversion"]["reads"]["regularization_term"]["deps"] = [[0, "Inversion.reconstruction_reduced"]]
    kinds["Inversion"]["queries"]["source_quantity_dict_from"]["deps"] = R
    kinds["FitInversion"] = _copy.deepcopy(kinds["FitImaging"])
    for k in ("model_data", "residual_map", "normalized_residual_map", "chi_squared_map", "chi_squared",
              "reduced_chi_squared", "log_likelihood", "figure_of_merit", "log_evidence",
              "log_likelihood_with_regularization", "residual_flux_fraction_map"):
        kinds["FitInversion"]["reads"][k]["deps"] = [[2, "Inversion.mapped_reconstructed_data"]]
    for k in ("figure_of_merit", "log_evidence", "log_likelihood_with_regularization"):
        kinds["FitInversion"]["reads"][k]["deps"] = [[2, "Inversion.mapped_reconstructed_data"],
                                                       [2, "Inversion.regularization_term"]]
    # cache deletions performed by a property body (autoarray/inversion/inversion/abstract.py curvature_reg_matrix)
    kinds["Inversion"]["reads"]["curvature_reg_matrix"]["drops"] = ["curvature_matrix"]
    kinds["Inversion"]["reads"]["curvature_reg_matrix"]["deps"] = [[0, "Inversion.curvature_matrix"], [0, "Inversion.regularization_matrix"]]
    kinds["Imaging"]["reads"]["grid"]["deps"] = [[0, "Imaging.grids"]]

    table = {"version": 1,
     "about": "C11 effects table: per object kind the public quantities that can be read (cached = autoconf cached_property), "
              "the query methods, and the derivations with the cache keys the derived object keeps (keeps) - all empty after "
              "the D8 repair. No entry has cwrites / vwrites / ctor_writes: every operation is pure (after D7, D9). "
              "deps / drops are listed only where a property body deletes or forwards cache entries. Validated by the "
              "correspondence run on every ./check C11.",
     "kinds": {k: kinds[k] for k in sorted(kinds)}}
    json.dump(table, open(EFFECTS_PATH, 'w'), indent=1, sort_keys=True)
    for k, v in table["kinds"].items():
        print(k, len(v.get("reads", {})), "reads;", sum(1 for e in v.get("reads", {}).values() if e.get("cached")), "cached;",
              len(v.get("queries", {})), "queries;", len(v.get("derive", {})), "derivs")


if __name__ == "__main__" and "--regen-effects" in sys.argv:
    regen_effects()
