"""C12 — all geometry is covariant under translation of the coordinate origin."""
from __future__ import annotations

from fractions import Fraction

import numpy as np

import gen
from common import PropertyCheck, Skip, load_autoarray, mask_json, mask_from_json, q

# entry points: name -> kind ("coord": result + d expected; "extent": (x0,x1,y0,y1) shifts;
# "inv": unchanged).  Every value is a (nested) list of floats.
TOL = 1e-9


def F(x):
    return float(Fraction(x))


class C12(PropertyCheck):
    pid = "C12"
    title = "translation covariance"
    generated_modules = ["Geometry"]  # second tie: Python -> Lean translation + `rfl` against Model.Geometry
    rtol = Fraction(1, 10**9)
    atol = Fraction(1, 10**9)
    nontrivial_rule = (
        "a case = (mask, anisotropic scales, origin o, shift d != 0, sub size, kernel); every public "
        "entry point of the property's observe_at list is evaluated at o and at o+d; distinct = distinct "
        "case inputs; non-trivial = d has a non-zero component and the mask has masked and unmasked pixels"
    )
    modelled_functions = [
        "autoarray/geometry/geometry_util.py:central_pixel_coordinates_2d_from",
        "autoarray/geometry/geometry_util.py:central_scaled_coordinate_2d_from",
        "autoarray/geometry/geometry_util.py:pixel_coordinates_2d_from",
        "autoarray/geometry/geometry_util.py:grid_pixels_2d_slim_from",
        "autoarray/geometry/geometry_util.py:grid_pixel_centres_2d_slim_from",
        "autoarray/geometry/geometry_util.py:grid_pixel_indexes_2d_slim_from",
        "autoarray/structures/grids/grid_2d_util.py:grid_2d_slim_via_mask_from",
        "autoarray/structures/grids/grid_2d_util.py:grid_2d_centre_from",
        "autoarray/structures/grids/uniform_2d.py:Grid2D.padded_grid_from",
        "autoarray/structures/grids/uniform_2d.py:Grid2D.from_mask",
        "autoarray/mask/mask_2d.py:Mask2D.mask_centre",
        "autoarray/mask/mask_2d.py:Mask2D.zoom_centre",
        "autoarray/mask/mask_2d.py:Mask2D.zoom_offset_pixels",
        "autoarray/mask/mask_2d.py:Mask2D.zoom_offset_scaled",
        "autoarray/mask/mask_2d.py:Mask2D.zoom_mask_unmasked",
        "autoarray/mask/mask_2d.py:Mask2D.resized_from",
        "autoarray/structures/arrays/uniform_2d.py:AbstractArray2D.zoomed_around_mask",
        "autoarray/operators/over_sampling/over_sample_util.py:grid_2d_slim_over_sampled_via_mask_from",
        "autoarray/structures/mesh/rectangular_2d.py:Mesh2DRectangular.overlay_grid",
        "autoarray/dataset/imaging/dataset.py:Imaging.apply_noise_scaling",
        "autoarray/dataset/imaging/simulator.py:SimulatorImaging.via_image_from",
        "autoarray/dataset/preprocess.py:noise_map_with_signal_to_noise_limit_from",
        "autoarray/inversion/pixelization/image_mesh/overlay.py:Overlay.image_plane_mesh_grid_from",
        "autoarray/inversion/pixelization/image_mesh/hilbert.py:image_and_grid_from",
        "autoarray/structures/grids/uniform_2d.py:Grid2D.grid_2d_radial_projected_from",
        "autoarray/structures/grids/grid_2d_util.py:grid_scaled_2d_slim_radial_projected_from",
        "autoarray/geometry/geometry_util.py:transform_grid_2d_to_reference_frame",
        "autoarray/geometry/geometry_util.py:transform_grid_2d_from_reference_frame",
        "autoarray/inversion/pixelization/mappers/mapper_util.py:pixel_weights_delaunay_from",
        "autoarray/inversion/pixelization/mappers/mapper_util.py:pix_indexes_for_sub_slim_index_delaunay_from",
        "autoarray/structures/mesh/triangulation_2d.py:Abstract2DMeshTriangulation.delaunay",
    ]
    trusted_extra = [
        "scipy.interpolate.griddata / Qhull inside image_mesh.Hilbert is not modelled (only the placement of its grids)",
        "float rounding of translated coordinates (inputs are dyadic so translations are exact; tolerance 1e-9)",
    ]

    # ------------------------------------------------------------------ generation
    def generate(self, tier, rng):
        n = 120 if tier == "quick" else 800
        for i in range(n):
            h, w = rng.randint(5, 9), rng.randint(5, 9)
            kh, kw = rng.choice([1, 3]), rng.choice([1, 3])
            m, kind = gen.random_mask(rng, h, w, margin=max(kh, kw) // 2 + 0)
            sy, sx = gen.scales_pair(rng)
            if rng.random() < 0.2:
                sx = sy
            oy, ox = gen.origin_pair(rng) if rng.random() < 0.7 else (Fraction(0), Fraction(0))
            dy, dx = gen.dyadic(rng, -3, 3, 2), gen.dyadic(rng, -3, 3, 2)
            if dy == 0 and dx == 0:
                dx = Fraction(5, 4)
            pts = []
            while len(pts) < 4:
                # query points relative to the origin, kept outside the 1e-9 tie band around pixel
                # boundaries (exact rational test), where float rounding may pick either pixel
                py, px = gen.dyadic(rng, -2, 2, 4) + oy, gen.dyadic(rng, -2, 2, 4) + ox
                fy = (-(py - oy)) / sy + Fraction(h, 2)
                fx = (px - ox) / sx + Fraction(w, 2)
                if fy.denominator == 1 or fx.denominator == 1:
                    continue
                pts.append([q(py), q(px)])
            ov = self._overlay_shape_without_ties(rng, m)
            # mesh points strictly inside the frame and off every pixel boundary (count-valued entries)
            mesh_pts = []
            for _ in range(6):
                i, j = rng.randrange(h), rng.randrange(w)
                fi, fj = rng.choice([Fraction(1, 4), Fraction(1, 2), Fraction(3, 4)]), rng.choice(
                    [Fraction(1, 4), Fraction(1, 2), Fraction(3, 4)])
                mesh_pts.append([q(oy + (Fraction(h, 2) - (i + fi)) * sy), q(ox + ((j + fj) - Fraction(w, 2)) * sx)])
            yield {"tag": f"geom_{kind}", "group": "geometry", "mask": mask_json(m),
                   "scales": [q(sy), q(sx)], "origin": [q(oy), q(ox)], "shift": [q(dy), q(dx)],
                   "sub": rng.randint(1, 3), "kernel": [kh, kw], "points": pts, "mesh_points": mesh_pts,
                   "resize_to": [h + rng.choice([-2, 0, 2, 3]), w + rng.choice([-2, 0, 2, 1])],
                   "overlay": ov,
                   "angle": rng.choice([0, 30, 45, 90, 120])}
        nd = 30 if tier == "quick" else 200
        for i in range(nd):
            h, w = rng.randint(7, 9), rng.randint(7, 9)
            m, kind = gen.random_mask(rng, h, w, margin=rng.choice([0, 1, 2]))
            sy, sx = gen.scales_pair(rng)
            oy, ox = gen.origin_pair(rng)
            dy, dx = gen.dyadic(rng, -3, 3, 2), gen.dyadic(rng, -3, 3, 2)
            if dy == 0 and dx == 0:
                dy = Fraction(-3, 4)
            yield {"tag": f"dataset_{kind}", "group": "dataset", "mask": mask_json(m),
                   "scales": [q(sy), q(sx)], "origin": [q(oy), q(ox)], "shift": [q(dy), q(dx)],
                   "seed": rng.randint(0, 10**6)}
        nm = 24 if tier == "quick" else 160
        for i in range(nm):
            h, w = rng.randint(6, 8), rng.randint(6, 8)
            m, kind = gen.random_mask(rng, h, w, margin=1)
            sy, sx = gen.scales_pair(rng)
            oy, ox = gen.origin_pair(rng)
            dy, dx = gen.dyadic(rng, -3, 3, 2), gen.dyadic(rng, -3, 3, 2)
            if dy == 0 and dx == 0:
                dx = Fraction(1, 2)
            yield {"tag": f"mapper_{kind}", "group": "mapper", "mask": mask_json(m),
                   "scales": [q(sy), q(sx)], "origin": [q(oy), q(ox)], "shift": [q(dy), q(dx)],
                   "sub": rng.randint(1, 2), "mesh": [rng.randint(3, 4), rng.randint(3, 5)],
                   "seed": rng.randint(0, 10**6)}
        nh = 3 if tier == "quick" else 12
        for i in range(nh):
            n = rng.choice([15, 17, 21])
            s = rng.choice([Fraction(1, 4), Fraction(1, 2)])
            oy, ox = gen.origin_pair(rng)
            dy, dx = gen.dyadic(rng, -3, 3, 2), gen.dyadic(rng, -3, 3, 2)
            if dy == 0 and dx == 0:
                dx = Fraction(3, 4)
            yield {"tag": "hilbert", "group": "hilbert", "n": n, "scale": q(s),
                   "radius": q(s * (n // 2 - 2)), "origin": [q(oy), q(ox)], "shift": [q(dy), q(dx)],
                   "pixels": rng.randint(8, 20), "masked_adapt": False, "settings_checks": bool(i % 2)}
        # the residual Qhull-degeneracy finding (masked, non-affine adapt image): one sentinel case
        yield {"tag": "hilbert_masked_adapt", "group": "hilbert", "n": 21, "scale": "1/4",
               "radius": "2", "origin": ["0", "0"], "shift": ["3/4", "-5/4"], "pixels": 10,
               "masked_adapt": True}

    @staticmethod
    def _overlay_shape_without_ties(rng, m):
        """Overlay cell centres sit at (i+1/2)*n/S pixel widths from the bounding box edge of the unmasked
        pixels (n = rows/cols spanned, S = overlay shape): choose S so that none is an integer, i.e. no
        overlay point lies exactly on a pixel boundary (float tie, either answer acceptable)."""
        ys = [y for y, r in enumerate(m) for b in r if not b]
        xs = [x for r in m for x, b in enumerate(r) if not b]
        out = []
        for n in (max(ys) - min(ys) + 1, max(xs) - min(xs) + 1):
            ok = [S for S in range(2, 6) if all(((2 * i + 1) * n) % (2 * S) != 0 for i in range(S))]
            if not ok:
                return None  # every overlay size puts a point on a pixel boundary: entry skipped
            out.append(rng.choice(ok))
        return out

    # ------------------------------------------------------------------ implementation
    def _mask(self, aa, case, origin):
        return aa.Mask2D(mask=mask_from_json(case["mask"]),
                         pixel_scales=(F(case["scales"][0]), F(case["scales"][1])), origin=origin)

    def _entries_geometry(self, aa, case, origin, shift):
        m = self._mask(aa, case, origin)
        k = tuple(case["kernel"])
        sub = case["sub"]
        out = {}

        def grid(g):
            return np.asarray(g.array if hasattr(g, "array") else g, dtype=float).reshape(-1, 2).tolist()

        def put(name, kind, fn):
            try:
                out[name] = {"kind": kind, "value": fn()}
            except Exception as e:
                out[name] = {"kind": kind, "value": None, "err": type(e).__name__}

        g = aa.Grid2D.from_mask(mask=m)
        put("from_mask", "coord", lambda: grid(g))
        put("all_false", "coord", lambda: grid(m.derive_grid.all_false))
        put("unmasked", "coord", lambda: grid(m.derive_grid.unmasked))
        put("edge", "coord", lambda: grid(m.derive_grid.edge))
        put("border", "coord", lambda: grid(m.derive_grid.border))
        put("blurring", "coord", lambda: grid(aa.Grid2D.blurring_grid_from(mask=m, kernel_shape_native=k)))
        put("padded", "coord", lambda: grid(g.padded_grid_from(kernel_shape_native=k)))
        put("over_sampled", "coord", lambda: grid(aa.OverSamplerUniform(mask=m, sub_size=sub).over_sampled_grid))
        put("border_sub_grid", "coord", lambda: grid(aa.BorderRelocator(mask=m, sub_size=sub).sub_grid))
        put("sub_border_grid", "coord", lambda: grid(aa.BorderRelocator(mask=m, sub_size=sub).sub_border_grid))
        put("mask_centre", "coord", lambda: [list(map(float, m.mask_centre))])
        put("extent", "extent", lambda: list(map(float, m.geometry.extent)))
        put("scaled_minmax", "coord", lambda: [list(map(float, m.geometry.scaled_minima)),
                                                 list(map(float, m.geometry.scaled_maxima))])

        def zoom():
            z = m.zoom_mask_unmasked
            return {"origin": list(map(float, z.origin)), "shape": list(z.shape_native),
                    "grid": grid(aa.Grid2D.from_mask(mask=z))}
        put("zoom_mask_unmasked", "coordrec", zoom)

        def zoomed():
            a = aa.Array2D(values=np.arange(1.0, m.shape_native[0] * m.shape_native[1] + 1).reshape(m.shape_native), mask=m)
            z = a.zoomed_around_mask(buffer=1)
            return {"origin": list(map(float, z.mask.origin)), "shape": list(z.shape_native),
                    "grid": grid(aa.Grid2D.from_mask(mask=z.mask)),
                    "values": np.asarray(z.native.array, dtype=float).ravel().tolist()}
        put("zoomed_around_mask", "coordrec", zoomed)

        def resized():
            r = m.resized_from(new_shape=tuple(case["resize_to"]))
            return {"origin": list(map(float, r.origin)), "shape": list(r.shape_native),
                    "grid": grid(aa.Grid2D.from_mask(mask=r)) if r.pixels_in_mask > 0 else []}
        put("resized", "coordrec", resized)
        centre = (origin[0] + 0.25, origin[1] - 0.5)
        put("radial_projected", "coord", lambda: grid(g.grid_2d_radial_projected_from(
            centre=centre, angle=float(case["angle"]))))
        if case.get("overlay"):
            ov = aa.image_mesh.Overlay(shape=tuple(case["overlay"]))
            put("overlay_mesh", "coord", lambda: grid(ov.image_plane_mesh_grid_from(mask=m, adapt_data=None)))
        # index-valued results at translated points
        pts = [(F(a) + shift[0], F(b) + shift[1]) for a, b in case["points"]]
        put("pixel_coordinates", "inv", lambda: [list(map(int, m.geometry.pixel_coordinates_2d_from(
            scaled_coordinates_2d=p))) for p in pts])
        gi = aa.Grid2D.no_mask(values=np.array(pts, dtype=float).reshape(2, 2, 2), pixel_scales=1.0)
        put("grid_pixel_indexes", "inv", lambda: [int(v) for v in np.asarray(
            m.geometry.grid_pixel_indexes_2d_from(grid_scaled_2d=gi))])
        put("grid_pixel_centres", "inv", lambda: np.asarray(
            m.geometry.grid_pixel_centres_2d_from(grid_scaled_2d=gi), dtype=float).reshape(-1, 2).tolist())
        put("grid_pixels", "inv", lambda: np.asarray(
            m.geometry.grid_pixels_2d_from(grid_scaled_2d=gi), dtype=float).reshape(-1, 2).tolist())
        # count-valued: mesh points per image pixel (points = the off-boundary query points)
        gm = aa.Grid2DIrregular(values=[(F(a) + shift[0], F(b) + shift[1]) for a, b in case["mesh_points"]])
        put("mesh_pixels_per_image_pixels", "inv", lambda: np.asarray(
            aa.image_mesh.Overlay(shape=(3, 3)).mesh_pixels_per_image_pixels_from(mask=m, mesh_grid=gm).native.array,
            dtype=float).ravel().tolist())

        def mg_counts():
            mgr = aa.MapperGrids(mask=m, source_plane_data_grid=g, source_plane_mesh_grid=gm,
                                 image_plane_mesh_grid=gm)
            return np.asarray(mgr.mesh_pixels_per_image_pixels.native.array, dtype=float).ravel().tolist()
        put("mapper_grids_mesh_pixels_per_image_pixels", "inv", mg_counts)
        put("edge_slim", "inv", lambda: [int(v) for v in m.derive_indexes.edge_slim])
        put("border_slim", "inv", lambda: [int(v) for v in m.derive_indexes.border_slim])
        put("sub_border_slim", "inv", lambda: [int(v) for v in aa.BorderRelocator(mask=m, sub_size=sub).sub_border_slim])
        put("pixels_in_mask", "inv", lambda: int(m.pixels_in_mask))
        put("blurring_bits", "inv", lambda: "".join("1" if b else "0" for b in np.asarray(
            m.derive_mask.blurring_from(kernel_shape_native=k)).ravel()))
        put("resized_bits", "inv", lambda: "".join("1" if b else "0" for b in np.asarray(
            m.resized_from(new_shape=tuple(case["resize_to"]))).ravel()))
        return out

    def _entries_dataset(self, aa, case, origin, shift):
        m = self._mask(aa, case, origin)
        ps = m.pixel_scales
        h, w = m.shape_native
        rs = np.random.RandomState(case["seed"])
        data_v = np.round(rs.uniform(1, 9, size=(h, w)) * 8) / 8
        noise_v = np.round(rs.uniform(1, 3, size=(h, w)) * 8) / 8
        out = {}

        def grid(g):
            return np.asarray(g.array if hasattr(g, "array") else g, dtype=float).reshape(-1, 2).tolist()

        def put(name, kind, fn):
            try:
                out[name] = {"kind": kind, "value": fn()}
            except Exception as e:
                out[name] = {"kind": kind, "value": None, "err": type(e).__name__}

        def ds():
            data = aa.Array2D.no_mask(values=data_v, pixel_scales=ps, origin=origin)
            noise = aa.Array2D.no_mask(values=noise_v, pixel_scales=ps, origin=origin)
            psf = aa.Kernel2D.no_mask(values=np.ones((3, 3)) / 9.0, pixel_scales=ps)
            return aa.Imaging(data=data, noise_map=noise, psf=psf)

        def rec(d):
            return {"data_origin": list(map(float, d.data.mask.origin)),
                    "noise_origin": list(map(float, d.noise_map.mask.origin)),
                    "shape": list(d.data.shape_native),
                    "grid": grid(d.grids.uniform),
                    "data": np.asarray(d.data.native.array, dtype=float).ravel().tolist()}
        put("apply_mask", "dsrec", lambda: rec(ds().apply_mask(mask=m)))
        put("apply_noise_scaling", "dsrec", lambda: rec(ds().apply_noise_scaling(mask=m)))
        put("apply_over_sampling", "dsrec", lambda: rec(ds().apply_mask(mask=m).apply_over_sampling(
            over_sampling=aa.OverSamplingDataset(uniform=aa.OverSamplingUniform(sub_size=2)))))
        put("trimmed", "dsrec", lambda: rec(ds().trimmed_after_convolution_from(kernel_shape=(3, 3))))

        def sim():
            s = aa.SimulatorImaging(exposure_time=100.0, add_poisson_noise_to_data=False,
                                    include_poisson_noise_in_noise_map=bool(case["seed"] % 2),
                                    psf=aa.Kernel2D.no_mask(values=np.ones((3, 3)) / 9.0, pixel_scales=ps),
                                    noise_seed=1)
            return rec(s.via_image_from(image=ds().data))
        put("simulator", "dsrec", sim)

        def s2n():
            from autoarray.dataset import preprocess
            d = ds()
            r = preprocess.noise_map_with_signal_to_noise_limit_from(
                data=d.data, noise_map=d.noise_map, signal_to_noise_limit=2.0)
            return {"origin": list(map(float, r.mask.origin)), "shape": list(r.shape_native),
                    "grid": grid(aa.Grid2D.from_mask(mask=r.mask)),
                    "values": np.asarray(r.native.array, dtype=float).ravel().tolist()}
        put("s2n_limit_noise_map", "coordrec", s2n)
        return out

    def _entries_mapper(self, aa, case, origin, shift):
        m = self._mask(aa, case, origin)
        sub = case["sub"]
        rs = np.random.RandomState(case["seed"])
        out = {}
        os_ = aa.OverSamplerUniform(mask=m, sub_size=sub)
        base = np.asarray(os_.over_sampled_grid.array, dtype=float)
        # a smooth distortion of the *relative* coordinates, then translated with the origin
        rel = base - np.array(origin)
        a, b = np.round(rs.uniform(-0.2, 0.2, 2) * 16) / 16
        src_rel = np.stack([rel[:, 0] * (1 + a) + 0.125 * rel[:, 1] ** 2, rel[:, 1] * (1 + b) - 0.25 * rel[:, 0] * rel[:, 1]], axis=1)
        src = aa.Grid2DIrregular(values=src_rel + np.array(origin))

        def put(name, kind, fn):
            try:
                out[name] = {"kind": kind, "value": fn()}
            except Exception as e:
                out[name] = {"kind": kind, "value": None, "err": type(e).__name__, "msg": str(e)[:200]}

        def rect():
            mesh = aa.Mesh2DRectangular.overlay_grid(grid=src, shape_native=tuple(case["mesh"]))
            mg = aa.MapperGrids(mask=m, source_plane_data_grid=src, source_plane_mesh_grid=mesh)
            mp = aa.MapperRectangular(mapper_grids=mg, over_sampler=os_, border_relocator=None, regularization=None)
            return {"src": [[q(a), q(b)] for a, b in np.asarray(src.array, dtype=float)],
                    "mesh_origin": [q(mesh.origin[0]), q(mesh.origin[1])],
                    "mesh_scales_q": [q(mesh.pixel_scales[0]), q(mesh.pixel_scales[1])],
                    "mesh_scales": [float(mesh.pixel_scales[0]), float(mesh.pixel_scales[1])],
                    "pix_indexes": np.asarray(mp.pix_indexes_for_sub_slim_index).astype(int).tolist(),
                    "mapping_matrix": np.asarray(mp.mapping_matrix, dtype=float).tolist(),
                    "mesh_origin_rel": [float(mesh.origin[0] - origin[0]), float(mesh.origin[1] - origin[1])]}
        put("mapper_rectangular", "inv", rect)

        def dela():
            nv = 7
            vr = np.round(rs.uniform(-1, 1, size=(nv, 2)) * 64) / 64
            ext = np.abs(src_rel).max(axis=0) * 1.2 + 0.1
            verts = vr * ext + np.array(origin)
            mesh = aa.Mesh2DDelaunay(values=verts)
            mg = aa.MapperGrids(mask=m, source_plane_data_grid=src, source_plane_mesh_grid=mesh)
            mp = aa.MapperDelaunay(mapper_grids=mg, over_sampler=os_, border_relocator=None, regularization=None)
            return {"mapping_matrix": np.asarray(mp.mapping_matrix, dtype=float).tolist()}
        put("mapper_delaunay", "inv", dela)
        return out

    def _entries_hilbert(self, aa, case, origin, shift):
        n = case["n"]
        s = F(case["scale"])
        m = aa.Mask2D.circular(shape_native=(n, n), radius=F(case["radius"]), pixel_scales=s, origin=origin)
        yy, xx = np.mgrid[0:n, 0:n]
        img = 1.0 + 0.25 * yy + 0.5 * xx
        if case["masked_adapt"]:
            adapt = aa.Array2D(values=img, mask=m)
        else:
            adapt = aa.Array2D.no_mask(values=img, pixel_scales=s, origin=origin)
        hb = aa.image_mesh.Hilbert(pixels=case["pixels"], weight_floor=0.1, weight_power=1.0)
        out = {}
        settings = None
        if case.get("settings_checks"):
            # the optional checks count mesh points per image pixel: a count-valued intermediate
            settings = aa.SettingsInversion(image_mesh_min_mesh_pixels_per_pixel=0,
                                            image_mesh_min_mesh_number=1,
                                            image_mesh_adapt_background_percent_threshold=None)
        try:
            g = hb.image_plane_mesh_grid_from(mask=m, adapt_data=adapt, settings=settings)
            out["hilbert_mesh"] = {"kind": "coord", "value": np.asarray(g.array, dtype=float).reshape(-1, 2).tolist()}
        except Exception as e:
            out["hilbert_mesh"] = {"kind": "coord", "value": None, "err": type(e).__name__, "msg": str(e)[:200]}
        return out

    def run_impl(self, case):
        aa = load_autoarray()
        o = (F(case["origin"][0]), F(case["origin"][1]))
        d = (F(case["shift"][0]), F(case["shift"][1]))
        od = (o[0] + d[0], o[1] + d[1])
        fn = {"geometry": self._entries_geometry, "dataset": self._entries_dataset,
              "mapper": self._entries_mapper, "hilbert": self._entries_hilbert}[case["group"]]
        return {"at_o": fn(aa, case, o, (0.0, 0.0)), "at_od": fn(aa, case, od, d)}

    # ------------------------------------------------------------------ oracle: the metamorphic relation
    @staticmethod
    def _close(a, b, tol=TOL):
        a = np.asarray(a, dtype=float)
        b = np.asarray(b, dtype=float)
        if a.shape != b.shape:
            return False
        if a.size == 0:
            return True
        return bool(np.all(np.abs(a - b) <= tol * np.maximum(1.0, np.maximum(np.abs(a), np.abs(b)))))

    @staticmethod
    def _rect_tie(src, mesh_shape, margin=Fraction(1, 10**6)):
        """exact test: does a source-plane point lie within `margin` (in mesh-pixel units) of an INTERIOR
        cell boundary of the overlaid rectangular mesh?  There float rounding may pick either cell."""
        pts = [(Fraction(a), Fraction(b)) for a, b in src]
        buf = Fraction(1e-8)
        out = False
        for axis, S in ((0, mesh_shape[0]), (1, mesh_shape[1])):
            lo = min(p[axis] for p in pts) - buf
            hi = max(p[axis] for p in pts) + buf
            if hi == lo:
                continue
            for p in pts:
                c = (hi - p[axis]) / (hi - lo) * S if axis == 0 else (p[axis] - lo) / (hi - lo) * S
                if c < Fraction(1, 2) or c > S - Fraction(1, 2):
                    continue
                f = c - (c.numerator // c.denominator)
                if min(f, 1 - f) < margin:
                    out = True
        return out

    def oracle(self, case, obs):
        if "err" in obs and "at_o" not in obs:
            return False, f"implementation raised {obs}"
        d = np.array([F(case["shift"][0]), F(case["shift"][1])])
        for name, e0 in obs["at_o"].items():
            e1 = obs["at_od"][name]
            if e0.get("err") or e1.get("err"):
                if e0.get("err") != e1.get("err"):
                    return False, f"{name}: raises {e0.get('err')} at origin o but {e1.get('err')} at o+d {e1.get('msg','')}"
                if e0.get("err") not in ("MaskException",):
                    # only the documented footprint-outside-frame error is an acceptable outcome
                    return False, f"{name}: raises {e0.get('err')} at both origins {e0.get('msg','')}"
                continue
            k, v0, v1 = e0["kind"], e0["value"], e1["value"]
            if name == "mapper_rectangular" and (self._rect_tie(v0["src"], case["mesh"])
                                                  or self._rect_tie(v1["src"], case["mesh"])):
                continue  # tie band of a mesh-cell boundary: either cell is acceptable
            if k == "coord":
                a0 = np.asarray(v0, dtype=float).reshape(-1, 2)
                a1 = np.asarray(v1, dtype=float).reshape(-1, 2)
                if a0.shape != a1.shape or not self._close(a0 + d, a1):
                    return False, f"{name}: coordinates at origin o+d are not those at o translated by d"
            elif k == "extent":
                if not self._close(np.asarray(v0) + np.array([d[1], d[1], d[0], d[0]]), v1):
                    return False, f"{name}: extent not translated by d"
            elif k == "inv":
                if not self._deep_close(v0, v1):
                    return False, f"{name}: index/weight/matrix-valued result changes with the origin"
            elif k in ("coordrec", "dsrec"):
                for key in v0:
                    if key.endswith("origin") or key == "grid":
                        a0 = np.asarray(v0[key], dtype=float).reshape(-1, 2)
                        a1 = np.asarray(v1[key], dtype=float).reshape(-1, 2)
                        if a0.shape != a1.shape or not self._close(a0 + d, a1):
                            return False, f"{name}.{key}: not translated by d"
                    else:
                        if not self._deep_close(v0[key], v1[key]):
                            return False, f"{name}.{key}: changes with the origin"
        return True, ""

    def _deep_close(self, a, b):
        if isinstance(a, dict):
            return isinstance(b, dict) and set(a) == set(b) and all(
                k in ("src", "mesh_origin", "mesh_scales_q")  # coordinate-valued helpers, fed to the model, not invariants
                or (k.endswith("_rel") and self._close(a[k], b[k])) or self._deep_close(a[k], b[k]) for k in a)
        if isinstance(a, str) or isinstance(b, str):
            return a == b
        try:
            return self._close(a, b)
        except Exception:
            return a == b

    def known_finding(self, case, obs):
        if case.get("group") == "hilbert" and case.get("masked_adapt"):
            return "D10h"
        return None

    # ------------------------------------------------------------------ model (geometry records)
    MODEL_ENTRIES = ["from_mask", "all_false", "unmasked", "edge", "border", "blurring", "padded",
                     "over_sampled", "border_sub_grid", "mask_centre", "extent", "scaled_minmax",
                     "zoom_mask_unmasked", "zoomed_around_mask", "resized", "pixel_coordinates",
                     "grid_pixel_indexes", "grid_pixel_centres", "grid_pixels", "radial_projected"]

    def model_requests(self, case, impl_obs):
        if "at_o" not in impl_obs:
            return []
        if case["group"] == "mapper":
            reqs = []
            for key in ("at_o", "at_od"):
                e = impl_obs[key].get("mapper_rectangular", {})
                if e.get("err") or not e.get("value"):
                    raise Skip("mapper construction failed")
                reqs.append({"op": "c12.rect_mapper", "grid": e["value"]["src"], "mesh": case["mesh"],
                             "buffer": q(1e-8)})
            return reqs
        if case["group"] != "geometry":
            return []
        reqs = []
        o = [Fraction(case["origin"][0]), Fraction(case["origin"][1])]
        d = [Fraction(case["shift"][0]), Fraction(case["shift"][1])]
        for key, org, sh in (("at_o", o, [0, 0]), ("at_od", [o[0] + d[0], o[1] + d[1]], d)):
            e = impl_obs[key]
            need = ("edge_slim", "border_slim", "blurring_bits", "resized_bits", "zoom_mask_unmasked",
                    "zoomed_around_mask")
            if any(e[n].get("err") for n in need):
                raise Skip("an implementation-side table is unavailable (footprint outside frame)")
            reqs.append({
                "op": "c12.entries", "mask": case["mask"], "scales": case["scales"],
                "origin": [q(org[0]), q(org[1])], "kernel": case["kernel"], "sub": case["sub"],
                "edge_slim": e["edge_slim"]["value"], "border_slim": e["border_slim"]["value"],
                "blurring_bits": e["blurring_bits"]["value"],
                "resized_shape": case["resize_to"], "resized_bits": e["resized_bits"]["value"],
                "zoom_shape": e["zoom_mask_unmasked"]["value"]["shape"],
                "zoomed_shape": e["zoomed_around_mask"]["value"]["shape"],
                "points": [[q(Fraction(a) + sh[0]), q(Fraction(b) + sh[1])] for a, b in case["points"]],
            })
        import math
        phi = math.radians(float(case["angle"]))
        for org in (o, [o[0] + d[0], o[1] + d[1]]):
            reqs.append({"op": "c12.radial", "shape": [case["mask"]["h"], case["mask"]["w"]],
                         "scales": case["scales"], "origin": [q(org[0]), q(org[1])],
                         "centre": [q(org[0] + Fraction(1, 4)), q(org[1] - Fraction(1, 2))],
                         "cos_sin": [q(math.cos(phi)), q(math.sin(phi))]})
        return reqs

    def model_obs(self, case, responses):
        for r in responses:
            if "err" in r:
                return {"err": r["err"]}
        out = {"at_o": responses[0]["ok"], "at_od": responses[1]["ok"]}
        if len(responses) == 4:
            out["at_o"]["radial_projected"] = responses[2]["ok"]
            out["at_od"]["radial_projected"] = responses[3]["ok"]
        return out

    def compare(self, case, impl_obs, model_obs, cmp):
        if "err" in model_obs:
            return f"model error {model_obs}"
        if case["group"] == "mapper":
            for key in ("at_o", "at_od"):
                mo = model_obs[key]
                if Fraction(mo["tie_margin"]) < Fraction(1, 10**6):
                    raise Skip("a source-plane point lies within the tie band of a mesh cell boundary")
                v = impl_obs[key]["mapper_rectangular"]["value"]
                d = cmp.diff({"pix": [int(x[0]) if isinstance(x, list) else int(x) for x in v["pix_indexes"]],
                              "origin": v["mesh_origin"], "scales": v["mesh_scales_q"]},
                             {"pix": mo["pix_indexes"], "origin": mo["origin"], "scales": mo["scales"]},
                             f"$.{key}.mapper_rectangular")
                if d:
                    return d
            return None
        for key in ("at_o", "at_od"):
            for name in self.MODEL_ENTRIES:
                e = impl_obs[key][name]
                if e.get("err"):
                    return f"{key}.{name}: implementation raised {e['err']}"
                iv = e["value"]
                mv = model_obs[key][name]
                if name in ("zoomed_around_mask",):
                    iv = {k: iv[k] for k in ("origin", "shape", "grid")}
                if name == "mask_centre":
                    iv = iv[0]
                d = cmp.diff(iv, mv, f"$.{key}.{name}")
                if d:
                    return d
        return None

    def theorems_for(self, case):
        return {"geometry": ["C12.grid_from_mask_covariant", "C12.gathered_grid_covariant",
                             "C12.padded_grid_covariant", "C12.over_sampled_grid_covariant",
                             "C12.mask_centre_covariant", "C12.extent_covariant", "C12.zoom_mask_covariant",
                             "C12.zoomed_around_mask_covariant", "C12.resized_grid_covariant",
                             "C12.pixel_indices_invariant", "C12.grid_pixel_indexes_invariant",
                             "C12.radial_projected_covariant"],
                "mapper": ["C12.overlay_mesh_covariant", "C12.rectangular_mapper_table_invariant",
                           "C12.delaunay_mapper_tables_invariant"],
                "dataset": ["C12.dataset_records_commute"]}.get(case["group"], ["C12.*"])

    def nontrivial(self, case, obs):
        bits = case.get("mask", {}).get("bits", "01")
        return "0" in bits and "1" in bits and (Fraction(case["shift"][0]) != 0 or Fraction(case["shift"][1]) != 0)

    def sample_view(self, case):
        return {k: v for k, v in case.items()}


CHECK = C12()
