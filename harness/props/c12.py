"""C12 — all geometry is covariant under translation of the coordinate origin."""
from __future__ import annotations

from fractions import Fraction

import numpy as np

import gen
from common import Cmp, PropertyCheck, Skip, load_autoarray, mask_json, mask_from_json, q

# entry points: name -> kind ("coord": result + d expected; "extent": (x0,x1,y0,y1) shifts;
# "inv": unchanged).  Every value is a (nested) list of floats.
TOL = 1e-9


def F(x):
    return float(Fraction(x))


class C12(PropertyCheck):
    pid = "C12"
    title = "translation covariance"
    generated_modules = ["Geometry"]  # second tie: Python -> Lean translation + `rfl` against Model.Geometry
    rtol = Fraction(1, 10**9)
    atol = Fraction(1, 10**9)
    nontrivial_rule = (
        "a case = (mask, anisotropic scales, origin o, shift d != 0, sub size, kernel); every public "
        "entry point of the property's observe_at list is evaluated at o and at o+d; distinct = distinct "
        "case inputs; non-trivial = d has a non-zero component and the mask has masked and unmasked pixels; "
        "history cases (group=history) = a script of >= 2 operations on reused library objects, every observation "
        "judged against freshly built objects, numpy closed forms, the translation relation and the model; large "
        "cases (large=true; when the anchored source gained an integer constant, and one frame of more than 2^16 pixels "
        "in every run) = recipes judged by the relation alone; round-5 cases (r5=true): the same entries with the world "
        "at another decade (unit = 2^k, compared in units of the decade), near twins, far origins, inputs in other "
        "containers / layouts / constructors (variant), crossed options (opts / ds_opts / hb_opts), ownership "
        "histories (scribble / rebuild operations) and configuration histories (conf operations)"
    )
    # loop ties (DESIGN §12): regenerated from the source on every run, tie theorems proved for all sizes
    loop_tie_modules = ["LoopsEntry", "LoopsRadial", "LoopsEntry2"]
    modelled_functions = [
        "autoarray/geometry/geometry_util.py:central_pixel_coordinates_2d_from",
        "autoarray/geometry/geometry_util.py:central_scaled_coordinate_2d_from",
        "autoarray/geometry/geometry_util.py:pixel_coordinates_2d_from",
        "autoarray/geometry/geometry_util.py:grid_pixels_2d_slim_from",
        "autoarray/geometry/geometry_util.py:grid_pixel_centres_2d_slim_from",
        "autoarray/geometry/geometry_util.py:grid_pixel_indexes_2d_slim_from",
        "autoarray/structures/grids/grid_2d_util.py:grid_2d_slim_via_mask_from",
        "autoarray/structures/grids/grid_2d_util.py:grid_2d_centre_from",
        "autoarray/structures/grids/uniform_2d.py:Grid2D.padded_grid_from",
        "autoarray/structures/grids/uniform_2d.py:Grid2D.from_mask",
        "autoarray/mask/mask_2d.py:Mask2D.mask_centre",
        "autoarray/mask/mask_2d.py:Mask2D.zoom_centre",
        "autoarray/mask/mask_2d.py:Mask2D.zoom_offset_pixels",
        "autoarray/mask/mask_2d.py:Mask2D.zoom_offset_scaled",
        "autoarray/mask/mask_2d.py:Mask2D.zoom_mask_unmasked",
        "autoarray/mask/mask_2d.py:Mask2D.resized_from",
        "autoarray/structures/arrays/uniform_2d.py:AbstractArray2D.zoomed_around_mask",
        "autoarray/operators/over_sampling/over_sample_util.py:grid_2d_slim_over_sampled_via_mask_from",
        "autoarray/structures/mesh/rectangular_2d.py:Mesh2DRectangular.overlay_grid",
        "autoarray/dataset/imaging/dataset.py:Imaging.apply_noise_scaling",
        "autoarray/dataset/imaging/simulator.py:SimulatorImaging.via_image_from",
        "autoarray/dataset/preprocess.py:noise_map_with_signal_to_noise_limit_from",
        "autoarray/inversion/pixelization/image_mesh/overlay.py:Overlay.image_plane_mesh_grid_from",
        "autoarray/inversion/pixelization/image_mesh/hilbert.py:image_and_grid_from",
        "autoarray/structures/grids/uniform_2d.py:Grid2D.grid_2d_radial_projected_from",
        "autoarray/structures/grids/grid_2d_util.py:grid_scaled_2d_slim_radial_projected_from",
        "autoarray/geometry/geometry_util.py:transform_grid_2d_to_reference_frame",
        "autoarray/geometry/geometry_util.py:transform_grid_2d_from_reference_frame",
        "autoarray/inversion/pixelization/mappers/mapper_util.py:pixel_weights_delaunay_from",
        "autoarray/inversion/pixelization/mappers/mapper_util.py:pix_indexes_for_sub_slim_index_delaunay_from",
        "autoarray/structures/mesh/triangulation_2d.py:Abstract2DMeshTriangulation.delaunay",
    ]
    trusted_extra = [
        "large-stream cases (sizes around new integer constants of the source) are judged by the numpy statement of the "
        "translation relation only, not compared with the Lean model",
        "scipy.interpolate.griddata / Qhull inside image_mesh.Hilbert is not modelled (only the placement of its grids)",
        "float rounding of translated coordinates (inputs are dyadic so translations are exact; tolerance 1e-9)",
        "decades stream: lengths are compared in units of the case's power-of-two decade with the band "
        "max(1e-9 unit, 2^-46 |value|); continuous pixel coordinates of points 1e5..1e11 pixels from zero within a few "
        "ulps of |origin| / pixel scale (the code computes them as -p/s + (centre + o/s))",
        "dataset records of the round-5 streams are compared with the model's pixel-centre grid of the returned mask at "
        "the world origin (every dataset operation keeps the origin: theorem dataset_records_commute)",
    ]

    # ------------------------------------------------------------------ generation
    def generate(self, tier, rng):
        n = 120 if tier == "quick" else 800
        for i in range(n):
            h, w = rng.randint(5, 9), rng.randint(5, 9)
            kh, kw = rng.choice([1, 3]), rng.choice([1, 3])
            m, kind = gen.random_mask(rng, h, w, margin=max(kh, kw) // 2 + 0)
            sy, sx = gen.scales_pair(rng)
            if rng.random() < 0.2:
                sx = sy
            oy, ox = gen.origin_pair(rng) if rng.random() < 0.7 else (Fraction(0), Fraction(0))
            dy, dx = gen.dyadic(rng, -3, 3, 2), gen.dyadic(rng, -3, 3, 2)
            if dy == 0 and dx == 0:
                dx = Fraction(5, 4)
            pts = []
            while len(pts) < 4:
                # query points relative to the origin, kept outside the 1e-9 tie band around pixel
                # boundaries (exact rational test), where float rounding may pick either pixel
                py, px = gen.dyadic(rng, -2, 2, 4) + oy, gen.dyadic(rng, -2, 2, 4) + ox
                fy = (-(py - oy)) / sy + Fraction(h, 2)
                fx = (px - ox) / sx + Fraction(w, 2)
                if fy.denominator == 1 or fx.denominator == 1:
                    continue
                pts.append([q(py), q(px)])
            ov = self._overlay_shape_without_ties(rng, m)
            # mesh points strictly inside the frame and off every pixel boundary (count-valued entries)
            mesh_pts = []
            for _ in range(6):
                i, j = rng.randrange(h), rng.randrange(w)
                fi, fj = rng.choice([Fraction(1, 4), Fraction(1, 2), Fraction(3, 4)]), rng.choice(
                    [Fraction(1, 4), Fraction(1, 2), Fraction(3, 4)])
                mesh_pts.append([q(oy + (Fraction(h, 2) - (i + fi)) * sy), q(ox + ((j + fj) - Fraction(w, 2)) * sx)])
            yield {"tag": f"geom_{kind}", "group": "geometry", "mask": mask_json(m),
                   "scales": [q(sy), q(sx)], "origin": [q(oy), q(ox)], "shift": [q(dy), q(dx)],
                   "sub": rng.randint(1, 3), "kernel": [kh, kw], "points": pts, "mesh_points": mesh_pts,
                   "resize_to": [h + rng.choice([-2, 0, 2, 3]), w + rng.choice([-2, 0, 2, 1])],
                   "overlay": ov,
                   "angle": rng.choice([0, 30, 45, 90, 120])}
        nd = 30 if tier == "quick" else 200
        for i in range(nd):
            h, w = rng.randint(7, 9), rng.randint(7, 9)
            m, kind = gen.random_mask(rng, h, w, margin=rng.choice([0, 1, 2]))
            sy, sx = gen.scales_pair(rng)
            oy, ox = gen.origin_pair(rng)
            dy, dx = gen.dyadic(rng, -3, 3, 2), gen.dyadic(rng, -3, 3, 2)
            if dy == 0 and dx == 0:
                dy = Fraction(-3, 4)
            yield {"tag": f"dataset_{kind}", "group": "dataset", "mask": mask_json(m),
                   "scales": [q(sy), q(sx)], "origin": [q(oy), q(ox)], "shift": [q(dy), q(dx)],
                   "seed": rng.randint(0, 10**6)}
        nm = 24 if tier == "quick" else 160
        for i in range(nm):
            h, w = rng.randint(6, 8), rng.randint(6, 8)
            m, kind = gen.random_mask(rng, h, w, margin=1)
            sy, sx = gen.scales_pair(rng)
            oy, ox = gen.origin_pair(rng)
            dy, dx = gen.dyadic(rng, -3, 3, 2), gen.dyadic(rng, -3, 3, 2)
            if dy == 0 and dx == 0:
                dx = Fraction(1, 2)
            yield {"tag": f"mapper_{kind}", "group": "mapper", "mask": mask_json(m),
                   "scales": [q(sy), q(sx)], "origin": [q(oy), q(ox)], "shift": [q(dy), q(dx)],
                   "sub": rng.randint(1, 2), "mesh": [rng.randint(3, 4), rng.randint(3, 5)],
                   "seed": rng.randint(0, 10**6)}
        nh = 3 if tier == "quick" else 12
        for i in range(nh):
            n = rng.choice([15, 17, 21])
            s = rng.choice([Fraction(1, 4), Fraction(1, 2)])
            oy, ox = gen.origin_pair(rng)
            dy, dx = gen.dyadic(rng, -3, 3, 2), gen.dyadic(rng, -3, 3, 2)
            if dy == 0 and dx == 0:
                dx = Fraction(3, 4)
            yield {"tag": "hilbert", "group": "hilbert", "n": n, "scale": q(s),
                   "radius": q(s * (n // 2 - 2)), "origin": [q(oy), q(ox)], "shift": [q(dy), q(dx)],
                   "pixels": rng.randint(8, 20), "masked_adapt": False, "settings_checks": bool(i % 2)}
        # the residual Qhull-degeneracy finding (masked, non-affine adapt image): one sentinel case
        yield {"tag": "hilbert_masked_adapt", "group": "hilbert", "n": 21, "scale": "1/4",
               "radius": "2", "origin": ["0", "0"], "shift": ["3/4", "-5/4"], "pixels": 10,
               "masked_adapt": True}
        # history stream (DESIGN §13): reuse histories on real shared objects; after the ordinary streams, so their
        # PRNG consumption (and thus the cases of earlier rounds) is unchanged
        yield from self._histories(tier, rng)
        # round 5 / 6 streams (DESIGN §14), after everything else for the same reason
        yield from self._r5_streams(tier, rng)

    @staticmethod
    def _overlay_shape_without_ties(rng, m):
        """Overlay cell centres sit at (i+1/2)*n/S pixel widths from the bounding box edge of the unmasked
        pixels (n = rows/cols spanned, S = overlay shape): choose S so that none is an integer, i.e. no
        overlay point lies exactly on a pixel boundary (float tie, either answer acceptable)."""
        ys = [y for y, r in enumerate(m) for b in r if not b]
        xs = [x for r in m for x, b in enumerate(r) if not b]
        out = []
        for n in (max(ys) - min(ys) + 1, max(xs) - min(xs) + 1):
            ok = [S for S in range(2, 6) if all(((2 * i + 1) * n) % (2 * S) != 0 for i in range(S))]
            if not ok:
                return None  # every overlay size puts a point on a pixel boundary: entry skipped
            out.append(rng.choice(ok))
        return out

    # ------------------------------------------------------------------ implementation
    _side = "o"  # which of the two origins run_impl is evaluating ("o" / "od"): one-sided layout variants

    def _variant(self, case):
        """container / layout variant of the inputs (round-5 class C), applied at the origin(s) named by
        case["variant_at"] ("o", "od" or "both"); {} = canonical inputs"""
        v = case.get("variant")
        if not v or case.get("variant_at", "both") not in ("both", self._side):
            return {}
        return v

    def _mask(self, aa, case, origin):
        arr = case["_mask_np"] if case.get("_mask_np") is not None else mask_from_json(case["mask"])
        scales = (F(case["scales"][0]), F(case["scales"][1]))
        var = self._variant(case)
        if not var:
            return aa.Mask2D(mask=arr, pixel_scales=scales, origin=origin)
        return self._mask_variant(aa, arr, scales, origin, var)

    @staticmethod
    def _mask_variant(aa, arr, scales, origin, var):
        """an equal-valued Mask2D built from another container / memory layout / dtype of the same mask, origin and
        pixel scales"""
        arr = np.array(arr, dtype=bool)
        h, w = arr.shape
        kw = {}
        mk = var.get("mask", "c")
        if mk == "fortran":
            a = np.asfortranarray(arr)
        elif mk == "tview":  # transposed view of the transposed copy: Fortran strides, not owning its data
            a = np.ascontiguousarray(arr.T).T
        elif mk == "strided":  # every second element of a larger buffer
            big = np.ones((2 * h, 2 * w + 1), dtype=bool)
            big[::2, ::2][:, :w] = arr
            a = big[::2, ::2][:, :w]
        elif mk == "reversed":  # negative strides
            a = arr[::-1, ::-1].copy()[::-1, ::-1]
        elif mk == "readonly":
            a = arr.copy()
            a.flags.writeable = False
        elif mk == "fortran_readonly":
            a = np.asfortranarray(arr)
            a.flags.writeable = False
        elif mk == "list":
            a = arr.tolist()
        elif mk == "intlist":
            a = arr.astype(int).tolist()
        elif mk in ("int", "uint8", "float", "int8"):
            a = arr.astype({"int": int, "uint8": np.uint8, "float": float, "int8": np.int8}[mk])
        elif mk == "invert":
            a = ~arr
            kw["invert"] = True
        elif mk == "from_mask":
            # the user's way of moving / re-gridding a mask: a Mask2D built from an existing Mask2D that has ANOTHER
            # origin (and possibly other pixel scales); the explicit arguments must win, also when they are (0.0, 0.0)
            so = tuple(float(Fraction(x)) for x in var.get("src_origin", ["3", "-5/2"]))
            ss = tuple(float(Fraction(x)) for x in var.get("src_scales", [q(Fraction(scales[0])), q(Fraction(scales[1]))]))
            a = aa.Mask2D(mask=arr.copy(), pixel_scales=ss, origin=so)
        else:
            a = arr.copy()
        ok_ = var.get("origin", "tuple")
        o = (float(origin[0]), float(origin[1]))
        if ok_ == "list":
            o = [o[0], o[1]]
        elif ok_ == "nparray":
            o = np.array(o)
        elif ok_ == "npfloat":
            o = (np.float64(o[0]), np.float64(o[1]))
        elif ok_ == "int" and o[0] == int(o[0]) and o[1] == int(o[1]):
            o = (int(o[0]), int(o[1]))
        sk = var.get("scales", "tuple")
        s = (float(scales[0]), float(scales[1]))
        if sk == "list":
            s = [s[0], s[1]]
        elif sk == "nparray":
            s = np.array(s)
        elif sk == "npfloat":
            s = (np.float64(s[0]), np.float64(s[1]))
        elif sk == "scalar" and s[0] == s[1]:
            s = float(s[0])
        elif sk == "int" and s[0] == int(s[0]) and s[1] == int(s[1]):
            s = (int(s[0]), int(s[1]))
        return aa.Mask2D(mask=a, pixel_scales=s, origin=o, **kw)

    @staticmethod
    def _unit(case):
        """the decade of a case (round-5 classes A / E): every length of the world is a multiple of this power of two"""
        return F(case.get("unit", "1"))

    def _centre(self, case, origin):
        """the radial-projection centre: origin + (1/4, -1/2) units unless the case says otherwise"""
        u = self._unit(case)
        cr = case.get("centre_rel")
        if cr is None:
            return (origin[0] + 0.25 * u, origin[1] - 0.5 * u)
        return (origin[0] + F(cr[0]), origin[1] + F(cr[1]))

    def _entries_geometry(self, aa, case, origin, shift):
        m = self._mask(aa, case, origin)
        k = tuple(case["kernel"])
        sub = case["sub"]
        var = self._variant(case)
        opts = case.get("opts") or {}
        out = {}

        def grid(g):
            return np.asarray(g.array if hasattr(g, "array") else g, dtype=float).reshape(-1, 2).tolist()

        def put(name, kind, fn):
            try:
                out[name] = {"kind": kind, "value": fn()}
            except Exception as e:
                out[name] = {"kind": kind, "value": None, "err": type(e).__name__}

        if opts.get("from_mask_os"):  # rarely combined option: the grid carries an over-sampling configuration
            g = aa.Grid2D.from_mask(mask=m, over_sampling=aa.OverSamplingUniform(sub_size=int(opts["from_mask_os"])))
        else:
            g = aa.Grid2D.from_mask(mask=m)

        def sub_arg(relocator=False):
            # the sub size as the int the API documents, or as an equal-valued Array2D of sizes: slim integers, or
            # (OverSamplerUniform only, which casts to int; BorderRelocator needs the integer dtype a slim input keeps)
            # natively shaped and Fortran-ordered
            sv = var.get("sub")
            if sv == "array2d" or (sv == "array2d_native" and relocator):
                return aa.Array2D(values=np.full(m.pixels_in_mask, int(sub)), mask=m)
            if sv == "array2d_native":
                return aa.Array2D(values=np.asfortranarray(np.full(m.shape_native, int(sub))), mask=m)
            return sub
        put("from_mask", "coord", lambda: grid(g))
        put("all_false", "coord", lambda: grid(m.derive_grid.all_false))
        put("unmasked", "coord", lambda: grid(m.derive_grid.unmasked))
        put("edge", "coord", lambda: grid(m.derive_grid.edge))
        put("border", "coord", lambda: grid(m.derive_grid.border))
        put("blurring", "coord", lambda: grid(aa.Grid2D.blurring_grid_from(mask=m, kernel_shape_native=k)))
        put("padded", "coord", lambda: grid(g.padded_grid_from(kernel_shape_native=k)))
        put("over_sampled", "coord", lambda: grid(aa.OverSamplerUniform(mask=m, sub_size=sub_arg()).over_sampled_grid))
        put("border_sub_grid", "coord", lambda: grid(aa.BorderRelocator(mask=m, sub_size=sub_arg(True)).sub_grid))
        put("sub_border_grid", "coord", lambda: grid(aa.BorderRelocator(mask=m, sub_size=sub_arg(True)).sub_border_grid))
        if opts.get("from_mask_os"):
            put("over_sampled_via_grid", "coord", lambda: grid(g.over_sampler.over_sampled_grid))
        if case.get("sub_runs"):
            # per-pixel sub-size map (run-length coded, odd and even sizes mixed): OverSamplerUniform / BorderRelocator
            # take an Array2D of sizes
            def sub_map():
                sizes = np.concatenate([np.full(int(n), int(sv)) for n, sv in case["sub_runs"]])
                return aa.Array2D(values=sizes[: m.pixels_in_mask].astype("int"), mask=m)
            put("over_sampled_map", "coord", lambda: grid(aa.OverSamplerUniform(mask=m, sub_size=sub_map()).over_sampled_grid))
            put("border_sub_grid_map", "coord", lambda: grid(aa.BorderRelocator(mask=m, sub_size=sub_map()).sub_grid))
        put("mask_centre", "coord", lambda: [list(map(float, m.mask_centre))])
        put("extent", "extent", lambda: list(map(float, m.geometry.extent)))
        put("scaled_minmax", "coord", lambda: [list(map(float, m.geometry.scaled_minima)),
                                                 list(map(float, m.geometry.scaled_maxima))])

        def zoom():
            z = m.zoom_mask_unmasked
            return {"origin": list(map(float, z.origin)), "shape": list(z.shape_native),
                    "grid": grid(aa.Grid2D.from_mask(mask=z))}
        put("zoom_mask_unmasked", "coordrec", zoom)

        def zoomed():
            vals = np.arange(1.0, m.shape_native[0] * m.shape_native[1] + 1).reshape(m.shape_native)
            akw = {}
            vv = var.get("values")
            if vv == "fortran":
                vals = np.asfortranarray(vals)
            elif vv == "list":
                vals = vals.tolist()
            elif vv == "int":
                vals = vals.astype(int)
            elif vv == "f32":
                vals = vals.astype(np.float32)
            elif vv == "slim":
                vals = vals[~np.asarray(m.array, dtype=bool)]
            elif vv == "readonly":
                vals.flags.writeable = False
            elif vv == "store_native":
                akw["store_native"] = True
            a = aa.Array2D(values=vals, mask=m, **akw)
            z = a.zoomed_around_mask(buffer=int(opts.get("buffer", 1)))
            return {"origin": list(map(float, z.mask.origin)), "shape": list(z.shape_native),
                    "grid": grid(aa.Grid2D.from_mask(mask=z.mask)),
                    "values": np.asarray(z.native.array, dtype=float).ravel().tolist()}
        put("zoomed_around_mask", "coordrec", zoomed)
        rkw = {"pad_value": opts["pad_value"]} if "pad_value" in opts else {}

        def resized():
            r = m.resized_from(new_shape=tuple(case["resize_to"]), **rkw)
            return {"origin": list(map(float, r.origin)), "shape": list(r.shape_native),
                    "grid": grid(aa.Grid2D.from_mask(mask=r)) if r.pixels_in_mask > 0 else []}
        put("resized", "coordrec", resized)
        centre = self._centre(case, origin)
        pkw = {}
        if "shape_slim" in opts:
            pkw["shape_slim"] = opts["shape_slim"]
        if "rpc" in opts:
            pkw["remove_projected_centre"] = opts["rpc"]
        if var.get("points") == "list":
            centre = [centre[0], centre[1]]
        elif var.get("points") == "nparray":
            centre = np.array(centre)
        put("radial_projected", "coord", lambda: grid(g.grid_2d_radial_projected_from(
            centre=centre, angle=float(case["angle"]), **pkw)))
        if "rpc" in opts:  # control for the oracle: the same call keeping the centre
            put("radial_full", "coord", lambda: grid(g.grid_2d_radial_projected_from(
                centre=centre, angle=float(case["angle"]), **{**pkw, "remove_projected_centre": False})))
        if case.get("overlay"):
            ov = aa.image_mesh.Overlay(shape=tuple(case["overlay"]))
            put("overlay_mesh", "coord", lambda: grid(ov.image_plane_mesh_grid_from(mask=m, adapt_data=None)))
        # index-valued results at translated points
        if case.get("_points_np") is not None:  # large stream: points expanded from the recipe (relative to o)
            pts = [tuple(p) for p in (np.asarray(case["_points_np"], dtype=float) + np.asarray(shift, dtype=float)).tolist()]
        else:
            pts = [(F(a) + shift[0], F(b) + shift[1]) for a, b in case["points"]]
        pv = var.get("points")
        pconv = (lambda p: [p[0], p[1]]) if pv == "list" else (lambda p: np.array(p)) if pv == "nparray" else \
            (lambda p: (np.float64(p[0]), np.float64(p[1]))) if pv == "npfloat" else (lambda p: p)
        put("pixel_coordinates", "inv", lambda: [list(map(int, m.geometry.pixel_coordinates_2d_from(
            scaled_coordinates_2d=pconv(p)))) for p in pts[:2000]])
        gv = np.array(pts, dtype=float).reshape((2, 2, 2) if len(pts) == 4 else (-1, 1, 2))
        gk = var.get("grid")
        if gk == "fortran":
            gi = aa.Grid2D.no_mask(values=np.asfortranarray(gv), pixel_scales=1.0)
        elif gk == "list":
            gi = aa.Grid2D.no_mask(values=gv.tolist(), pixel_scales=1.0)
        elif gk == "slim":
            gi = aa.Grid2D.no_mask(values=gv.reshape(-1, 2), shape_native=gv.shape[:2], pixel_scales=1.0)
        elif gk == "other_geometry":  # the query grid's own (irrelevant) geometry is off-origin and anisotropic
            gi = aa.Grid2D.no_mask(values=gv, pixel_scales=(3.0, 0.5), origin=(7.0, -11.0))
        else:
            gi = aa.Grid2D.no_mask(values=gv, pixel_scales=1.0)
        put("grid_pixel_indexes", "inv", lambda: [int(v) for v in np.asarray(
            m.geometry.grid_pixel_indexes_2d_from(grid_scaled_2d=gi))])
        put("grid_pixel_centres", "inv", lambda: np.asarray(
            m.geometry.grid_pixel_centres_2d_from(grid_scaled_2d=gi), dtype=float).reshape(-1, 2).tolist())
        put("grid_pixels", "inv", lambda: np.asarray(
            m.geometry.grid_pixels_2d_from(grid_scaled_2d=gi), dtype=float).reshape(-1, 2).tolist())
        # count-valued: mesh points per image pixel (points = the off-boundary query points)
        if case.get("_mesh_points_np") is not None:
            gm = aa.Grid2DIrregular(values=[tuple(p) for p in (np.asarray(case["_mesh_points_np"], dtype=float)
                                                               + np.asarray(shift, dtype=float)).tolist()])
        elif var.get("mesh_points") == "nparray":
            gm = aa.Grid2DIrregular(values=np.array([(F(a) + shift[0], F(b) + shift[1]) for a, b in case["mesh_points"]]))
        elif var.get("mesh_points") == "lists":
            gm = aa.Grid2DIrregular(values=[[F(a) + shift[0], F(b) + shift[1]] for a, b in case["mesh_points"]])
        else:
            gm = aa.Grid2DIrregular(values=[(F(a) + shift[0], F(b) + shift[1]) for a, b in case["mesh_points"]])
        put("mesh_pixels_per_image_pixels", "inv", lambda: np.asarray(
            aa.image_mesh.Overlay(shape=(3, 3)).mesh_pixels_per_image_pixels_from(mask=m, mesh_grid=gm).native.array,
            dtype=float).ravel().tolist())

        def mg_counts():
            mgr = aa.MapperGrids(mask=m, source_plane_data_grid=g, source_plane_mesh_grid=gm,
                                 image_plane_mesh_grid=gm)
            return np.asarray(mgr.mesh_pixels_per_image_pixels.native.array, dtype=float).ravel().tolist()
        put("mapper_grids_mesh_pixels_per_image_pixels", "inv", mg_counts)
        put("edge_slim", "inv", lambda: [int(v) for v in m.derive_indexes.edge_slim])
        put("border_slim", "inv", lambda: [int(v) for v in m.derive_indexes.border_slim])
        put("sub_border_slim", "inv", lambda: [int(v) for v in aa.BorderRelocator(mask=m, sub_size=sub_arg(True)).sub_border_slim])
        put("pixels_in_mask", "inv", lambda: int(m.pixels_in_mask))
        put("blurring_bits", "inv", lambda: "".join("1" if b else "0" for b in np.asarray(
            m.derive_mask.blurring_from(kernel_shape_native=k)).ravel()))
        put("resized_bits", "inv", lambda: "".join("1" if b else "0" for b in np.asarray(
            m.resized_from(new_shape=tuple(case["resize_to"]), **rkw)).ravel()))
        if case.get("r5"):
            put("mask_bits", "inv", lambda: "".join("1" if b else "0" for b in np.asarray(m.array, dtype=bool).ravel()))
        if case.get("r5") and case.get("records", True):

            # derived masks re-pass the pixel scales and the origin of the parent (anchors: mask/derive/mask_2d.py,
            # Mask2D.rescaled_from): their own geometry is a coordinate-valued result too
            def mrec(z):
                return {"origin": list(map(float, z.origin)), "shape": list(z.shape_native),
                        "bits": "".join("1" if b else "0" for b in np.asarray(z.array, dtype=bool).ravel()),
                        "extent": list(map(float, z.geometry.extent)),
                        "grid": grid(aa.Grid2D.from_mask(mask=z)) if z.pixels_in_mask > 0 else []}
            put("dm_all_false", "coordrec", lambda: mrec(m.derive_mask.all_false))
            put("dm_edge", "coordrec", lambda: mrec(m.derive_mask.edge))
            put("dm_edge_buffed", "coordrec", lambda: mrec(m.derive_mask.edge_buffed))
            put("dm_border", "coordrec", lambda: mrec(m.derive_mask.border))
            put("dm_blurring", "coordrec", lambda: mrec(m.derive_mask.blurring_from(kernel_shape_native=k)))
            put("dm_rescaled", "coordrec", lambda: mrec(m.rescaled_from(rescale_factor=2.0)))
            # Grid2D.subtracted_from (anchor uniform_2d.py:667): the grid AND its mask move by -offset; the offset is
            # the same vector at both origins, in a third of the cases exactly the origin of one side (the moved mask
            # then sits at exactly (0.0, 0.0))
            off = self._offset(case)
            if off is not None:
                def sub_rec():
                    gs = g.subtracted_from(offset=off)
                    r = mrec(gs.mask)
                    r["values_grid"] = grid(gs)
                    r["offset_q"] = [q(off[0]), q(off[1])]
                    return r
                put("subtracted", "coordrec", sub_rec)
                if opts.get("from_mask_os"):
                    put("subtracted_over_sampled", "coord",
                        lambda: grid(g.subtracted_from(offset=off).over_sampler.over_sampled_grid))
        return out

    @staticmethod
    def _offset(case):
        mode = case.get("offset_mode")
        if mode is None:
            return None
        o = (F(case["origin"][0]), F(case["origin"][1]))
        if mode == "origin":
            return o
        if mode == "origin_d":
            return (o[0] + F(case["shift"][0]), o[1] + F(case["shift"][1]))
        return (F(case["offset"][0]), F(case["offset"][1]))

    def _entries_dataset(self, aa, case, origin, shift):
        m = self._mask(aa, case, origin)
        ps = m.pixel_scales
        h, w = m.shape_native
        rs = np.random.RandomState(case["seed"])
        data_v = np.round(rs.uniform(1, 9, size=(h, w)) * 8) / 8
        noise_v = np.round(rs.uniform(1, 3, size=(h, w)) * 8) / 8
        out = {}

        def grid(g):
            return np.asarray(g.array if hasattr(g, "array") else g, dtype=float).reshape(-1, 2).tolist()

        def put(name, kind, fn):
            try:
                out[name] = {"kind": kind, "value": fn()}
            except Exception as e:
                out[name] = {"kind": kind, "value": None, "err": type(e).__name__}

        var = self._variant(case)
        r5 = bool(case.get("r5"))

        def conv(v):
            # equal-valued containers / layouts of the caller's data arrays (round-5 class C)
            dv = var.get("data")
            if dv == "fortran":
                return np.asfortranarray(v)
            if dv == "list":
                return v.tolist()
            if dv == "f32":  # multiples of 1/8 below 16: exact in float32
                return v.astype(np.float32)
            if dv == "readonly":
                v = v.copy()
                v.flags.writeable = False
                return v
            if dv == "tview":
                return np.ascontiguousarray(v.T).T
            return v

        def ds():
            if var.get("data") == "slim":
                data = aa.Array2D.no_mask(values=data_v.ravel(), shape_native=(h, w), pixel_scales=ps, origin=origin)
                noise = aa.Array2D.no_mask(values=noise_v.ravel().tolist(), shape_native=(h, w), pixel_scales=ps,
                                           origin=origin)
            else:
                data = aa.Array2D.no_mask(values=conv(data_v), pixel_scales=ps, origin=origin)
                noise = aa.Array2D.no_mask(values=conv(noise_v), pixel_scales=ps, origin=origin)
            psf = aa.Kernel2D.no_mask(values=conv(np.ones((3, 3)) / 9.0) if var.get("data") in ("fortran", "list", "tview")
                                      else np.ones((3, 3)) / 9.0, pixel_scales=ps)
            return aa.Imaging(data=data, noise_map=noise, psf=psf)

        def rec(d):
            r = {"data_origin": list(map(float, d.data.mask.origin)),
                 "noise_origin": list(map(float, d.noise_map.mask.origin)),
                 "shape": list(d.data.shape_native),
                 "grid": grid(d.grids.uniform),
                 "data": np.asarray(d.data.native.array, dtype=float).ravel().tolist()}
            if r5:  # for the model: the mask the returned data sits on, and the noise map's own grid
                r["bits"] = "".join("1" if b else "0" for b in np.asarray(d.data.mask.array, dtype=bool).ravel())
                r["noise_grid"] = grid(aa.Grid2D.from_mask(mask=d.noise_map.mask))
                r["noise_shape"] = list(d.noise_map.shape_native)
                r["noise_bits"] = "".join("1" if b else "0" for b in np.asarray(d.noise_map.mask.array, dtype=bool).ravel())
            return r
        put("apply_mask", "dsrec", lambda: rec(ds().apply_mask(mask=m)))
        put("apply_noise_scaling", "dsrec", lambda: rec(ds().apply_noise_scaling(mask=m)))
        put("apply_over_sampling", "dsrec", lambda: rec(ds().apply_mask(mask=m).apply_over_sampling(
            over_sampling=aa.OverSamplingDataset(uniform=aa.OverSamplingUniform(sub_size=2)))))
        put("trimmed", "dsrec", lambda: rec(ds().trimmed_after_convolution_from(kernel_shape=(3, 3))))

        def sim():
            s = aa.SimulatorImaging(exposure_time=100.0, add_poisson_noise_to_data=False,
                                    include_poisson_noise_in_noise_map=bool(case["seed"] % 2),
                                    psf=aa.Kernel2D.no_mask(values=np.ones((3, 3)) / 9.0, pixel_scales=ps),
                                    noise_seed=1)
            return rec(s.via_image_from(image=ds().data))
        put("simulator", "dsrec", sim)

        def s2n():
            from autoarray.dataset import preprocess
            d = ds()
            r = preprocess.noise_map_with_signal_to_noise_limit_from(
                data=d.data, noise_map=d.noise_map, signal_to_noise_limit=2.0)
            o_ = {"origin": list(map(float, r.mask.origin)), "shape": list(r.shape_native),
                  "grid": grid(aa.Grid2D.from_mask(mask=r.mask)),
                  "values": np.asarray(r.native.array, dtype=float).ravel().tolist()}
            if r5:
                o_["bits"] = "".join("1" if b else "0" for b in np.asarray(r.mask.array, dtype=bool).ravel())
            return o_
        put("s2n_limit_noise_map", "coordrec", s2n)
        return out

    def _entries_mapper(self, aa, case, origin, shift):
        m = self._mask(aa, case, origin)
        sub = case["sub"]
        rs = np.random.RandomState(case["seed"])
        out = {}
        os_ = aa.OverSamplerUniform(mask=m, sub_size=sub)
        base = np.asarray(os_.over_sampled_grid.array, dtype=float)
        # a smooth distortion of the *relative* coordinates (in units of the case's decade, 1 for the ordinary
        # streams: division / multiplication by a power of two is exact), then translated with the origin
        u = self._unit(case)
        rel = (base - np.array(origin)) / u
        a, b = np.round(rs.uniform(-0.2, 0.2, 2) * 16) / 16
        src_rel = np.stack([rel[:, 0] * (1 + a) + 0.125 * rel[:, 1] ** 2, rel[:, 1] * (1 + b) - 0.25 * rel[:, 0] * rel[:, 1]], axis=1)
        src_rel = src_rel * u
        src = aa.Grid2DIrregular(values=src_rel + np.array(origin))

        def put(name, kind, fn):
            try:
                out[name] = {"kind": kind, "value": fn()}
            except Exception as e:
                out[name] = {"kind": kind, "value": None, "err": type(e).__name__, "msg": str(e)[:200]}

        def rect():
            mesh = aa.Mesh2DRectangular.overlay_grid(grid=src, shape_native=tuple(case["mesh"]))
            mg = aa.MapperGrids(mask=m, source_plane_data_grid=src, source_plane_mesh_grid=mesh)
            mp = aa.MapperRectangular(mapper_grids=mg, over_sampler=os_, border_relocator=None, regularization=None)
            return {"src": [[q(a), q(b)] for a, b in np.asarray(src.array, dtype=float)],
                    "mesh_origin": [q(mesh.origin[0]), q(mesh.origin[1])],
                    "mesh_scales_q": [q(mesh.pixel_scales[0]), q(mesh.pixel_scales[1])],
                    "mesh_scales": [float(mesh.pixel_scales[0]), float(mesh.pixel_scales[1])],
                    "pix_indexes": np.asarray(mp.pix_indexes_for_sub_slim_index).astype(int).tolist(),
                    "mapping_matrix": np.asarray(mp.mapping_matrix, dtype=float).tolist(),
                    "mesh_origin_rel": [float(mesh.origin[0] - origin[0]), float(mesh.origin[1] - origin[1])]}
        put("mapper_rectangular", "inv", rect)
        if case.get("no_delaunay"):
            return out

        def dela():
            nv = int(case.get("nv", 7))
            # vertices on a 1/64 lattice (exact translations); thousands of vertices (large stream) would collide /
            # be cocircular on that lattice (Qhull tie-breaking is origin dependent, cf. D10h): finer lattice there
            res = 64 if nv <= 50 else 2 ** 30
            vr = np.round(rs.uniform(-1, 1, size=(nv, 2)) * res) / res
            ext = np.abs(src_rel).max(axis=0) * 1.2 + 0.1 * u
            verts = vr * ext + np.array(origin)
            mesh = aa.Mesh2DDelaunay(values=verts)
            mg = aa.MapperGrids(mask=m, source_plane_data_grid=src, source_plane_mesh_grid=mesh)
            mp = aa.MapperDelaunay(mapper_grids=mg, over_sampler=os_, border_relocator=None, regularization=None)
            return {"mapping_matrix": np.asarray(mp.mapping_matrix, dtype=float).tolist()}
        put("mapper_delaunay", "inv", dela)
        return out

    def _entries_hilbert(self, aa, case, origin, shift):
        n = case["n"]
        n2 = int(case.get("n2", n))
        s = F(case["scale"])
        m = aa.Mask2D.circular(shape_native=(n, n2), radius=F(case["radius"]), pixel_scales=s, origin=origin)
        yy, xx = np.mgrid[0:n, 0:n2]
        img = 1.0 + 0.25 * yy + 0.5 * xx
        if case["masked_adapt"]:
            adapt = aa.Array2D(values=img, mask=m)
        else:
            adapt = aa.Array2D.no_mask(values=img, pixel_scales=s, origin=origin)
        ho = case.get("hb_opts") or {}  # crossed options (round-5 class F), incl. "set but falsy" values
        hb = aa.image_mesh.Hilbert(pixels=case["pixels"], weight_floor=ho.get("weight_floor", 0.1),
                                   weight_power=ho.get("weight_power", 1.0))
        out = {}
        settings = None
        if case.get("settings_checks"):
            # the optional checks count mesh points per image pixel: a count-valued intermediate
            settings = aa.SettingsInversion(image_mesh_min_mesh_pixels_per_pixel=ho.get("min_per_pixel", 0),
                                            image_mesh_min_mesh_number=ho.get("min_number", 1),
                                            image_mesh_adapt_background_percent_threshold=ho.get("background", None))
        try:
            g = hb.image_plane_mesh_grid_from(mask=m, adapt_data=adapt, settings=settings)
            out["hilbert_mesh"] = {"kind": "coord", "value": np.asarray(g.array, dtype=float).reshape(-1, 2).tolist()}
        except Exception as e:
            out["hilbert_mesh"] = {"kind": "coord", "value": None, "err": type(e).__name__, "msg": str(e)[:200]}
        return out

    def run_impl(self, case):
        aa = load_autoarray()
        if case.get("group") == "history":
            return self._run_history(aa, case)
        o = (F(case["origin"][0]), F(case["origin"][1]))
        d = (F(case["shift"][0]), F(case["shift"][1]))
        od = (o[0] + d[0], o[1] + d[1])
        fn = {"geometry": self._entries_geometry, "dataset": self._entries_dataset,
              "mapper": self._entries_mapper, "hilbert": self._entries_hilbert,
              "dsopts": self._entries_dsopts}[case["group"]]
        if case.get("large"):
            full_case = self._expand_large(case)
            full = {"at_o": fn(aa, full_case, o, (0.0, 0.0)), "at_od": fn(aa, full_case, od, d)}
            return self._summarise_large(full_case, full, np.array(d))
        try:
            self._side = "o"
            at_o = fn(aa, case, o, (0.0, 0.0))
            self._side = "od"
            at_od = fn(aa, case, od, d)
        finally:
            self._side = "o"
        return {"at_o": at_o, "at_od": at_od}

    # ------------------------------------------------------------------ large stream (DESIGN §13, size-gated paths)
    # A large case is a compact RECIPE (shape, mask family, counts, seed): the mask / point arrays are expanded
    # deterministically at run time, so replay files and evidence stay small.  No model comparison
    # (`model_requests` returns []): the oracle alone judges, by the metamorphic relation `_relation` evaluated
    # with numpy on the full arrays inside run_impl; the observation keeps a per-entry summary and the verdict.
    LARGE_BUDGET_S = 36.0

    @staticmethod
    def _large_mask(rec):
        h, w = rec["shape"]
        mg = int(rec.get("margin", 2))
        yy, xx = np.mgrid[0:h, 0:w]
        holes = ((yy * 7 + xx * 3) % 13 == 0)
        if rec["family"] == "count":
            # exactly rec["unmasked"] unmasked pixels: inner region in row-major order, leaving the hole pattern out
            inner = np.zeros((h, w), dtype=bool)
            inner[mg:h - mg, mg:w - mg] = True
            cand = np.flatnonzero((inner & ~holes).ravel())
            m = np.ones(h * w, dtype=bool)
            m[cand[: int(rec["unmasked"])]] = False
            return m.reshape(h, w)
        if rec["family"] == "block":
            # small block with odd spans (overlay meshes then have no point on a pixel boundary), one hole inside
            m = np.ones((h, w), dtype=bool)
            y0, x0, bh, bw = rec["block"]
            m[y0:y0 + bh, x0:x0 + bw] = False
            if bh >= 3 and bw >= 3:
                m[y0 + 1, x0 + bw // 2] = True
            return m
        # "blob": off-centre elliptical annulus with a hole pattern, about rec["unmasked"] unmasked pixels
        n = max(4.0, float(rec.get("unmasked", 600)))
        b = (n / (np.pi * 0.8 * 0.8775 * 0.92)) ** 0.5
        a = 0.8 * b
        a = max(1.5, min(a, h / 2.0 - mg - 2.5))
        b = max(1.5, min(b, w / 2.0 - mg - 3.0))
        cy, cx = h / 2.0 - 1.5, w / 2.0 + 2.0
        if h < 12 or w < 12:
            cy, cx = h / 2.0 - 0.5, w / 2.0
        r = np.hypot((yy - cy) / a, (xx - cx) / b)
        m = (r > 1.0) | (r < 0.35) | holes
        if mg:
            m[:mg] = True
            m[-mg:] = True
            m[:, :mg] = True
            m[:, -mg:] = True
        if m.all():
            m[h // 2, w // 2] = False
        return m

    def _expand_large(self, case):
        c = dict(case)
        rec = case.get("recipe")
        if rec is None:
            return c
        m = self._large_mask(rec)
        h, w = m.shape
        c["_mask_np"] = m
        c["mask"] = {"h": h, "w": w, "bits": None}
        if case["group"] == "geometry":
            sy, sx = F(case["scales"][0]), F(case["scales"][1])
            oy, ox = F(case["origin"][0]), F(case["origin"][1])
            rs = np.random.RandomState(int(rec.get("seed", 0)) % (2 ** 31))

            def points(n):
                # strictly inside the frame and off every pixel boundary (quarter / half / three-quarter positions:
                # exact doubles for the dyadic scales used)
                i, j = rs.randint(0, h, n), rs.randint(0, w, n)
                fi, fj = rs.choice([0.25, 0.5, 0.75], n), rs.choice([0.25, 0.5, 0.75], n)
                return np.stack([oy + (h / 2.0 - (i + fi)) * sy, ox + ((j + fj) - w / 2.0) * sx], axis=1)
            c["_points_np"] = points(int(rec.get("n_points", 4)))
            c["_mesh_points_np"] = points(int(rec.get("n_mesh_points", 6)))
        return c

    def _summarise_large(self, case, full, d):
        holds, detail = self._relation(case, full["at_o"], full["at_od"], d)
        import hashlib
        import json as _json
        ent = {}
        for name, e0 in full["at_o"].items():
            e1 = full["at_od"].get(name, {})

            def head(v):
                if isinstance(v, dict):
                    return {k: head(x) for k, x in v.items() if k not in ("src",)}
                if isinstance(v, list):
                    return v[:2] if not (v and isinstance(v[0], list) and len(v[0]) > 6) else [r[:4] for r in v[:2]]
                if isinstance(v, str):
                    return v[:40]
                return v

            def size(v):
                if isinstance(v, dict):
                    return {k: size(x) for k, x in v.items()}
                return len(v) if isinstance(v, (list, str)) else 1
            ent[name] = {"kind": e0["kind"], "err_o": e0.get("err"), "err_od": e1.get("err"),
                         "size_o": size(e0.get("value")), "size_od": size(e1.get("value")),
                         "head_o": head(e0.get("value")), "head_od": head(e1.get("value"))}
        sha = hashlib.sha1(_json.dumps(full, sort_keys=True, default=str).encode()).hexdigest()[:16]
        return {"large": True, "unmasked": int((~case["_mask_np"]).sum()) if case.get("_mask_np") is not None else None,
                "entries": ent, "sha": sha, "relation": {"holds": bool(holds), "detail": detail}}

    @staticmethod
    def _factor(t, odd=False, min_side=3, max_aspect=8):
        """(h, w), h <= w, h*w == t, h != w preferred (non-square), both odd if `odd`; None when t has no such
        factorisation"""
        best = None
        h = int(t ** 0.5)
        while h >= min_side:
            if t % h == 0:
                w = t // h
                if w > max_aspect * h:
                    break
                if not (odd and (h % 2 == 0 or w % 2 == 0)):
                    if h != w:
                        return (h, w)
                    best = best or (h, w)
            h -= 1
        return best

    def _shape_for(self, t, how, odd=False, min_side=3):
        """frame / kernel / mesh shape whose pixel count is t exactly (`how`="eq"; None if t has no usable
        factorisation), the largest such count <= t ("le") or the smallest >= t ("ge")"""
        if how == "eq":
            return self._factor(t, odd, min_side)
        step = -1 if how == "le" else 1
        for k in range(0, max(40, t // 20)):
            tt = t + step * k
            if tt < min_side * min_side:
                break
            f = self._factor(tt, odd, min_side)
            if f:
                return f
        return None

    @staticmethod
    def _large_sizes(c):
        """(size, how): a non-multiple above the constant, just above, at, just below, 2c+1"""
        return [(c + c // 3 + 1, "ge"), (c + 1, "ge"), (c, "eq"), (c - 1, "le"), (2 * c + 1, "ge")]

    def generate_large(self, hints, rng):
        """cases whose sizes straddle each new integer constant of the anchored source, in every size dimension
        C12's code loops over: frame pixels H*W (non-square), unmasked pixels, total sub-pixels (uniform sub size
        and per-pixel sub-size maps), kernel pixels (padded / blurring footprint), query points and mesh points,
        resized frame, overlay image-mesh pixels, rectangular-mesh pixels / Delaunay vertices, data sub-pixels of a
        mapper, dataset frames, Hilbert frame / mesh pixels.  All with anisotropic scales, an origin and a shift
        with both components non-zero.  Bounded by an estimated cost (pure Python loops: ~1.5e-5 s per frame
        pixel + ~1.4e-4 s per unmasked pixel and origin): hints too large for the budget are skipped."""
        hints = [int(c) for c in hints if 8 <= int(c)]
        if not hints:
            return
        per_hint = self.LARGE_BUDGET_S / len(hints)
        # sizes in order of value (above the constant first: those are the ones a gated path takes; "at" and
        # "below" locate the boundary), dimensions in order of how often a gate is written on them; a case whose
        # estimated cost does not fit what is left of the hint's share is skipped (so infeasible sizes drop out)
        dims = ("frame", "unmasked", "sub_pixels", "ds_frame", "kernel", "points", "mesh", "overlay", "resize",
                "mapper_sub", "sub_map", "hilbert_frame", "hilbert_pixels", "ds_unmasked")
        for c in sorted(hints):
            spent = 0.0
            for k_size in (0, 1, 2, 4, 3):
                for dim in dims:
                    t, how = self._large_sizes(c)[k_size]
                    case, cost = self._large_case(dim, c, t, how, rng)
                    if case is None or cost > 0.3 * per_hint or spent + cost > per_hint:
                        continue
                    spent += cost
                    yield case

    def _large_common(self, rng):
        sy, sx = gen.scales_pair(rng)
        while sx == sy:
            sy, sx = gen.scales_pair(rng)
        oy, ox = gen.origin_pair(rng)
        oy = oy or Fraction(3, 8)
        ox = ox or Fraction(-5, 4)
        dy, dx = gen.dyadic(rng, -3, 3, 2), gen.dyadic(rng, -3, 3, 2)
        dy = dy or Fraction(9, 4)
        dx = dx or Fraction(-7, 2)
        return {"scales": [q(sy), q(sx)], "origin": [q(oy), q(ox)], "shift": [q(dy), q(dx)], "large": True}

    def _large_case(self, dim, c, t, how, rng):
        """(case, estimated cost in s) or (None, 0)"""
        def cost(frame, unmasked, sub=2):
            return 0.1 + 2 * (1.5e-5 * frame + 2.0e-4 * unmasked * (1 + sub * sub / 20.0) * (1 + unmasked / 60000.0))

        def flip(hw):
            return [hw[1], hw[0]] if rng.random() < 0.5 else [hw[0], hw[1]]
        base = self._large_common(rng)
        base["hint"] = c
        base["dim"] = dim
        seed = rng.randint(0, 10 ** 6)
        geo = {"group": "geometry", "sub": rng.randint(2, 3), "kernel": [3, 5] if rng.random() < 0.5 else [5, 3],
               "overlay": None, "angle": rng.choice([0, 30, 45, 90, 120])}
        if dim == "frame":
            hw = self._shape_for(t, how, min_side=7)
            if not hw:
                return None, 0
            hw = flip(hw)
            un = min(1200, max(6, hw[0] * hw[1] // 5))
            rec = {"family": "blob", "shape": hw, "unmasked": un, "margin": 2, "seed": seed}
            case = {**base, **geo, "tag": "large_frame", "recipe": rec,
                    "resize_to": [hw[0] + rng.choice([-2, 2, 3]), hw[1] + rng.choice([-2, 1, 2])]}
            return case, cost(hw[0] * hw[1], un, geo["sub"])
        if dim in ("unmasked", "sub_pixels", "sub_map"):
            sub = geo["sub"]
            runs = None
            if dim == "unmasked":
                n = t
            elif dim == "sub_pixels":
                # uniform sub size: unmasked * sub^2 straddles t (exactly t when sub^2 divides it)
                sub = rng.choice([s_ for s_ in (2, 3, 4) if t % (s_ * s_) == 0] or [2])
                n = -(-t // (sub * sub)) if how == "ge" else t // (sub * sub)
                if how == "eq" and n * sub * sub != t:
                    return None, 0
            else:
                # per-pixel sub sizes (odd and even mixed) whose squares sum to exactly t: 9a + 4b + 25e + 1*rest
                a = t // 27
                e = t // 100
                b = (t - 9 * a - 25 * e) // 8
                rest = t - 9 * a - 4 * b - 25 * e
                runs = [[a, 3], [b, 2], [e, 5], [rest, 1]]
                n = a + b + e + rest
            if n < 2:
                return None, 0
            inner = int(n * 13 / 12 * 1.08) + 8
            hw = self._shape_for(max(25, inner), "ge", min_side=4)
            hw = flip([hw[0] + 4, hw[1] + 4])
            rec = {"family": "count", "shape": hw, "unmasked": n, "margin": 2, "seed": seed}
            case = {**base, **geo, "sub": sub, "tag": f"large_{dim}", "recipe": rec,
                    "resize_to": [hw[0] + 2, hw[1] + 3]}
            if runs:
                case["sub_runs"] = runs
            return case, cost(hw[0] * hw[1], n, sub) + (1.0e-5 * t if runs else 0)
        if dim == "kernel":
            k = self._shape_for(t, "le" if how in ("le", "eq") else "ge", odd=True, min_side=3)
            if not k:
                return None, 0
            k = flip(k)
            hw = [k[0] + 6, k[1] + 7]
            rec = {"family": "block", "shape": hw, "block": [hw[0] // 2 - 1, hw[1] // 2 - 1, 3, 3], "seed": seed}
            case = {**base, **geo, "kernel": k, "tag": "large_kernel", "recipe": rec,
                    "resize_to": [hw[0] + 2, hw[1] + 1]}
            return case, cost(hw[0] * hw[1] * 2, 8) + 1e-5 * t * 8
        if dim == "points":
            hw = flip([9, 11])
            rec = {"family": "blob", "shape": hw, "unmasked": 30, "margin": 1, "seed": seed, "n_points": t,
                   "n_mesh_points": t + 2}
            case = {**base, **geo, "kernel": [3, 3], "tag": "large_points", "recipe": rec, "resize_to": [11, 12]}
            return case, 0.1 + 2 * 2.0e-5 * t
        if dim == "resize":
            hw2 = self._shape_for(t, how, min_side=5)
            if not hw2:
                return None, 0
            hw = flip([9, 12])
            rec = {"family": "blob", "shape": hw, "unmasked": 30, "margin": 1, "seed": seed}
            case = {**base, **geo, "kernel": [3, 3], "tag": "large_resize", "recipe": rec, "resize_to": flip(hw2)}
            return case, 0.05 + 2 * 0.5e-5 * t
        if dim == "overlay":
            ov = self._shape_for(t, how, min_side=2)
            if not ov:
                return None, 0
            hw = [13, 14]
            rec = {"family": "block", "shape": hw, "block": [2, 3, 7, 9], "seed": seed}
            case = {**base, **geo, "kernel": [3, 3], "overlay": flip(ov), "tag": "large_overlay", "recipe": rec,
                    "resize_to": [15, 15]}
            return case, 0.1 + 2 * 1.0e-5 * t
        if dim == "mesh":
            ms = self._shape_for(t, how, min_side=2)
            if not ms or t > 60000:
                return None, 0
            hw = flip([7, 8])
            rec = {"family": "blob", "shape": hw, "unmasked": 14, "margin": 1, "seed": seed}
            case = {**base, "group": "mapper", "tag": "large_mesh", "recipe": rec, "sub": rng.randint(1, 2),
                    "mesh": flip(ms), "nv": t, "seed": seed}
            return case, 0.1 + 2 * 2.0e-5 * t
        if dim == "mapper_sub":
            sub = rng.choice([2, 3])
            n = -(-t // (sub * sub)) if how == "ge" else t // (sub * sub)
            if n < 2 or (how == "eq" and n * sub * sub != t) or t > 60000:
                return None, 0
            inner = int(n * 13 / 12 * 1.08) + 8
            hw = self._shape_for(max(25, inner), "ge", min_side=4)
            hw = flip([hw[0] + 2, hw[1] + 2])
            rec = {"family": "count", "shape": hw, "unmasked": n, "margin": 1, "seed": seed}
            case = {**base, "group": "mapper", "tag": "large_mapper_sub", "recipe": rec, "sub": sub,
                    "mesh": [rng.randint(3, 4), rng.randint(3, 5)], "seed": seed}
            return case, 0.1 + 2 * 4.0e-5 * t
        if dim in ("ds_frame", "ds_unmasked"):
            if dim == "ds_frame":
                hw = self._shape_for(t, how, min_side=7)
                if not hw:
                    return None, 0
                hw = flip(hw)
                un = min(400, max(6, hw[0] * hw[1] // 6))
                rec = {"family": "blob", "shape": hw, "unmasked": un, "margin": 2, "seed": seed}
            else:
                un = t
                inner = int(un * 13 / 12 * 1.08) + 8
                hw = self._shape_for(max(25, inner), "ge", min_side=4)
                hw = flip([hw[0] + 4, hw[1] + 4])
                rec = {"family": "count", "shape": hw, "unmasked": un, "margin": 2, "seed": seed}
            case = {**base, "group": "dataset", "tag": f"large_{dim}", "recipe": rec, "seed": seed}
            return case, 0.2 + 2 * (6.0e-5 * hw[0] * hw[1] + 2.5e-4 * un)
        if dim in ("hilbert_frame", "hilbert_pixels"):
            s = rng.choice([Fraction(1, 4), Fraction(1, 2)])
            if dim == "hilbert_frame":
                # square frames only: the Hilbert curve grid of `image_and_grid_from` is defined for square frames
                # (a non-square frame raises ValueError inside scipy's griddata on the unchanged tree)
                import math
                n = math.isqrt(t)
                if how == "ge" and n * n < t:
                    n += 1
                if how == "eq" and n * n != t:
                    return None, 0
                n2 = n
                if n < 15 or t > 40000:
                    return None, 0
                px = rng.randint(8, 20)
            else:
                n, n2, px = 21, 21, t
                if t > 20000:
                    return None, 0
            case = {"tag": f"large_{dim}", "group": "hilbert", "large": True, "hint": c, "dim": dim,
                    "n": n, "n2": n2, "scale": q(s), "radius": q(s * (min(n, n2) // 2 - 2)),
                    "origin": base["origin"], "shift": base["shift"], "pixels": px, "masked_adapt": False,
                    "settings_checks": bool(seed % 2)}
            return case, 0.3 + 2 * (4.0e-5 * n * n2 + 3.0e-5 * px)
        return None, 0

    # ------------------------------------------------------------------ history stream (DESIGN §13, reuse histories)
    # A history case runs a short typed script on REAL reused library objects (`_Session`, persist=True): one
    # Mask2D / Grid2D / OverSamplerUniform / BorderRelocator / Imaging per world kept for the whole history,
    # configuration objects (OverSamplingUniform, OverSamplingDataset, Kernel2D psf, image_mesh.Overlay,
    # SimulatorImaging, the caller's numpy arrays) shared between the worlds named in case["share"].  Every
    # observation is compared with (1) the same entries of FRESHLY built objects in that world's current state
    # (oracle), (2) numpy closed forms of the pixel-centre / sub-pixel grids (oracle), (3) the translation
    # relation against every other observation of the same mask content at another origin (oracle), (4) the Lean
    # model's `c12.entries` value for that state (correspondence).
    HIST_GEOM = ["from_mask", "all_false", "unmasked", "edge", "border", "blurring", "padded", "over_sampled",
                 "over_sampled_cfg", "over_sampled_cfg2", "border_sub_grid", "sub_border_grid", "mask_centre",
                 "extent", "scaled_minmax", "zoom_mask_unmasked", "zoomed_around_mask", "resized",
                 "radial_projected", "overlay_mesh", "pixel_coordinates", "grid_pixel_indexes",
                 "grid_pixel_centres", "grid_pixels", "mesh_pixels_per_image_pixels", "edge_slim", "border_slim",
                 "sub_border_slim", "pixels_in_mask", "blurring_bits", "resized_bits"]
    HIST_DS = ["ds_uniform", "ds_uniform_os", "ds_pix_os", "ds_pixelization", "ds_blurring",
               "ds_relocator_sub_grid", "ds_origins", "simulator"]
    HIST_MAPPER = ["mapper_rectangular", "mapper_delaunay"]
    # history entry -> model entry of `c12.entries`
    HIST_MODEL = {"over_sampled_cfg": "over_sampled", "over_sampled_cfg2": "over_sampled",
                  "ds_uniform": "from_mask", "ds_pixelization": "from_mask", "ds_uniform_os": "over_sampled",
                  "ds_relocator_sub_grid": None, "ds_blurring": "blurring"}
    HIST_TABLES = ["edge_slim", "border_slim", "blurring_bits", "resized_bits", "zoom_mask_unmasked",
                   "zoomed_around_mask"]
    SHARE_KINDS = ["os_uniform", "os_dataset", "psf", "overlay", "overlay33", "simulator", "mask_array",
                   "data_arrays"]
    FAULTS = ["blurring_too_big", "blurring_mask_too_big", "setitem_oob", "apply_mask_wrong_shape",
              "sampler_bad_mask", "sampler_wrong_sub", "pixel_indexes_bad_grid", "overlay_all_masked",
              "resized_bad", "relocator_bad_grid", "array_wrong_length", "user_func_raises"]

    class _Session:
        def __init__(self, chk, aa, case, worlds, persist):
            self.chk, self.aa, self.case, self.persist = chk, aa, case, persist
            self.worlds = worlds  # [{"arr": bool array (current content), "scales": (sy, sx), "origin": (oy, ox), ...}]
            self.share = set(case.get("share", [])) if persist else set()
            self.cfgs, self.arrays = {}, {}
            self.objs = [dict() for _ in worlds]
            # ownership histories (round-5 class B): every object the API handed out is kept, so that it can be
            # scribbled over in place afterwards
            self.raw = [] if (persist and case.get("keep_raw")) else None
            h, w = worlds[0]["arr"].shape
            rs = np.random.RandomState(int(case["seed"]) % (2 ** 31))
            self.data_v = np.round(rs.uniform(1, 9, size=(h, w)) * 8) / 8
            self.noise_v = np.round(rs.uniform(1, 3, size=(h, w)) * 8) / 8
            self.psf_v = np.array([[1.0, 2.0, 1.0], [0.0, 4.0, 2.0], [1.0, 3.0, 2.0]]) / 16.0

        # -- configuration objects (carry no geometry: shared between worlds when listed in case["share"])
        def cfg(self, kind):
            if kind in self.share and kind in self.cfgs:
                return self.cfgs[kind]
            aa, c = self.aa, self.case
            if kind == "os_uniform":
                o = aa.OverSamplingUniform(sub_size=c["sub"])
            elif kind == "os_pix":
                o = aa.OverSamplingUniform(sub_size=c["sub_pix"])
            elif kind == "os_dataset":
                o = aa.OverSamplingDataset(uniform=self.cfg("os_uniform"), pixelization=self.cfg("os_pix"))
            elif kind == "psf":
                o = aa.Kernel2D.no_mask(values=self.psf_v.copy(), pixel_scales=self.worlds[0]["scales"])
            elif kind == "overlay":
                o = aa.image_mesh.Overlay(shape=tuple(c["overlay"]))
            elif kind == "overlay33":
                o = aa.image_mesh.Overlay(shape=(3, 3))
            elif kind == "simulator":
                o = aa.SimulatorImaging(exposure_time=100.0, add_poisson_noise_to_data=False,
                                        include_poisson_noise_in_noise_map=bool(c["seed"] % 2),
                                        psf=self.cfg("psf"), noise_seed=1)
            else:
                raise KeyError(kind)
            if kind in self.share:
                self.cfgs[kind] = o
            return o

        def _caller_array(self, name, a):
            """the caller-owned numpy array handed to a constructor: one object reused for every world with the
            same content when shared, else a private copy; read-only when the case says so"""
            if name in self.share:
                key = (name, a.shape, a.tobytes())
                if key not in self.arrays:
                    b = a.copy()
                    if self.case.get("ro_arrays"):
                        b.flags.writeable = False
                    self.arrays[key] = b
                return self.arrays[key]
            b = a.copy()
            if self.case.get("ro_arrays"):
                b.flags.writeable = False
            return b

        # -- per-world objects, kept for the whole history (persist) or rebuilt on every use (fresh)
        def obj(self, wi, kind):
            if self.persist and kind in self.objs[wi]:
                return self.objs[wi][kind]
            aa, c, w = self.aa, self.case, self.worlds[wi]
            if kind == "mask":
                if self.persist and w.get("ctor") == "from_obj":
                    # the user's way of "moving" a mask: a new Mask2D from an existing mask object, new origin
                    o = aa.Mask2D(mask=self.obj(w["from"], "mask"), pixel_scales=w["scales"], origin=w["origin"])
                else:
                    o = aa.Mask2D(mask=self._caller_array("mask_array", w["arr"]), pixel_scales=w["scales"],
                                  origin=w["origin"])
            elif kind == "grid":
                o = aa.Grid2D.from_mask(mask=self.obj(wi, "mask"), over_sampling=self.cfg("os_uniform"))
            elif kind == "sampler":
                o = aa.OverSamplerUniform(mask=self.obj(wi, "mask"), sub_size=c["sub"])
            elif kind == "relocator":
                o = aa.BorderRelocator(mask=self.obj(wi, "mask"), sub_size=c["sub"])
            elif kind == "ds_raw":
                data = aa.Array2D.no_mask(values=self._caller_array("data_arrays", self.data_v),
                                          pixel_scales=w["scales"], origin=w["origin"])
                noise = aa.Array2D.no_mask(values=self._caller_array("data_arrays", self.noise_v),
                                           pixel_scales=w["scales"], origin=w["origin"])
                o = aa.Imaging(data=data, noise_map=noise, psf=self.cfg("psf"))
            elif kind == "ds":
                o = self.obj(wi, "ds_raw").apply_mask(mask=self.obj(wi, "mask")).apply_over_sampling(
                    over_sampling=self.cfg("os_dataset"))
            else:
                raise KeyError(kind)
            if self.persist:
                self.objs[wi][kind] = o
            return o

        def keep(self, x):
            if self.raw is not None and len(self.raw) < 4000:
                self.raw.append(x)
            return x

        def reset(self):
            """forget every object of the session: the next use builds the same world again from fresh, equal inputs"""
            self.cfgs, self.arrays = {}, {}
            self.objs = [dict() for _ in self.worlds]
            if self.raw is not None:
                self.raw = []

        def scribble(self):
            """what a careless caller does: overwrite, in place, every array the API returned or accepted so far
            (floats -> nan, ints += 1, bools inverted) — the returned structures, the arrays behind them, the
            objects of the session and the caller's own input arrays — and run a user function that edits the grid it
            is given in place.  Returns the number of arrays overwritten."""
            seen, count = set(), [0]

            def arr(a):
                try:
                    if not a.flags.writeable or a.size == 0:
                        return
                    if a.dtype.kind in "fc":
                        a[...] = np.nan
                    elif a.dtype.kind == "b":
                        a[...] = ~a
                    elif a.dtype.kind in "iu":
                        a[...] = a + 1
                    else:
                        return
                    count[0] += 1
                except Exception:
                    pass

            def visit(x, depth):
                if x is None or id(x) in seen or depth > 4:
                    return
                seen.add(id(x))
                if isinstance(x, np.ndarray):
                    if isinstance(x.base, np.ndarray):
                        visit(x.base, depth)
                    arr(x)
                    return
                if isinstance(x, (list, tuple)):
                    for y in list(x)[:64]:
                        visit(y, depth + 1)
                    return
                if isinstance(x, dict):
                    for y in list(x.values())[:64]:
                        visit(y, depth + 1)
                    return
                if not (type(x).__module__ or "").startswith("autoarray"):
                    return
                # a library object: its own buffer and what its public attributes / cached public properties hold
                # (private attributes are not the caller's to edit)
                for k_, v in list(getattr(x, "__dict__", {}).items()):
                    if k_ == "_array" or not k_.startswith("_"):
                        visit(v, depth + 1)

            def func(grid_, *a, **k):
                try:
                    g_ = grid_._array if hasattr(grid_, "_array") else grid_
                    g_[...] = np.nan
                except Exception:
                    pass
                return np.zeros(np.asarray(grid_).shape[0])
            for d in self.objs:
                if "grid" in d:
                    try:
                        d["grid"].over_sampler.array_via_func_from(func=func, obj=None)
                    except Exception:
                        pass
            roots = list(self.raw or []) + [o for d in self.objs for o in d.values()] + list(self.cfgs.values()) \
                + list(self.arrays.values()) + [self.data_v, self.noise_v, self.psf_v]
            for r in roots:
                visit(r, 0)
            # the caller's own data for the next world are fresh, equal arrays
            rs = np.random.RandomState(int(self.case["seed"]) % (2 ** 31))
            h, w = self.worlds[0]["arr"].shape
            self.data_v = np.round(rs.uniform(1, 9, size=(h, w)) * 8) / 8
            self.noise_v = np.round(rs.uniform(1, 3, size=(h, w)) * 8) / 8
            self.psf_v = np.array([[1.0, 2.0, 1.0], [0.0, 4.0, 2.0], [1.0, 3.0, 2.0]]) / 16.0
            return count[0]

        def drop_derived(self, wi):
            """after an in-place edit of the world's mask: objects that legitimately keep values computed from the
            old content (a Grid2D's coordinates, cached sub-grids, a masked dataset) are rebuilt from the edited mask"""
            for k in ("grid", "sampler", "relocator", "ds"):
                self.objs[wi].pop(k, None)

        # -- the observable entries
        def entry(self, wi, name):
            aa, c, w = self.aa, self.case, self.worlds[wi]
            o = w["origin"]
            k = tuple(c["kernel"])

            def grid(g):
                self.keep(g)
                a_ = self.keep(np.asarray(g.array if hasattr(g, "array") else g, dtype=float))
                return a_.reshape(-1, 2).tolist()

            def m():
                return self.obj(wi, "mask")

            def bits(x):
                self.keep(x)
                return "".join("1" if b else "0" for b in np.asarray(x).ravel())

            def geomrec(z, values=None):
                r = {"origin": list(map(float, z.origin)), "shape": list(z.shape_native),
                     "grid": grid(aa.Grid2D.from_mask(mask=z)) if z.pixels_in_mask > 0 else []}
                if values is not None:
                    r["values"] = values
                return r

            def pts(key):
                return [(float(Fraction(a)) + o[0], float(Fraction(b)) + o[1]) for a, b in c[key]]

            def gi():
                return aa.Grid2D.no_mask(values=np.array(pts("rel_points"), dtype=float).reshape(2, 2, 2), pixel_scales=1.0)

            def dsrec(d):
                return {"data_origin": list(map(float, d.data.mask.origin)),
                        "noise_origin": list(map(float, d.noise_map.mask.origin)),
                        "shape": list(d.data.shape_native), "grid": grid(d.grids.uniform),
                        "data": np.asarray(d.data.native.array, dtype=float).ravel().tolist()}
            if name == "from_mask":
                return "coord", grid(self.obj(wi, "grid"))
            if name in ("all_false", "unmasked", "edge", "border"):
                return "coord", grid(getattr(m().derive_grid, name))
            if name == "blurring":
                return "coord", grid(aa.Grid2D.blurring_grid_from(mask=m(), kernel_shape_native=k))
            if name == "padded":
                return "coord", grid(self.obj(wi, "grid").padded_grid_from(kernel_shape_native=k))
            if name == "over_sampled":
                return "coord", grid(self.obj(wi, "sampler").over_sampled_grid)
            if name == "over_sampled_cfg":  # through the configuration object carried by the grid
                return "coord", grid(self.obj(wi, "grid").over_sampler.over_sampled_grid)
            if name == "over_sampled_cfg2":
                return "coord", grid(self.cfg("os_uniform").over_sampler_from(mask=m()).over_sampled_grid)
            if name == "border_sub_grid":
                return "coord", grid(self.obj(wi, "relocator").sub_grid)
            if name == "sub_border_grid":
                return "coord", grid(self.obj(wi, "relocator").sub_border_grid)
            if name == "mask_centre":
                return "coord", [list(map(float, m().mask_centre))]
            if name == "extent":
                return "extent", list(map(float, m().geometry.extent))
            if name == "scaled_minmax":
                return "coord", [list(map(float, m().geometry.scaled_minima)), list(map(float, m().geometry.scaled_maxima))]
            if name == "zoom_mask_unmasked":
                return "coordrec", geomrec(m().zoom_mask_unmasked)
            if name == "zoomed_around_mask":
                mm = m()
                a = aa.Array2D(values=np.arange(1.0, mm.shape_native[0] * mm.shape_native[1] + 1).reshape(mm.shape_native), mask=mm)
                z = a.zoomed_around_mask(buffer=1)
                return "coordrec", geomrec(z.mask, np.asarray(z.native.array, dtype=float).ravel().tolist())
            if name == "resized":
                return "coordrec", geomrec(m().resized_from(new_shape=tuple(c["resize_to"])))
            if name == "radial_projected":  # remove_projected_centre not given: the configuration value in force
                return "coord", grid(self.obj(wi, "grid").grid_2d_radial_projected_from(
                    centre=(o[0] + 0.25, o[1] - 0.5), angle=float(c["angle"])))
            if name in ("radial_keep", "radial_drop"):  # explicit argument: the control of a configuration history
                return "coord", grid(self.obj(wi, "grid").grid_2d_radial_projected_from(
                    centre=(o[0] + 0.25, o[1] - 0.5), angle=float(c["angle"]),
                    remove_projected_centre=(name == "radial_drop")))
            if name == "overlay_mesh":
                return "coord", grid(self.cfg("overlay").image_plane_mesh_grid_from(mask=m(), adapt_data=None))
            if name == "pixel_coordinates":
                return "inv", [list(map(int, m().geometry.pixel_coordinates_2d_from(scaled_coordinates_2d=p)))
                               for p in pts("rel_points")]
            if name == "grid_pixel_indexes":
                return "inv", [int(v) for v in np.asarray(m().geometry.grid_pixel_indexes_2d_from(grid_scaled_2d=gi()))]
            if name == "grid_pixel_centres":
                return "inv", np.asarray(m().geometry.grid_pixel_centres_2d_from(grid_scaled_2d=gi()),
                                         dtype=float).reshape(-1, 2).tolist()
            if name == "grid_pixels":
                return "inv", np.asarray(m().geometry.grid_pixels_2d_from(grid_scaled_2d=gi()),
                                         dtype=float).reshape(-1, 2).tolist()
            if name == "mesh_pixels_per_image_pixels":
                gm = aa.Grid2DIrregular(values=pts("rel_mesh_points"))
                return "inv", np.asarray(self.cfg("overlay33").mesh_pixels_per_image_pixels_from(
                    mask=m(), mesh_grid=gm).native.array, dtype=float).ravel().tolist()
            if name == "edge_slim":
                return "inv", [int(v) for v in self.keep(m().derive_indexes.edge_slim)]
            if name == "border_slim":
                return "inv", [int(v) for v in self.keep(m().derive_indexes.border_slim)]
            if name == "sub_border_slim":
                return "inv", [int(v) for v in self.keep(self.obj(wi, "relocator").sub_border_slim)]
            if name == "pixels_in_mask":
                return "inv", int(m().pixels_in_mask)
            if name == "blurring_bits":
                return "inv", bits(m().derive_mask.blurring_from(kernel_shape_native=k))
            if name == "resized_bits":
                return "inv", bits(m().resized_from(new_shape=tuple(c["resize_to"])))
            # datasets (shared caller arrays / psf / OverSamplingDataset)
            if name == "ds_uniform":
                return "coord", grid(self.obj(wi, "ds").grids.uniform)
            if name == "ds_uniform_os":
                return "coord", grid(self.obj(wi, "ds").grids.uniform.over_sampler.over_sampled_grid)
            if name == "ds_pix_os":
                return "coord", grid(self.obj(wi, "ds").grids.over_sampler_pixelization.over_sampled_grid)
            if name == "ds_pixelization":
                return "coord", grid(self.obj(wi, "ds").grids.pixelization)
            if name == "ds_blurring":
                return "coord", grid(self.obj(wi, "ds").grids.blurring)
            if name == "ds_relocator_sub_grid":
                return "coord", grid(self.obj(wi, "ds").grids.border_relocator.sub_grid)
            if name == "ds_origins":
                return "dsrec", dsrec(self.obj(wi, "ds"))
            if name == "simulator":
                img = aa.Array2D.no_mask(values=self._caller_array("data_arrays", self.data_v),
                                         pixel_scales=w["scales"], origin=w["origin"])
                return "dsrec", dsrec(self.cfg("simulator").via_image_from(image=img))
            if name in ("mapper_rectangular", "mapper_delaunay"):
                mcase = {"_mask_np": np.asarray(m().array, dtype=bool).copy(), "scales": [q(w["scales"][0]), q(w["scales"][1])],
                         "sub": min(int(c["sub"]), 2), "mesh": c["mesh"], "seed": c["seed"]}
                e = self.chk._entries_mapper(aa, mcase, o, (0.0, 0.0))[name]
                if e.get("err"):
                    raise RuntimeError(f"{e['err']}: {e.get('msg', '')}")
                return e["kind"], e["value"]
            raise KeyError(name)

        def put(self, wi, name):
            try:
                kind, v = self.entry(wi, name)
                return {"kind": kind, "value": v}
            except Exception as e:
                return {"kind": "?", "value": None, "err": type(e).__name__, "msg": str(e)[:200]}

        # -- decoy reads: every public property of the objects involved, in a seeded order
        def decoy(self, wi, seed):
            import inspect
            import random as _random
            mm = self.obj(wi, "mask")
            objs = [mm, mm.geometry, mm.derive_indexes, mm.derive_mask, mm.derive_grid, self.obj(wi, "grid"),
                    self.obj(wi, "sampler"), self.obj(wi, "relocator")]
            if "ds" in self.objs[wi]:
                objs += [self.objs[wi]["ds"], self.objs[wi]["ds"].grids]
            objs += [v for v in self.cfgs.values()]
            todo = []
            for ob in objs:
                for nm in dir(type(ob)):
                    if nm.startswith("_"):
                        continue
                    a = inspect.getattr_static(type(ob), nm)
                    if isinstance(a, property) or type(a).__name__.lower() in ("cached_property", "cachedproperty"):
                        todo.append((ob, nm))
            _random.Random(seed).shuffle(todo)
            n = 0
            for ob, nm in todo:
                try:
                    getattr(ob, nm)
                    n += 1
                except Exception:
                    pass
            return n

        # -- a documented failure in the middle of the session; the same objects stay in use afterwards
        def fault(self, wi, kind):
            aa = self.aa
            mm = self.obj(wi, "mask")
            h, w = mm.shape_native
            try:
                if kind == "blurring_too_big":
                    aa.Grid2D.blurring_grid_from(mask=mm, kernel_shape_native=(2 * h + 1, 2 * w + 1))
                elif kind == "blurring_mask_too_big":
                    mm.derive_mask.blurring_from(kernel_shape_native=(2 * h + 1, 2 * w + 1))
                elif kind == "setitem_oob":
                    mm[h + 3, 0] = False
                elif kind == "apply_mask_wrong_shape":
                    self.obj(wi, "ds_raw").apply_mask(mask=aa.Mask2D.all_false(
                        shape_native=(h + 1, w + 2), pixel_scales=mm.pixel_scales))
                elif kind == "sampler_bad_mask":
                    self.cfg("os_uniform").over_sampler_from(mask=None).over_sampled_grid
                elif kind == "sampler_wrong_sub":
                    aa.OverSamplerUniform(mask=mm, sub_size=aa.Array2D.no_mask(
                        values=[[2.0, 3.0]], pixel_scales=1.0)).over_sampled_grid
                elif kind == "pixel_indexes_bad_grid":
                    mm.geometry.grid_pixel_indexes_2d_from(grid_scaled_2d=np.zeros((3,)))
                elif kind == "overlay_all_masked":
                    self.cfg("overlay33").image_plane_mesh_grid_from(mask=aa.Mask2D(
                        mask=np.ones((h, w), dtype=bool), pixel_scales=mm.pixel_scales, origin=mm.origin), adapt_data=None)
                elif kind == "resized_bad":
                    mm.resized_from(new_shape=(0, w))
                elif kind == "relocator_bad_grid":
                    self.obj(wi, "relocator").relocated_grid_from(grid=None)
                elif kind == "array_wrong_length":
                    aa.Array2D(values=np.zeros(mm.pixels_in_mask + 2), mask=mm).native
                elif kind == "user_func_raises":
                    calls = []

                    def func(grid_, *a, **k):
                        calls.append(1)
                        raise ValueError("user function failed")
                    self.obj(wi, "grid").over_sampler.array_via_func_from(func=func, obj=None)
                return None
            except Exception as e:
                return type(e).__name__

    def _hist_worlds(self, case, bits_override=None):
        out = []
        for k, w in enumerate(case["worlds"]):
            out.append({"arr": mask_from_json(w["mask"]).copy(),
                        "scales": (F(w["scales"][0]), F(w["scales"][1])),
                        "origin": (F(w["origin"][0]), F(w["origin"][1])),
                        "ctor": w.get("ctor", "ctor"), "from": w.get("from")})
        return out

    @staticmethod
    def _bits(a):
        return "".join("1" if b else "0" for b in np.asarray(a, dtype=bool).ravel())

    def _hist_all_names(self, case):
        names = list(self.HIST_GEOM)
        if not case.get("overlay"):
            names.remove("overlay_mesh")
        return names

    # configuration values the anchored code reads (`conf.instance[...]`), flipped by configuration histories
    CONF_KEYS = {"rpc": ("general", "grid", "remove_projected_centre"),
                 "nbo": ("general", "structures", "native_binned_only")}

    @classmethod
    def _conf_get(cls):
        from autoconf import conf
        out = {}
        for k, (a, b, c) in cls.CONF_KEYS.items():
            out[k] = conf.instance[a][b][c]
        return out

    @classmethod
    def _conf_set(cls, state):
        from autoconf import conf
        for k, v in state.items():
            a, b, c = cls.CONF_KEYS[k]
            conf.instance[a][b][c] = v

    def _run_history(self, aa, case):
        if case.get("script") == "hilbert_shared":
            return self._run_hilbert_history(aa, case)
        base_conf = self._conf_get()
        try:
            return self._run_history_body(aa, case, base_conf)
        finally:
            self._conf_set(base_conf)  # also when the history raises

    def _run_history_body(self, aa, case, base_conf):
        import copy as _copy
        import json as _json
        worlds = self._hist_worlds(case)
        S = self._Session(self, aa, case, worlds, persist=True)
        steps, log = [], []
        cfg = {}  # configuration overrides in force
        for op in case["ops"]:
            kind = op[0]
            if kind == "obs":
                wi, names = op[1], op[2]
                ent = {n: S.put(wi, n) for n in names}
                steps.append({"w": wi, "bits": self._bits(worlds[wi]["arr"]), "hist": ent})
                if cfg:
                    steps[-1]["cfg"] = dict(cfg)
            elif kind == "conf":
                cfg[op[1]] = op[2]
                self._conf_set({op[1]: op[2]})
            elif kind == "scribble":
                log.append(["scribble", S.scribble()])
            elif kind == "rebuild":
                S.reset()
            elif kind == "decoy":
                log.append(["decoy", op[1], S.decoy(op[1], op[2])])
            elif kind == "edit":
                _, wi, y, x, val, how = op
                mm = S.obj(wi, "mask")
                if how == "boolkey":
                    key = np.zeros(worlds[wi]["arr"].shape, dtype=bool)
                    key[y, x] = True
                    mm[key] = bool(val)
                else:
                    mm[y, x] = bool(val)
                worlds[wi]["arr"][y, x] = bool(val)  # the expectation follows the edit
                S.drop_derived(wi)
            elif kind == "clone":
                _, wi, how = op
                mm = S.obj(wi, "mask")
                S.objs[wi]["mask"] = _copy.copy(mm) if how == "copy" else _copy.deepcopy(mm) if how == "deepcopy" \
                    else mm.copy()
                S.drop_derived(wi)
            elif kind == "fault":
                log.append(["fault", op[2], S.fault(op[1], op[2])])
        # expectations: freshly built objects, one evaluation per distinct (world, content) state, AFTER the history
        fresh = {}
        need = self._hist_all_names(case)
        for st in steps:
            key = f"{st['w']}|{st['bits']}" + (("|" + _json.dumps(st["cfg"], sort_keys=True)) if st.get("cfg") else "")
            st["key"] = key
            if key in fresh:
                continue
            self._conf_set({**base_conf, **(st.get("cfg") or {})})  # the configuration in force at that step
            w0 = worlds[st["w"]]
            snap = {"arr": np.array([ch == "1" for ch in st["bits"]], dtype=bool).reshape(w0["arr"].shape),
                    "scales": w0["scales"], "origin": w0["origin"], "ctor": "ctor", "from": None}
            Fs = self._Session(self, aa, case, [snap], persist=False)
            names = list(need) + [n for n in st["hist"] if n not in need]
            for st2 in steps:  # every name any step observes in this state
                if st2["w"] == st["w"] and st2["bits"] == st["bits"] and st2.get("cfg") == st.get("cfg"):
                    names += [n for n in st2["hist"] if n not in names]
            fresh[key] = {n: Fs.put(0, n) for n in names}
        return {"steps": steps, "fresh": fresh, "log": log}

    # -- oracle of a history
    @staticmethod
    def _np_centres(arr, scales, origin):
        h, w = arr.shape
        ys, xs = np.nonzero(~arr)
        return np.stack([origin[0] + ((h - 1) / 2.0 - ys) * scales[0], origin[1] + (xs - (w - 1) / 2.0) * scales[1]], axis=1)

    @classmethod
    def _np_sub_grid(cls, arr, scales, origin, sub):
        c = cls._np_centres(arr, scales, origin)
        a = np.arange(sub)
        dy = scales[0] / 2.0 - (a + 0.5) * scales[0] / sub
        dx = -scales[1] / 2.0 + (a + 0.5) * scales[1] / sub
        yy = (c[:, 0][:, None, None] + dy[None, :, None]) + np.zeros((1, 1, sub))
        xx = (c[:, 1][:, None, None] + dx[None, None, :]) + np.zeros((1, sub, 1))
        return np.stack([yy.ravel(), xx.ravel()], axis=1)

    def _history_desc(self, case, k):
        """the operations up to and including the k-th observation, readable"""
        out, n = [], -1
        for op in case["ops"]:
            if op[0] == "obs":
                n += 1
                out.append(f"read world {op[1]}")
                if n == k:
                    break
            elif op[0] == "edit":
                out.append(f"mask{op[1]}[{op[2]},{op[3]}]={bool(op[4])} ({op[5]})")
            elif op[0] == "clone":
                out.append(f"{op[2]} of mask{op[1]}")
            elif op[0] == "fault":
                out.append(f"failing call {op[2]} on world {op[1]}")
            elif op[0] == "decoy":
                out.append(f"all properties of world {op[1]} read")
            elif op[0] == "conf":
                out.append(f"conf {'.'.join(self.CONF_KEYS[op[1]])}={op[2]}")
            elif op[0] == "scribble":
                out.append("every returned / accepted array overwritten in place")
            elif op[0] == "rebuild":
                out.append("same worlds rebuilt from fresh equal inputs")
        return " -> ".join(out)

    def _history_oracle(self, case, obs):
        if "steps" not in obs:
            return False, f"implementation raised {obs}"
        if case.get("script") == "hilbert_shared":
            return self._hilbert_history_oracle(case, obs)
        worlds = self._hist_worlds(case)
        sub, sub_pix = int(case["sub"]), int(case.get("sub_pix", 0) or 0)
        for k, st in enumerate(obs["steps"]):
            fr = obs["fresh"][st["key"]]
            w = worlds[st["w"]]
            arr = np.array([ch == "1" for ch in st["bits"]], dtype=bool).reshape(w["arr"].shape)
            where = f"history step {k + 1}/{len(obs['steps'])} ({self._history_desc(case, k)}; shared: {case.get('share')})"
            for name, e in st["hist"].items():
                f = fr[name]
                if e.get("err") or f.get("err"):
                    if e.get("err") != f.get("err"):
                        return False, (f"{where}: {name} raises {e.get('err')} {e.get('msg', '')} on the reused objects "
                                       f"but {f.get('err')} on freshly built ones")
                    if e.get("err") not in ("MaskException",):
                        return False, f"{where}: {name} raises {e.get('err')} {e.get('msg', '')}"
                    continue
                if not self._deep_close(e["value"], f["value"]):
                    return False, (f"{where}: {name} is not what freshly built objects in the same state give "
                                   f"(origin {w['origin']}, scales {w['scales']})")
                # closed forms, independent of the library
                exp = None
                if name in ("from_mask", "unmasked", "ds_uniform", "ds_pixelization"):
                    exp = self._np_centres(arr, w["scales"], w["origin"])
                elif name in ("over_sampled", "over_sampled_cfg", "over_sampled_cfg2", "border_sub_grid",
                              "ds_uniform_os"):
                    exp = self._np_sub_grid(arr, w["scales"], w["origin"], sub)
                elif name in ("ds_pix_os", "ds_relocator_sub_grid") and sub_pix:
                    exp = self._np_sub_grid(arr, w["scales"], w["origin"], sub_pix)
                elif name == "all_false":
                    exp = self._np_centres(np.zeros_like(arr), w["scales"], w["origin"])
                if exp is not None:
                    got = np.asarray(e["value"], dtype=float).reshape(-1, 2)
                    if got.shape != exp.shape or not self._close(got, exp):
                        return False, (f"{where}: {name} is not origin + (pixel position relative to the origin) for "
                                       f"origin {w['origin']}")
            # configuration histories: the call without the argument follows the configuration value in force at call
            # time, i.e. it equals the call with that value given explicitly (the control observed in the same step)
            rp = st["hist"].get("radial_projected")
            if rp is not None and ("radial_keep" in st["hist"] or "radial_drop" in st["hist"]):
                drop = bool((st.get("cfg") or {}).get("rpc", False))
                ctl = st["hist"].get("radial_drop" if drop else "radial_keep")
                if ctl is not None and not ctl.get("err") and not rp.get("err") and \
                        not self._deep_close(rp["value"], ctl["value"]):
                    return False, (f"{where}: grid_2d_radial_projected_from without the argument does not follow the "
                                   f"configuration value in force (remove_projected_centre={drop}): "
                                   f"{len(rp['value'])} points, explicit argument gives {len(ctl['value'])}")
                keep_, drop_ = st["hist"].get("radial_keep"), st["hist"].get("radial_drop")
                if keep_ and drop_ and not keep_.get("err") and not drop_.get("err") and \
                        not self._deep_close(keep_["value"][1:], drop_["value"]):
                    return False, f"{where}: remove_projected_centre=True is not the line without its first point"
        # the translation relation between observations of the same content / scales at two origins
        st_ = obs["steps"]
        for i in range(len(st_)):
            for j in range(i + 1, len(st_)):
                a, b = st_[i], st_[j]
                wa, wb = worlds[a["w"]], worlds[b["w"]]
                if a["bits"] != b["bits"] or wa["scales"] != wb["scales"]:
                    continue
                if (a.get("cfg") or {}).get("rpc", False) != (b.get("cfg") or {}).get("rpc", False):
                    continue  # the projected line has one point less under remove_projected_centre
                d = np.array([wb["origin"][0] - wa["origin"][0], wb["origin"][1] - wa["origin"][1]])
                common = [n for n in a["hist"] if n in b["hist"]]
                ok, detail = self._relation(case, a["hist"], b["hist"], d, names=common)
                if not ok:
                    return False, (f"history observations {i + 1} (world {a['w']}) and {j + 1} (world {b['w']}), "
                                   f"{self._history_desc(case, j)}; shared: {case.get('share')}: {detail}")
        return True, ""

    # -- model side of a history: one `c12.entries` request per observation, for a fresh object in that state
    def _history_plan(self, case, obs):
        plan = []
        if "steps" not in obs or case.get("script") == "hilbert_shared":
            return plan
        import math
        for k, st in enumerate(obs["steps"]):
            fr = obs["fresh"][st["key"]]
            w = case["worlds"][st["w"]]
            if any(fr.get(n, {"err": 1}).get("err") for n in self.HIST_TABLES):
                continue  # an implementation-side table is unavailable (footprint outside the frame)
            o = [Fraction(w["origin"][0]), Fraction(w["origin"][1])]
            h, wd = w["mask"]["h"], w["mask"]["w"]
            plan.append((k, "entries", {
                "op": "c12.entries", "mask": {"h": h, "w": wd, "bits": st["bits"]}, "scales": w["scales"],
                "origin": w["origin"], "kernel": case["kernel"], "sub": case["sub"],
                "edge_slim": fr["edge_slim"]["value"], "border_slim": fr["border_slim"]["value"],
                "blurring_bits": fr["blurring_bits"]["value"],
                "resized_shape": case["resize_to"], "resized_bits": fr["resized_bits"]["value"],
                "zoom_shape": fr["zoom_mask_unmasked"]["value"]["shape"],
                "zoomed_shape": fr["zoomed_around_mask"]["value"]["shape"],
                "points": [[q(Fraction(a) + o[0]), q(Fraction(b) + o[1])] for a, b in case["rel_points"]]}))
            if any(n in st["hist"] for n in ("radial_projected", "radial_keep", "radial_drop")):
                phi = math.radians(float(case["angle"]))
                plan.append((k, "radial", {"op": "c12.radial", "shape": [h, wd], "scales": w["scales"],
                                           "origin": w["origin"],
                                           "centre": [q(o[0] + Fraction(1, 4)), q(o[1] - Fraction(1, 2))],
                                           "cos_sin": [q(math.cos(phi)), q(math.sin(phi))]}))
            e = st["hist"].get("mapper_rectangular")
            if e and not e.get("err") and e.get("value"):
                plan.append((k, "rect", {"op": "c12.rect_mapper", "grid": e["value"]["src"], "mesh": case["mesh"],
                                         "buffer": q(1e-8)}))
        return plan

    def _history_requests(self, case, obs):
        return [r for _, _, r in self._history_plan(case, obs)]

    def _history_compare(self, case, obs, mobs, cmp):
        plan = self._history_plan(case, obs)
        resps = mobs["steps"]
        if len(plan) != len(resps):
            return f"history: {len(resps)} model responses for {len(plan)} requests"
        for (k, kind, _), r in zip(plan, resps):
            if "err" in r:
                return f"history step {k + 1}: model error {r['err']}"
            st = obs["steps"][k]
            mo = r["ok"]
            where = f"$.step{k + 1}[{self._history_desc(case, k)}]"
            if kind == "radial":
                in_force = bool((st.get("cfg") or {}).get("rpc", False))
                for rn, dropped in (("radial_projected", in_force), ("radial_keep", False), ("radial_drop", True)):
                    e = st["hist"].get(rn)
                    if e is None:
                        continue
                    if e.get("err"):
                        return f"{where}.{rn}: implementation raised {e['err']}"
                    d = cmp.diff(e["value"], mo[1:] if dropped else mo, f"{where}.{rn}")
                    if d:
                        return d
                continue
            if kind == "rect":
                if Fraction(mo["tie_margin"]) < Fraction(1, 10**6):
                    continue  # tie band of a mesh-cell boundary
                v = st["hist"]["mapper_rectangular"]["value"]
                d = cmp.diff({"pix": [int(x[0]) if isinstance(x, list) else int(x) for x in v["pix_indexes"]],
                              "origin": v["mesh_origin"], "scales": v["mesh_scales_q"]},
                             {"pix": mo["pix_indexes"], "origin": mo["origin"], "scales": mo["scales"]},
                             f"{where}.mapper_rectangular")
                if d:
                    return d
                continue
            for name, e in st["hist"].items():
                mname = self.HIST_MODEL.get(name, name)
                if mname is None or mname not in self.MODEL_ENTRIES or mname == "radial_projected" or \
                        name in ("radial_keep", "radial_drop"):
                    continue
                if name == "ds_blurring" and list(case["kernel"]) != [3, 3]:
                    continue
                if e.get("err"):
                    return f"{where}.{name}: implementation raised {e['err']} {e.get('msg', '')}"
                iv, mv = e["value"], mo[mname]
                if mname == "zoomed_around_mask":
                    iv = {kk: iv[kk] for kk in ("origin", "shape", "grid")}
                if mname == "mask_centre":
                    iv = iv[0]
                d = cmp.diff(iv, mv, f"{where}.{name}")
                if d:
                    return d
        return None

    # -- Hilbert image mesh: one Hilbert instance (and one SettingsInversion) used for two origins
    def _run_hilbert_history(self, aa, case):
        n, s = case["n"], F(case["scale"])
        yy, xx = np.mgrid[0:n, 0:n]
        img = 1.0 + 0.25 * yy + 0.5 * xx

        def make():
            return aa.image_mesh.Hilbert(pixels=case["pixels"], weight_floor=0.1, weight_power=1.0)

        def settings():
            return aa.SettingsInversion(image_mesh_min_mesh_pixels_per_pixel=0, image_mesh_min_mesh_number=1,
                                        image_mesh_adapt_background_percent_threshold=None) \
                if case.get("settings_checks") else None

        def run(hb, st, origin):
            m = aa.Mask2D.circular(shape_native=(n, n), radius=F(case["radius"]), pixel_scales=s, origin=origin)
            adapt = aa.Array2D.no_mask(values=img, pixel_scales=s, origin=origin)
            try:
                g = hb.image_plane_mesh_grid_from(mask=m, adapt_data=adapt, settings=st)
                return {"kind": "coord", "value": np.asarray(g.array, dtype=float).reshape(-1, 2).tolist()}
            except Exception as e:
                return {"kind": "coord", "value": None, "err": type(e).__name__, "msg": str(e)[:200]}
        hb, st = make(), settings()
        steps = []
        for o in case["origins"]:
            origin = (F(o[0]), F(o[1]))
            steps.append({"origin": [origin[0], origin[1]], "hist": {"hilbert_mesh": run(hb, st, origin)}})
        for stp in steps:
            stp["fresh"] = {"hilbert_mesh": run(make(), settings(), tuple(stp["origin"]))}
        return {"steps": steps}

    def _hilbert_history_oracle(self, case, obs):
        st = obs["steps"]
        for k, a in enumerate(st):
            e, f = a["hist"]["hilbert_mesh"], a["fresh"]["hilbert_mesh"]
            if e.get("err") or f.get("err"):
                return False, f"hilbert history step {k + 1}: raises {e.get('err')} / fresh {f.get('err')} {e.get('msg', '')}"
            if not self._deep_close(e["value"], f["value"]):
                return False, (f"hilbert history step {k + 1} (one Hilbert object reused for origins "
                               f"{[s_['origin'] for s_ in st[:k + 1]]}): mesh differs from a fresh Hilbert object's")
        for i in range(len(st)):
            for j in range(i + 1, len(st)):
                d = np.array(st[j]["origin"]) - np.array(st[i]["origin"])
                ok, detail = self._relation(case, st[i]["hist"], st[j]["hist"], d)
                if not ok:
                    return False, f"hilbert history, origins {st[i]['origin']} -> {st[j]['origin']}: {detail}"
        return True, ""

    # -- generation of histories
    def _hist_base(self, rng, use_ds):
        """one world A and the case-level ingredients (same recipe as the geometry stream)"""
        h, w = rng.randint(6, 9), rng.randint(6, 9)
        k = [3, 3] if use_ds else [rng.choice([1, 3]), rng.choice([1, 3])]
        m, kind = gen.random_mask(rng, h, w, margin=1)
        sy, sx = gen.scales_pair(rng)
        if rng.random() < 0.15:
            sx = sy
        oy, ox = gen.origin_pair(rng)
        return h, w, k, m, kind, sy, sx, oy, ox

    def _rel_points(self, rng, h, w, scale_sets, n=4, inside=False):
        """points relative to the origin, off every pixel boundary for each of the scale pairs in use"""
        pts = []
        sy0, sx0 = scale_sets[0]
        while len(pts) < n:
            if inside:
                i, j = rng.randrange(h), rng.randrange(w)
                fi, fj = (rng.choice([Fraction(1, 4), Fraction(1, 2), Fraction(3, 4)]) for _ in range(2))
                ry, rx = (Fraction(h, 2) - (i + fi)) * sy0, ((j + fj) - Fraction(w, 2)) * sx0
            else:
                ry, rx = gen.dyadic(rng, -2, 2, 4), gen.dyadic(rng, -2, 2, 4)
            ok = True
            for sy, sx in scale_sets:
                fy, fx = -ry / sy + Fraction(h, 2), rx / sx + Fraction(w, 2)
                near = lambda v: abs(v - round(v)) < Fraction(1, 64)
                if near(fy) or near(fx):
                    ok = False
            if ok:
                pts.append([q(ry), q(rx)])
        return pts

    def _history_two_worlds(self, rng, delta, order, share_mode, use_ds, mapper, decoy, fault=None):
        h, w, k, m, kind, sy, sx, oy, ox = self._hist_base(rng, use_ds)
        A = {"mask": mask_json(m), "scales": [q(sy), q(sx)], "origin": [q(oy), q(ox)], "ctor": "ctor"}
        mB, syB, sxB, oyB, oxB = [r[:] for r in m], sy, sx, oy, ox
        eps20, eps17 = Fraction(1, 2 ** 20), Fraction(1, 2 ** 17)
        if delta == "origin":
            dy, dx = gen.dyadic(rng, -3, 3, 2), gen.dyadic(rng, -3, 3, 2)
            if dy == 0 and dx == 0:
                dx = Fraction(5, 4)
            oyB, oxB = oy + dy, ox + dx
        elif delta in ("origin_rel20", "origin_rel17"):
            # near-duplicate twin: inside np.allclose's default tolerance, ~10^3 x the property's 1e-9
            e = eps20 if delta.endswith("20") else eps17
            oy, ox = oy or Fraction(3, 2), ox or Fraction(-5, 4)
            A["origin"] = [q(oy), q(ox)]
            oyB, oxB = oy * (1 + e), ox * (1 - e)
        elif delta == "origin_abs":
            # tiny absolute twin: 0 against 2^-27 (below allclose's atol 1e-8, 7.5 x the 1e-9 band)
            which = rng.randrange(2)
            oy, ox = (Fraction(0), ox) if which == 0 else (oy, Fraction(0))
            A["origin"] = [q(oy), q(ox)]
            oyB, oxB = (Fraction(1, 2 ** 27), ox) if which == 0 else (oy, -Fraction(1, 2 ** 27))
        elif delta == "scale_rel":
            if rng.random() < 0.5:
                syB = sy * (1 + eps20)
            else:
                sxB = sx * (1 - eps17)
        elif delta == "pixel":
            cand = [(y, x) for y in range(1, h - 1) for x in range(1, w - 1)]
            y, x = rng.choice(cand)
            mB[y][x] = not mB[y][x]
            if all(b for r in mB for b in r):
                mB[y][x] = False
            if rng.random() < 0.5:
                oyB, oxB = oy + Fraction(3, 4), ox - Fraction(5, 4)
        B = {"mask": mask_json(mB), "scales": [q(syB), q(sxB)], "origin": [q(oyB), q(oxB)], "ctor": "ctor"}
        if mB == m and rng.random() < 0.4:
            B["ctor"], B["from"] = "from_obj", 0
        worlds = [A, B]
        first, second = (0, 1) if order == 0 else (1, 0)
        if order == 1 and B.get("ctor") == "from_obj":
            pass  # B is built from A's mask object, which is then built (but not yet read) first
        share = list(self.SHARE_KINDS) if share_mode == "all" else \
            [s_ for s_ in self.SHARE_KINDS if rng.random() < 0.5] if share_mode == "some" else []
        ov = self._overlay_shape_without_ties(rng, m) if mB == m else rng.choice([[2, 3], [3, 3], [3, 4]])
        names = list(self.HIST_GEOM)
        if not ov:
            names.remove("overlay_mesh")
        if use_ds:
            names += self.HIST_DS
        if mapper:
            names += self.HIST_MAPPER
        n1, n2 = names[:], names[:]
        rng.shuffle(n1)
        rng.shuffle(n2)
        n3 = rng.sample(names, min(10, len(names)))
        ops = []
        if decoy:
            ops.append(["decoy", first, rng.randint(0, 10 ** 6)])
        ops.append(["obs", first, n1])
        if fault:
            ops.append(["fault", first, fault])
        if decoy and rng.random() < 0.5:
            ops.append(["decoy", second, rng.randint(0, 10 ** 6)])
        ops.append(["obs", second, n2])
        ops.append(["obs", first, n3])
        scale_sets = [(sy, sx), (syB, sxB)]
        case = {"tag": f"hist_two_worlds_{delta}" if not fault else f"hist_fault_{fault}", "group": "history",
                "script": "two_worlds", "delta": delta, "worlds": worlds, "ops": ops, "share": share,
                "sub": rng.randint(1, 3), "sub_pix": rng.randint(1, 3), "kernel": k,
                "rel_points": self._rel_points(rng, h, w, scale_sets),
                "rel_mesh_points": self._rel_points(rng, h, w, scale_sets, n=6, inside=True),
                "resize_to": [h + rng.choice([-2, 0, 2, 3]), w + rng.choice([-2, 0, 2, 1])],
                "overlay": ov, "angle": rng.choice([0, 30, 45, 90, 120]), "seed": rng.randint(0, 10 ** 6),
                "ro_arrays": rng.random() < 0.3}
        if mapper:
            case["mesh"] = [rng.randint(3, 4), rng.randint(3, 5)]
        return case

    def _history_edit(self, rng, how, clone, decoy, use_ds):
        h, w, k, m, kind, sy, sx, oy, ox = self._hist_base(rng, use_ds)
        A = {"mask": mask_json(m), "scales": [q(sy), q(sx)], "origin": [q(oy), q(ox)], "ctor": "ctor"}
        cur = [r[:] for r in m]
        names = [n for n in self.HIST_GEOM if n != "overlay_mesh"]
        if use_ds:
            names += [n for n in self.HIST_DS if n != "simulator"]
        ops = []
        if decoy:
            ops.append(["decoy", 0, rng.randint(0, 10 ** 6)])
        n1 = names[:]
        rng.shuffle(n1)
        ops.append(["obs", 0, n1])
        if clone:
            ops.append(["clone", 0, clone])
        for _ in range(rng.randint(1, 2)):
            inner = [(y, x) for y in range(1, h - 1) for x in range(1, w - 1)]
            un = [(y, x) for (y, x) in inner if not cur[y][x]]
            ma = [(y, x) for (y, x) in inner if cur[y][x]]
            if ma and (len(un) <= 1 or rng.random() < 0.6):
                y, x = rng.choice(ma)
                val = False
            else:
                y, x = rng.choice(un)
                val = True
            cur[y][x] = val
            ops.append(["edit", 0, y, x, val, how])
            if rng.random() < 0.4:
                n_mid = rng.sample(names, 8)
                ops.append(["obs", 0, n_mid])
        n2 = names[:]
        rng.shuffle(n2)
        ops.append(["obs", 0, n2])
        return {"tag": f"hist_edit_{how}" + (f"_{clone}" if clone else ""), "group": "history", "script": "edit",
                "worlds": [A], "ops": ops, "share": list(self.SHARE_KINDS),
                "sub": rng.randint(1, 3), "sub_pix": rng.randint(1, 3), "kernel": k,
                "rel_points": self._rel_points(rng, h, w, [(sy, sx)]),
                "rel_mesh_points": self._rel_points(rng, h, w, [(sy, sx)], n=6, inside=True),
                "resize_to": [h + rng.choice([-2, 0, 2, 3]), w + rng.choice([-2, 0, 2, 1])],
                "overlay": None, "angle": rng.choice([0, 30, 45, 90, 120]), "seed": rng.randint(0, 10 ** 6),
                "ro_arrays": False}

    def _history_hilbert(self, rng, delta, order):
        n = rng.choice([15, 17, 21])
        s = rng.choice([Fraction(1, 4), Fraction(1, 2)])
        oy, ox = gen.origin_pair(rng)
        oy, ox = oy or Fraction(3, 2), ox or Fraction(-5, 4)
        if delta == "origin":
            dy, dx = gen.dyadic(rng, -3, 3, 2), gen.dyadic(rng, -3, 3, 2)
            if dy == 0 and dx == 0:
                dx = Fraction(3, 4)
            o2 = (oy + dy, ox + dx)
        else:
            e = Fraction(1, 2 ** 20)
            o2 = (oy * (1 + e), ox * (1 - e))
        origins = [[q(oy), q(ox)], [q(o2[0]), q(o2[1])]]
        if order:
            origins.reverse()
        origins.append(origins[0])
        return {"tag": f"hist_hilbert_{delta}", "group": "history", "script": "hilbert_shared", "n": n,
                "scale": q(s), "radius": q(s * (n // 2 - 2)), "origins": origins, "pixels": rng.randint(8, 20),
                "settings_checks": bool(rng.randrange(2)), "ops": ["shared Hilbert", "origins"]}

    def _histories(self, tier, rng):
        reps = 2 if tier == "quick" else 10
        for rep in range(reps):
            k = 0
            for delta in ("origin", "origin_rel20", "origin_rel17", "origin_abs", "scale_rel", "pixel", "origin"):
                for order in (0, 1):
                    for share_mode in ("all", "some"):
                        k += 1
                        yield self._history_two_worlds(rng, delta, order, share_mode, use_ds=(k % 2 == 0),
                                                       mapper=(k % 3 == 0), decoy=(k % 4 == 1))
            for how in ("index", "boolkey"):
                for clone in (None, "copy", "deepcopy"):
                    for decoy in (False, True):
                        k += 1
                        yield self._history_edit(rng, how, clone, decoy, use_ds=(k % 2 == 0))
            for fault in self.FAULTS:
                k += 1
                yield self._history_two_worlds(rng, rng.choice(["origin", "origin_rel20"]), k % 2, "all",
                                               use_ds=True, mapper=False, decoy=False, fault=fault)
            for delta, order in (("origin", 0), ("origin", 1), ("origin_rel20", 0)):
                yield self._history_hilbert(rng, delta, order)

    # ================================================================== round 5 / 6 streams (DESIGN §14)
    # A  decades stream        tags dec_*   whole world / one ingredient scaled by 2^k, near twins at several decades
    # B  ownership histories   tags own_*   observe -> scribble over everything returned / accepted -> rebuild -> observe
    # C  container / layout    tags lay_*   equal-valued inputs in other layouts, dtypes, containers, constructors
    # D  configuration         tags cfg_*   conf values flipped between calls on reused and fresh objects
    # E  extremes              tags dec_extreme (2^+-150 .. 2^+-480), big_* (always-on frames beyond 2^16 pixels)
    # F  options               tags opt_*   introspected options crossed pairwise, "set but falsy" values
    # Every case carries "r5": True.  They are generated AFTER the earlier streams so that those keep their cases.

    def _r5_streams(self, tier, rng):
        import itertools
        k = 0
        for c in itertools.chain(self._decades(tier, rng), self._ownership(tier, rng), self._layouts(tier, rng),
                                 self._conf_histories(tier, rng), self._options(tier, rng),
                                 self._always_large(tier, rng)):
            if c.get("group") == "geometry" and not c.get("large"):
                # the derived-mask / subtracted-grid records (six more model requests per origin) on every second case
                k += 1
                c["records"] = bool(k % 2)
            yield c

    # ------------------------------------------------------------------ helpers
    @staticmethod
    def _is_exact(x):
        x = Fraction(x)
        try:
            return Fraction(float(x)) == x
        except OverflowError:
            return False

    def _exact_case(self, c):
        """every coordinate-valued input of the case is an exact double (so that translations are exact and the
        comparisons can be)"""
        vals = list(c.get("scales", [])) + list(c.get("origin", [])) + list(c.get("shift", []))
        vals += [Fraction(a) + Fraction(b) for a, b in zip(c.get("origin", []), c.get("shift", []))]
        sh = [Fraction(x) for x in c.get("shift", ["0", "0"])]
        for key in ("points", "mesh_points"):
            for a, b in c.get(key, []):
                vals += [a, b, Fraction(a) + sh[0], Fraction(b) + sh[1]]
        for key in ("scale", "radius"):
            if key in c:
                vals.append(c[key])
        return all(self._is_exact(v) for v in vals)

    def _geom_base(self, rng, shape=None, scales=None, origin=None, shift=None, small=False):
        """an ordinary geometry case (the recipe of the `geom_*` stream), points given relative to the origin first"""
        h, w = shape or (rng.randint(5, 9), rng.randint(5, 9))
        if small or min(h, w) < 3:
            kh, kw = 1, 1
        else:
            kh, kw = rng.choice([1, 3]), rng.choice([1, 3])
        m, kind = gen.random_mask(rng, h, w, margin=max(kh, kw) // 2)
        sy, sx = scales or gen.scales_pair(rng)
        if scales is None and rng.random() < 0.2:
            sx = sy
        if origin is not None:
            oy, ox = origin
        else:
            oy, ox = gen.origin_pair(rng) if rng.random() < 0.75 else (Fraction(0), Fraction(0))
        if shift is not None:
            dy, dx = shift
        else:
            dy, dx = gen.dyadic(rng, -3, 3, 2), gen.dyadic(rng, -3, 3, 2)
            if dy == 0 and dx == 0:
                dx = Fraction(5, 4)
        rel = self._rel_points(rng, h, w, [(sy, sx)])
        rel_mesh = self._rel_points(rng, h, w, [(sy, sx)], n=6, inside=True)
        off_mode = rng.choice(["origin", "origin_d", "explicit"])
        off = (gen.dyadic(rng, -3, 3, 2) or Fraction(7, 4), gen.dyadic(rng, -3, 3, 2))
        return {"group": "geometry", "r5": True, "kind": kind, "mask": mask_json(m),
                "offset_mode": off_mode, "offset": [q(off[0]), q(off[1])],
                "scales": [q(sy), q(sx)], "origin": [q(oy), q(ox)], "shift": [q(dy), q(dx)],
                "sub": rng.randint(1, 3), "kernel": [kh, kw],
                "points": [[q(Fraction(a) + oy), q(Fraction(b) + ox)] for a, b in rel],
                "mesh_points": [[q(Fraction(a) + oy), q(Fraction(b) + ox)] for a, b in rel_mesh],
                "resize_to": [max(1, h + rng.choice([-2, 0, 2, 3])), max(1, w + rng.choice([-2, 0, 2, 1]))],
                "overlay": self._overlay_shape_without_ties(rng, m),
                "angle": rng.choice([0, 30, 45, 90, 120])}

    @staticmethod
    def _scaled(c, U):
        """the same world with every length multiplied by the power of two U"""
        U = Fraction(U)
        c = dict(c)
        for k in ("scales", "origin", "shift", "offset"):
            if k in c:
                c[k] = [q(Fraction(x) * U) for x in c[k]]
        for k in ("points", "mesh_points"):
            if k in c:
                c[k] = [[q(Fraction(a) * U), q(Fraction(b) * U)] for a, b in c[k]]
        for k in ("scale", "radius"):
            if k in c:
                c[k] = q(Fraction(c[k]) * U)
        if c.get("centre_rel"):
            c["centre_rel"] = [q(Fraction(x) * U) for x in c["centre_rel"]]
        c["unit"] = q(Fraction(c.get("unit", "1")) * U)
        return c

    @staticmethod
    def _moved(c, delta):
        """the same world with origin AND query points moved by delta (a far-away origin)"""
        c = dict(c)
        c["origin"] = [q(Fraction(c["origin"][0]) + delta[0]), q(Fraction(c["origin"][1]) + delta[1])]
        for k in ("points", "mesh_points"):
            if k in c:
                c[k] = [[q(Fraction(a) + delta[0]), q(Fraction(b) + delta[1])] for a, b in c[k]]
        return c

    # ------------------------------------------------------------------ A / E: decades
    DEC_EXTREME = [-480, -300, -150, 150, 300, 480]

    def _decades(self, tier, rng):
        quick = tier == "quick"
        two = Fraction(2)

        def world_k():
            return rng.randint(-45, 45)

        # (a) the whole world at another decade
        for i in range(10 if quick else 90):
            c = self._scaled(self._geom_base(rng), two ** world_k())
            if abs(Fraction(c["unit"])) < Fraction(1, 2 ** 8):
                c["overlay"] = None  # image_mesh.Overlay adds its documented absolute 1e-8 buffer to the extremes
            c["tag"] = "dec_world"
            yield c
        # (E) out to 1e+-144: coordinates get squared in the radial projection (r^2 = y^2 + x^2)
        ext = list(self.DEC_EXTREME)
        rng.shuffle(ext)
        for k in (ext[:4] if quick else ext * 3):
            c = self._scaled(self._geom_base(rng), two ** k)
            if k < 0:
                c["overlay"] = None
            c["tag"] = "dec_extreme"
            yield c
        # (b) an origin far from zero (1e5 .. 1e11 pixel scales away), the rest of the world of order one
        n_far, tries = (6 if quick else 40), 0
        while n_far > 0 and tries < 400:
            tries += 1
            base = self._geom_base(rng)
            e1, e2 = rng.choice([17, 24, 30, 36]), rng.choice([0, 17, 24, 30, 36])
            if rng.random() < 0.5:
                e1, e2 = e2, e1
            delta = (rng.choice([-1, 1]) * (two ** e1 if e1 else 0), rng.choice([-1, 1]) * (two ** e2 if e2 else 0))
            if n_far % 2:
                # the origin o stays near zero and the translation d is the far one: only one side of the relation
                # sits far away, so a shortcut that fires there cannot cancel out
                c = dict(base)
                c["shift"] = [q(Fraction(c["shift"][0]) + delta[0]), q(Fraction(c["shift"][1]) + delta[1])]
            else:
                c = self._moved(base, delta)
                if rng.random() < 0.3:  # ... and a far shift
                    c["shift"] = [q(Fraction(c["shift"][0]) + rng.choice([-1, 1]) * two ** rng.choice([17, 24])), c["shift"][1]]
            c = self._scaled(c, two ** rng.randint(-6, 6))
            if not self._exact_case(c):
                continue
            n_far -= 1
            c["pix_mag"] = max(abs(Fraction(c["origin"][k]) + t * Fraction(c["shift"][k])) / Fraction(c["scales"][k])
                               for k in (0, 1) for t in (0, 1)).__float__()
            c["tag"] = "dec_far_origin"
            yield c
        # (c) nearly equal pixel scales (relative difference 2^-20 .. 2^-40)
        for i in range(4 if quick else 30):
            for _ in range(50):
                sy = rng.choice(gen.SCALES)
                j = rng.choice([20, 26, 33, 40])
                sx = sy * (1 + rng.choice([-1, 1]) * Fraction(1, 2 ** j))
                if rng.random() < 0.5:
                    sy, sx = sx, sy
                c = self._scaled(self._geom_base(rng, scales=(sy, sx)), two ** world_k())
                if self._exact_case(c):
                    break
            else:
                continue
            c["overlay"] = None if Fraction(c["unit"]) < Fraction(1, 2 ** 8) else c["overlay"]
            c["tag"] = "dec_twin_scales"
            yield c
        # (d) an origin that is nearly zero / a translation that is nearly zero, relative to the pixel scale
        for i in range(6 if quick else 40):
            for _ in range(50):
                j = rng.choice([20, 30, 40])
                tiny = lambda: Fraction(rng.choice([-5, -3, -1, 1, 3, 5]), 2 ** j)
                mode = ("origin", "shift", "both")[i % 3]
                origin = (tiny(), tiny()) if mode in ("origin", "both") else None
                shift = (tiny(), tiny() if rng.random() < 0.7 else Fraction(0)) if mode in ("shift", "both") else None
                c = self._scaled(self._geom_base(rng, origin=origin, shift=shift), two ** world_k())
                if self._exact_case(c):
                    break
            else:
                continue
            c["overlay"] = None if Fraction(c["unit"]) < Fraction(1, 2 ** 8) else c["overlay"]
            c["tag"] = f"dec_twin_{mode}0"
            yield c
        # (e) radial projection: the centre nearly at / exactly at the origin
        for i in range(4 if quick else 24):
            for _ in range(50):
                c = self._geom_base(rng)
                j = rng.choice([20, 30, 40])
                if i % 2 == 0:
                    c["centre_rel"] = [q(Fraction(rng.choice([-3, -1, 1, 3]), 2 ** j)), q(Fraction(rng.choice([-3, -1, 1, 3]), 2 ** j))]
                else:
                    c["centre_rel"] = ["0", "0"]
                c = self._scaled(c, two ** world_k())
                cen = [Fraction(c["origin"][k]) + Fraction(c["centre_rel"][k]) for k in (0, 1)]
                if self._exact_case(c) and all(self._is_exact(x) and self._is_exact(x + Fraction(c["shift"][k]))
                                               for k, x in enumerate(cen)):
                    break
            else:
                continue
            c["overlay"] = None if Fraction(c["unit"]) < Fraction(1, 2 ** 8) else c["overlay"]
            c["tag"] = "dec_twin_centre"
            yield c
        # datasets, mappers, Hilbert meshes at other decades
        for i in range(4 if quick else 30):
            h, w = rng.randint(7, 9), rng.randint(7, 9)
            m, kind = gen.random_mask(rng, h, w, margin=rng.choice([0, 1, 2]))
            sy, sx = gen.scales_pair(rng)
            oy, ox = gen.origin_pair(rng)
            dy, dx = gen.dyadic(rng, -3, 3, 2), gen.dyadic(rng, -3, 3, 2) or Fraction(-3, 4)
            c = {"group": "dataset", "r5": True, "mask": mask_json(m), "scales": [q(sy), q(sx)],
                 "origin": [q(oy), q(ox)], "shift": [q(dy), q(dx)], "seed": rng.randint(0, 10 ** 6)}
            k = world_k() if i % 4 else rng.choice([-150, 150, 300])
            c = self._scaled(c, two ** k)
            if i % 3 == 2:
                c = self._scaled(self._moved(c, (two ** 30 * Fraction(c["unit"]), -(two ** 24) * Fraction(c["unit"]))), 1)
            c["tag"] = "dec_dataset"
            yield c
        for i in range(4 if quick else 24):
            h, w = rng.randint(6, 8), rng.randint(6, 8)
            m, kind = gen.random_mask(rng, h, w, margin=1)
            sy, sx = gen.scales_pair(rng)
            oy, ox = gen.origin_pair(rng)
            dy, dx = gen.dyadic(rng, -3, 3, 2), gen.dyadic(rng, -3, 3, 2) or Fraction(1, 2)
            c = {"group": "mapper", "r5": True, "mask": mask_json(m), "scales": [q(sy), q(sx)],
                 "origin": [q(oy), q(ox)], "shift": [q(dy), q(dx)], "sub": rng.randint(1, 2),
                 "mesh": [rng.randint(3, 4), rng.randint(3, 5)], "seed": rng.randint(0, 10 ** 6)}
            # Mesh2DRectangular.overlay_grid adds its documented absolute buffer of 1e-8 to the extremes: it must stay
            # above the rounding of the coordinates (beyond ~2^20 the outermost point lands ON the mesh edge)
            c = self._scaled(c, two ** rng.randint(-20, 12))
            c["tag"] = "dec_mapper"
            yield c
        for i in range(2 if quick else 10):
            n = rng.choice([15, 17, 21])
            s = rng.choice([Fraction(1, 4), Fraction(1, 2)])
            oy, ox = gen.origin_pair(rng)
            dy, dx = gen.dyadic(rng, -3, 3, 2), gen.dyadic(rng, -3, 3, 2) or Fraction(3, 4)
            c = {"group": "hilbert", "r5": True, "n": n, "scale": q(s), "radius": q(s * (n // 2 - 2)),
                 "origin": [q(oy), q(ox)], "shift": [q(dy), q(dx)], "pixels": rng.randint(8, 20),
                 "masked_adapt": False, "settings_checks": bool(i % 2)}
            c = self._scaled(c, two ** rng.randint(-30, 30))
            c["tag"] = "dec_hilbert"
            yield c

    # ------------------------------------------------------------------ B: ownership histories
    def _ownership(self, tier, rng):
        for i in range(6 if tier == "quick" else 48):
            use_ds, mapper = (i % 2 == 1), (i % 4 == 2)
            c = self._history_two_worlds(rng, "origin", 0, "none", use_ds=use_ds, mapper=mapper, decoy=False)
            names = list(c["ops"][0][2])
            # three requests of world A, two of world B, every returned / accepted array overwritten in between;
            # the worlds are rebuilt from fresh equal inputs each time
            order = [0, 1, 0, 1, 0] if i % 3 else [0, 0, 0, 1, 1]
            ops = []
            for r, wi in enumerate(order):
                nm = names[:]
                rng.shuffle(nm)
                ops.append(["obs", wi, nm])
                if r < len(order) - 1:
                    ops += [["scribble"], ["rebuild"]]
            c.update({"tag": "own_ds" if use_ds else "own_mapper" if mapper else "own_geom", "script": "ownership",
                      "ops": ops, "share": [], "keep_raw": True, "ro_arrays": False, "r5": True})
            c["worlds"][1]["ctor"] = "ctor"
            c["worlds"][1].pop("from", None)
            yield c

    # ------------------------------------------------------------------ C: containers / layouts
    LAY_MASK = ["fortran", "tview", "strided", "reversed", "readonly", "fortran_readonly", "list", "intlist", "int",
                "uint8", "int8", "float", "invert", "from_mask"]
    # (no float32 origins / scales: under numpy 2 promotion rules a float32 scalar makes the coordinate arithmetic
    # float32 — 1e-7 relative, dtype promotion of the library as it is, not a statement of the property)
    LAY_ORIGIN = ["list", "nparray", "npfloat", "int"]
    LAY_SCALES = ["list", "nparray", "npfloat", "scalar", "int"]
    LAY_POINTS = ["list", "nparray", "npfloat"]
    LAY_GRID = ["fortran", "list", "slim", "other_geometry"]  # (Grid2DIrregular / ndarray are not accepted by the API)
    LAY_MESH = ["nparray", "lists"]
    LAY_VALUES = ["fortran", "list", "int", "f32", "slim", "readonly", "store_native"]
    LAY_SUB = ["array2d", "array2d_native"]
    LAY_DATA = ["fortran", "list", "f32", "readonly", "tview", "slim"]

    def _layouts(self, tier, rng):
        quick = tier == "quick"
        small_shapes = [(1, 1), (1, 4), (5, 1), (2, 2), (2, 5), (3, 3)]
        n = 30 if quick else 220
        for i in range(n):
            mk = self.LAY_MASK[i % len(self.LAY_MASK)]
            kw = {}
            if i % 5 == 4:
                kw["shape"] = small_shapes[(i // 5) % len(small_shapes)]
                kw["small"] = True
            if i % 3 == 0:  # integer world: int origins / scales are legal inputs
                kw["scales"] = (Fraction(rng.choice([1, 2, 3])), Fraction(rng.choice([1, 2, 3])))
                kw["origin"] = (Fraction(rng.randint(-4, 4)), Fraction(rng.randint(-4, 4)))
            elif i % 3 == 1:  # the explicit origin is exactly (0, 0) at one of the two origins
                if rng.random() < 0.5:
                    kw["origin"] = (Fraction(0), Fraction(0))
                else:
                    d = (gen.dyadic(rng, -3, 3, 2) or Fraction(1, 2), gen.dyadic(rng, -3, 3, 2))
                    kw["origin"], kw["shift"] = (-d[0], -d[1]), d
            side = ("od", "o", "both")[i % 3] if i % 7 else "both"
            if mk == "from_mask" and not kw.get("small"):
                # a Mask2D built from a Mask2D that sits elsewhere, with the explicit origin EXACTLY (0.0, 0.0) on the
                # side(s) where this constructor is used
                kw.pop("scales", None)
                if side == "od":
                    d = (gen.dyadic(rng, -3, 3, 2) or Fraction(1, 2), gen.dyadic(rng, -3, 3, 2))
                    kw["origin"], kw["shift"] = (-d[0], -d[1]), d
                else:
                    kw["origin"] = (Fraction(0), Fraction(0))
                    kw.pop("shift", None)
            c = self._geom_base(rng, **kw)
            var = {"mask": mk}
            if mk == "from_mask":
                var["src_origin"] = [q(gen.dyadic(rng, -4, 4, 2) or Fraction(3)), q(gen.dyadic(rng, -4, 4, 2))]
                if rng.random() < 0.5:
                    var["src_scales"] = [q(rng.choice(gen.SCALES)), q(rng.choice(gen.SCALES))]
            for key, vals in (("origin", self.LAY_ORIGIN), ("scales", self.LAY_SCALES), ("points", self.LAY_POINTS),
                              ("grid", self.LAY_GRID), ("mesh_points", self.LAY_MESH), ("values", self.LAY_VALUES),
                              ("sub", self.LAY_SUB)):
                if rng.random() < 0.45:
                    var[key] = rng.choice(vals)
            c["variant"] = var
            c["variant_at"] = side
            if i % 6 == 5:
                c["points"] = c["points"][:1]  # a one-element query grid
            if kw.get("small"):
                c["overlay"] = None
            c["tag"] = f"lay_{mk}"
            yield c
        for i in range(6 if quick else 40):
            h, w = rng.randint(7, 9), rng.randint(7, 9)
            m, kind = gen.random_mask(rng, h, w, margin=rng.choice([0, 1, 2]))
            sy, sx = gen.scales_pair(rng)
            oy, ox = gen.origin_pair(rng)
            dy, dx = gen.dyadic(rng, -3, 3, 2), gen.dyadic(rng, -3, 3, 2) or Fraction(-3, 4)
            var = {"mask": rng.choice(self.LAY_MASK), "data": self.LAY_DATA[i % len(self.LAY_DATA)]}
            if var["mask"] == "from_mask":
                var["src_origin"] = [q(gen.dyadic(rng, -4, 4, 2) or Fraction(3)), q(gen.dyadic(rng, -4, 4, 2))]
            if rng.random() < 0.5:
                var["origin"] = rng.choice(self.LAY_ORIGIN)
            yield {"tag": "lay_dataset", "group": "dataset", "r5": True, "mask": mask_json(m),
                   "scales": [q(sy), q(sx)], "origin": [q(oy), q(ox)], "shift": [q(dy), q(dx)],
                   "seed": rng.randint(0, 10 ** 6), "variant": var, "variant_at": ("od", "o", "both")[i % 3]}
        for i in range(4 if quick else 24):
            h, w = rng.randint(6, 8), rng.randint(6, 8)
            m, kind = gen.random_mask(rng, h, w, margin=1)
            sy, sx = gen.scales_pair(rng)
            oy, ox = gen.origin_pair(rng)
            dy, dx = gen.dyadic(rng, -3, 3, 2), gen.dyadic(rng, -3, 3, 2) or Fraction(1, 2)
            var = {"mask": rng.choice(self.LAY_MASK), "origin": rng.choice(self.LAY_ORIGIN + ["tuple"])}
            if var["mask"] == "from_mask":
                var["src_origin"] = [q(gen.dyadic(rng, -4, 4, 2) or Fraction(3)), q(gen.dyadic(rng, -4, 4, 2))]
            yield {"tag": "lay_mapper", "group": "mapper", "r5": True, "mask": mask_json(m),
                   "scales": [q(sy), q(sx)], "origin": [q(oy), q(ox)], "shift": [q(dy), q(dx)],
                   "sub": rng.randint(1, 2), "mesh": [rng.randint(3, 4), rng.randint(3, 5)],
                   "seed": rng.randint(0, 10 ** 6), "variant": var, "variant_at": ("od", "o", "both")[i % 3]}

    # ------------------------------------------------------------------ D: configuration histories
    CFG_RADIAL = ["radial_projected", "radial_keep", "radial_drop"]
    # entries that work while general.structures.native_binned_only is set (over-sampling and Array2D-valued index
    # tables do not: the option exists for PyAutoCTI and its docstring advises against using it)
    NBO_SAFE = ["from_mask", "all_false", "unmasked", "edge", "border", "blurring", "padded", "mask_centre", "extent",
                "scaled_minmax", "zoom_mask_unmasked", "zoomed_around_mask", "resized", "overlay_mesh",
                "pixel_coordinates", "grid_pixel_centres", "grid_pixels", "mesh_pixels_per_image_pixels", "edge_slim",
                "border_slim", "pixels_in_mask", "blurring_bits", "resized_bits", "ds_uniform", "ds_pixelization",
                "ds_blurring", "ds_origins", "simulator"]

    def _conf_histories(self, tier, rng):
        for i in range(6 if tier == "quick" else 48):
            use_ds = i % 2 == 1
            c = self._history_two_worlds(rng, "origin", 0, "all" if i % 4 < 2 else "none", use_ds=use_ds, mapper=False,
                                         decoy=False)
            base = [n for n in c["ops"][0][2] if n != "radial_projected"]

            def names(k=10):
                nm = rng.sample(base, min(k, len(base))) + list(self.CFG_RADIAL)
                rng.shuffle(nm)
                return nm
            first = i % 2  # which world is read first
            a, b = first, 1 - first
            if i % 4 == 3:
                # native_binned_only: every Array2D is stored natively while it is set (objects are built under the
                # value in force: `rebuild` after each flip; only the entries that support the option are read)
                safe = [n for n in base if n in self.NBO_SAFE]

                def nbo_names(k=12):
                    nm = rng.sample(safe, min(k, len(safe))) + list(self.CFG_RADIAL)
                    rng.shuffle(nm)
                    return nm
                ops = [["obs", a, names()], ["conf", "nbo", True], ["rebuild"], ["obs", a, nbo_names()],
                       ["obs", b, nbo_names()], ["conf", "nbo", False], ["rebuild"], ["obs", b, names()],
                       ["obs", a, names()]]
                tag = "cfg_native_binned_only"
            else:
                v0 = bool(i % 3 == 0)  # start from the non-pinned value in a third of the histories
                ops = ([["conf", "rpc", True]] if v0 else []) + \
                      [["obs", a, names()], ["conf", "rpc", not v0], ["obs", a, names()], ["obs", b, names()],
                       ["conf", "rpc", v0], ["obs", b, names()], ["obs", a, names()], ["rebuild"],
                       ["conf", "rpc", not v0], ["obs", a, names()]]
                tag = "cfg_remove_projected_centre"
            c.update({"tag": tag, "script": "config", "ops": ops, "r5": True})
            c["worlds"][1]["ctor"] = "ctor"
            c["worlds"][1].pop("from", None)
            yield c

    # ------------------------------------------------------------------ F: options crossed pairwise
    @staticmethod
    def _option_space(fn, table):
        """{parameter: [non-default values]} for the parameters `fn` really has (inspect.signature): the values of
        `table` where it names the parameter, the flipped default for any other boolean parameter"""
        import inspect
        out = {}
        try:
            params = inspect.signature(fn).parameters
        except (TypeError, ValueError):
            return out
        for name, p in params.items():
            if name in ("self", "cls", "args", "kwargs"):
                continue
            if name in table:
                if table[name]:
                    out[name] = list(table[name])
            elif isinstance(p.default, bool):
                out[name] = [not p.default]
        return out

    @staticmethod
    def _pairwise(space):
        """defaults, every single non-default value, every pair of non-default values of two different options"""
        names = sorted(space)
        out = [{}]
        for n in names:
            out += [{n: v} for v in space[n]]
        for i, a in enumerate(names):
            for b in names[i + 1:]:
                out += [{a: va, b: vb} for va in space[a] for vb in space[b]]
        return out

    @staticmethod
    def _covering_rows(space, rng, tries=24):
        """option assignments {parameter: non-default value} (absent = default) such that every pair of values of two
        different parameters — defaults included — occurs together in some row (greedy pairwise covering array: a
        handful of rows cross everything with everything)"""
        names = sorted(space)
        vals = {n: [None] + list(space[n]) for n in names}  # index 0 = leave the default
        need = {(a, i, b, j) for x, a in enumerate(names) for b in names[x + 1:]
                for i in range(len(vals[a])) for j in range(len(vals[b]))}
        rows = []
        while need and len(rows) < 300:
            best, best_cov = None, -1
            pool = sorted(need)
            for _ in range(tries):
                row = {n: rng.randrange(len(vals[n])) for n in names}
                a, i, b, j = pool[rng.randrange(len(pool))]
                row[a], row[b] = i, j
                cov = sum(1 for (x, ix, y, iy) in need if row[x] == ix and row[y] == iy)
                if cov > best_cov:
                    best, best_cov = row, cov
            rows.append(best)
            need = {(x, ix, y, iy) for (x, ix, y, iy) in need if not (best[x] == ix and best[y] == iy)}
        return [{n: vals[n][i] for n, i in r.items() if i != 0} for r in rows]

    def _options(self, tier, rng):
        aa = load_autoarray()
        from autoarray.dataset import preprocess
        quick = tier == "quick"
        # geometry entry points (option -> key of case["opts"])
        space = {}
        for fn, table, ren in (
                (aa.Array2D.zoomed_around_mask, {"buffer": [0, 2]}, {}),
                (aa.Mask2D.resized_from, {"new_shape": [], "pad_value": [1]}, {}),
                (aa.Grid2D.grid_2d_radial_projected_from,
                 {"centre": [], "angle": [], "shape_slim": [1, 5], "remove_projected_centre": [True, False]},
                 {"remove_projected_centre": "rpc"}),
                (aa.Grid2D.from_mask, {"mask": [], "over_sampling": ["sub"]}, {"over_sampling": "from_mask_os"})):
            for k, v in self._option_space(fn, table).items():
                space[ren.get(k, k)] = v
        combos = self._pairwise(space)
        rng.shuffle(combos)
        rows = self._covering_rows(space, rng)  # every pair of option values in about ten cases
        for opts in ((rows + combos)[:max(12, len(rows))] if quick else rows + self._covering_rows(space, rng) + combos):
            c = self._geom_base(rng)
            known = {k: v for k, v in opts.items() if k in ("buffer", "pad_value", "shape_slim", "rpc", "from_mask_os")}
            if len(known) != len(opts):
                continue  # an option this harness has no observation for (new parameter): nothing to cross
            if known.get("from_mask_os") == "sub":
                known["from_mask_os"] = c["sub"]
            c["opts"] = known
            c["tag"] = "opt_geom"
            yield c
        # datasets
        img = self._pairwise(self._option_space(aa.Imaging.__init__, {
            "data": [], "noise_map": [], "noise_covariance_matrix": [], "psf": ["none"],
            "over_sampling": ["u2", "u2p3"], "use_normalized_psf": [False, None]}))
        nsc = self._pairwise(self._option_space(aa.Imaging.apply_noise_scaling, {
            "mask": [], "noise_value": [0.0, 5.0], "signal_to_noise_value": [2.0]}))
        sim = self._pairwise(self._option_space(aa.SimulatorImaging.__init__, {
            "exposure_time": [], "background_sky_level": [5.0], "psf": ["none"], "noise_if_add_noise_false": [0.0, 0.5],
            "noise_seed": [0, 1]}))
        s2n = self._pairwise(self._option_space(preprocess.noise_map_with_signal_to_noise_limit_from, {
            "data": [], "noise_map": [], "signal_to_noise_limit": [], "noise_limit_mask": ["mask"]}))
        for lst in (img, nsc, sim, s2n):
            rng.shuffle(lst)
        # covering rows first (all pairs of each callable's option values within the first dozen cases), the isolated
        # pairs after them (thorough tier)
        img = self._covering_rows(self._option_space(aa.Imaging.__init__, {
            "data": [], "noise_map": [], "noise_covariance_matrix": [], "psf": ["none"],
            "over_sampling": ["u2", "u2p3"], "use_normalized_psf": [False, None]}), rng) + img
        nsc = self._covering_rows(self._option_space(aa.Imaging.apply_noise_scaling, {
            "mask": [], "noise_value": [0.0, 5.0], "signal_to_noise_value": [2.0]}), rng) + nsc
        sim = self._covering_rows(self._option_space(aa.SimulatorImaging.__init__, {
            "exposure_time": [], "background_sky_level": [5.0], "psf": ["none"], "noise_if_add_noise_false": [0.0, 0.5],
            "noise_seed": [0, 1]}), rng) + sim
        n_ds = 16 if quick else max(len(img), len(nsc), len(sim))
        for i in range(n_ds):
            h, w = rng.randint(7, 9), rng.randint(7, 9)
            m, kind = gen.random_mask(rng, h, w, margin=rng.choice([0, 1, 2]))
            sy, sx = gen.scales_pair(rng)
            oy, ox = gen.origin_pair(rng)
            dy, dx = gen.dyadic(rng, -3, 3, 2), gen.dyadic(rng, -3, 3, 2) or Fraction(-3, 4)
            yield {"tag": "opt_dataset", "group": "dsopts", "r5": True, "mask": mask_json(m),
                   "scales": [q(sy), q(sx)], "origin": [q(oy), q(ox)], "shift": [q(dy), q(dx)],
                   "seed": rng.randint(0, 10 ** 6),
                   "ds_opts": {"imaging": img[i % len(img)], "noise_scaling": nsc[i % len(nsc)],
                               "simulator": sim[i % len(sim)], "s2n": s2n[i % len(s2n)],
                               "trim_kernel": rng.choice([[3, 3], [1, 3], [3, 5]])}}
        # Hilbert image mesh x the optional mesh checks of SettingsInversion
        hb = self._pairwise({"weight_floor": [0.0, 0.25], "weight_power": [0.0, 2.0],
                             "min_per_pixel": [0, None], "min_number": [1, 0], "background": [None, 0.0]})
        rng.shuffle(hb)
        for i, o in enumerate(hb[:(2 if quick else 16)]):
            n = rng.choice([15, 17])
            s = rng.choice([Fraction(1, 4), Fraction(1, 2)])
            oy, ox = gen.origin_pair(rng)
            dy, dx = gen.dyadic(rng, -3, 3, 2), gen.dyadic(rng, -3, 3, 2) or Fraction(3, 4)
            yield {"tag": "opt_hilbert", "group": "hilbert", "r5": True, "n": n, "scale": q(s),
                   "radius": q(s * (n // 2 - 2)), "origin": [q(oy), q(ox)], "shift": [q(dy), q(dx)],
                   "pixels": rng.randint(8, 20), "masked_adapt": False, "settings_checks": True, "hb_opts": o}

    def _entries_dsopts(self, aa, case, origin, shift):
        """dataset entry points under crossed options: Imaging(...) itself, apply_mask, apply_noise_scaling(...),
        apply_over_sampling, trimmed_after_convolution_from, SimulatorImaging(...).via_image_from and the
        signal-to-noise-limited noise map"""
        from autoarray.dataset import preprocess
        m = self._mask(aa, case, origin)
        ps = m.pixel_scales
        h, w = m.shape_native
        rs = np.random.RandomState(case["seed"])
        data_v = np.round(rs.uniform(1, 9, size=(h, w)) * 8) / 8
        noise_v = np.round(rs.uniform(1, 3, size=(h, w)) * 8) / 8
        o_ = case["ds_opts"]
        out = {}

        def grid(g):
            return np.asarray(g.array if hasattr(g, "array") else g, dtype=float).reshape(-1, 2).tolist()

        def bits(mm):
            return "".join("1" if b else "0" for b in np.asarray(mm.array, dtype=bool).ravel())

        def put(name, kind, fn):
            try:
                out[name] = {"kind": kind, "value": fn()}
            except Exception as e:
                out[name] = {"kind": kind, "value": None, "err": type(e).__name__, "msg": str(e)[:200]}

        def kernel():
            return aa.Kernel2D.no_mask(values=np.array([[1.0, 2.0, 1.0], [0.0, 4.0, 2.0], [1.0, 3.0, 2.0]]) / 16.0,
                                       pixel_scales=ps)

        def os_(kind):
            if kind == "u2":
                return aa.OverSamplingDataset(uniform=aa.OverSamplingUniform(sub_size=2))
            return aa.OverSamplingDataset(uniform=aa.OverSamplingUniform(sub_size=2),
                                          pixelization=aa.OverSamplingUniform(sub_size=3))

        def ds():
            kw = dict(o_.get("imaging") or {})
            psf = None if kw.pop("psf", "kernel") == "none" else kernel()
            if "over_sampling" in kw:
                kw["over_sampling"] = os_(kw["over_sampling"])
            data = aa.Array2D.no_mask(values=data_v.copy(), pixel_scales=ps, origin=origin)
            noise = aa.Array2D.no_mask(values=noise_v.copy(), pixel_scales=ps, origin=origin)
            return aa.Imaging(data=data, noise_map=noise, psf=psf, **kw)

        def rec(d, random_values=False):
            r = {"data_origin": list(map(float, d.data.mask.origin)),
                 "noise_origin": list(map(float, d.noise_map.mask.origin)),
                 "shape": list(d.data.shape_native), "grid": grid(d.grids.uniform),
                 "bits": bits(d.data.mask), "noise_grid": grid(aa.Grid2D.from_mask(mask=d.noise_map.mask)),
                 "noise_shape": list(d.noise_map.shape_native), "noise_bits": bits(d.noise_map.mask)}
            r["data_random" if random_values else "data"] = np.asarray(d.data.native.array, dtype=float).ravel().tolist()
            if not random_values:
                r["noise"] = np.asarray(d.noise_map.native.array, dtype=float).ravel().tolist()
            return r
        put("imaging", "dsrec", lambda: rec(ds()))
        put("apply_mask", "dsrec", lambda: rec(ds().apply_mask(mask=m)))
        put("apply_noise_scaling", "dsrec", lambda: rec(ds().apply_noise_scaling(mask=m, **(o_.get("noise_scaling") or {}))))
        put("apply_over_sampling", "dsrec", lambda: rec(ds().apply_mask(mask=m).apply_over_sampling(over_sampling=os_("u2p3"))))
        put("trimmed", "dsrec", lambda: rec(ds().trimmed_after_convolution_from(kernel_shape=tuple(o_.get("trim_kernel", [3, 3])))))

        def sim():
            kw = dict(o_.get("simulator") or {})
            psf = None if kw.pop("psf", "kernel") == "none" else kernel()
            s = aa.SimulatorImaging(exposure_time=100.0, psf=psf, **kw)
            image = aa.Array2D.no_mask(values=data_v.copy(), pixel_scales=ps, origin=origin)
            rnd = kw.get("noise_seed", -1) == -1
            return rec(s.via_image_from(image=image), random_values=rnd)
        put("simulator", "dsrec", sim)

        def s2n():
            d = ds()
            kw = {}
            if (o_.get("s2n") or {}).get("noise_limit_mask") == "mask":
                kw["noise_limit_mask"] = m
            r = preprocess.noise_map_with_signal_to_noise_limit_from(
                data=d.data, noise_map=d.noise_map, signal_to_noise_limit=2.0, **kw)
            return {"origin": list(map(float, r.mask.origin)), "shape": list(r.shape_native),
                    "grid": grid(aa.Grid2D.from_mask(mask=r.mask)), "bits": bits(r.mask),
                    "values": np.asarray(r.native.array, dtype=float).ravel().tolist()}
        put("s2n_limit_noise_map", "coordrec", s2n)
        return out

    # ------------------------------------------------------------------ E: always-on frames beyond 2^16 elements
    def _always_large(self, tier, rng):
        """one (quick) or a few (thorough) recipes of the large stream in EVERY run: a frame of more than 2^16 pixels,
        (thorough) more than 2^15 sub-pixels, query points and unmasked pixels; judged by the vectorised relation"""
        plan = [("frame", 65536)] if tier == "quick" else [("frame", 65536), ("sub_pixels", 32768), ("points", 65536),
                                                          ("unmasked", 4096), ("ds_frame", 16384)]
        for dim, c0 in plan:
            t, how = self._large_sizes(c0)[1 if dim != "frame" else 0]
            if dim == "frame":
                t, how = c0 + rng.randint(2, 3000), "ge"
            case, _cost = self._large_case(dim, c0, t, how, rng)
            if case is None:
                continue
            if dim == "frame":
                case["recipe"]["unmasked"] = 300  # Python-speed loops: keep the per-pixel work small
            case["tag"] = f"big_{dim}"
            case["r5"] = True
            yield case

    # ------------------------------------------------------------------ oracle of the round-5 geometry cases
    def _r5_oracle(self, case, obs, d):
        """closed forms, independent of the library (numpy), for what does not depend on implementation tables:
        pixel centres, all-false grid, sub-pixel grids, extent, pixel count, mask content — at both origins, in the
        band of the case's decade.  (`Equivalently, no result depends on where the origin is, only on positions
        relative to it.`)"""
        if case.get("group") != "geometry" or case.get("large"):
            return True, ""
        unit = self._unit(case)
        arr = mask_from_json(case["mask"])
        h, w = arr.shape
        sc = (F(case["scales"][0]), F(case["scales"][1]))
        o = (F(case["origin"][0]), F(case["origin"][1]))
        sub = int(case["sub"])
        for key, org in (("at_o", o), ("at_od", (o[0] + float(d[0]), o[1] + float(d[1])))):
            at = obs[key]
            exp = {"from_mask": self._np_centres(arr, sc, org), "unmasked": self._np_centres(arr, sc, org),
                   "all_false": self._np_centres(np.zeros_like(arr), sc, org),
                   "over_sampled": self._np_sub_grid(arr, sc, org, sub),
                   "border_sub_grid": self._np_sub_grid(arr, sc, org, sub)}
            for name, ex in exp.items():
                e = at.get(name)
                if e is None or e.get("err"):
                    continue
                got = np.asarray(e["value"], dtype=float).reshape(-1, 2)
                if got.shape != ex.shape or not self._close(got, ex, unit=unit):
                    return False, (f"{name} at origin {org} ({key}) is not origin + (pixel position relative to the "
                                   f"origin) [unit {unit:g}, variant {case.get('variant')} at {case.get('variant_at')}]")
            e = at.get("extent")
            if e is not None and not e.get("err"):
                ex = [org[1] - w / 2.0 * sc[1], org[1] + w / 2.0 * sc[1], org[0] - h / 2.0 * sc[0], org[0] + h / 2.0 * sc[0]]
                if not self._close(e["value"], ex, unit=unit):
                    return False, f"extent at origin {org} ({key}) is not origin -+ half the frame"
            e = at.get("mask_bits")
            if e is not None and not e.get("err") and e["value"] != case["mask"]["bits"]:
                return False, (f"the mask built from the {case.get('variant', {}).get('mask')} input ({key}) does not have "
                               f"the content of the input")
            e = at.get("pixels_in_mask")
            if e is not None and not e.get("err") and int(e["value"]) != int((~arr).sum()):
                return False, f"pixels_in_mask ({key}) is not the number of unmasked pixels"
            opts = case.get("opts") or {}
            e, f = at.get("radial_projected"), at.get("radial_full")
            if "rpc" in opts and e and f and not e.get("err") and not f.get("err"):
                want = f["value"][1:] if opts["rpc"] else f["value"]
                if len(e["value"]) != len(want) or not self._close(np.asarray(e["value"]).reshape(-1, 2),
                                                                    np.asarray(want).reshape(-1, 2), unit=unit):
                    return False, (f"grid_2d_radial_projected_from(remove_projected_centre={opts['rpc']}, options {opts}) "
                                   f"({key}): {len(e['value'])} points, the same call keeping the centre has {len(f['value'])}")
            if opts.get("shape_slim") and e and not e.get("err"):
                n_want = int(opts["shape_slim"]) - (1 if opts.get("rpc") else 0)
                if len(e["value"]) != n_want:
                    return False, f"grid_2d_radial_projected_from(options {opts}) ({key}): {len(e['value'])} points, not {n_want}"
        return True, ""

    # ------------------------------------------------------------------ oracle: the metamorphic relation
    @staticmethod
    def _close(a, b, tol=TOL, unit=None):
        """|a - b| <= tol * max(1, |a|, |b|) (the property's 1e-9 band).  With `unit` (decades stream: every length
        of the world is a multiple of the power of two `unit`): |a - b| <= max(tol * unit, 2^-46 * max(|a|, |b|)),
        i.e. 1e-9 of the world's own length scale, but never less than 64 ulps of the values compared — the
        absolute floor `1` of the ordinary band would hide everything in a world of size 1e-13, and a band relative
        to a far-away origin would hide whole pixels."""
        a = np.asarray(a, dtype=float)
        b = np.asarray(b, dtype=float)
        if a.shape != b.shape:
            return False
        if a.size == 0:
            return True
        if unit is not None:
            return bool(np.all(np.abs(a - b) <= np.maximum(tol * unit, 2.0 ** -46 * np.maximum(np.abs(a), np.abs(b)))))
        return bool(np.all(np.abs(a - b) <= tol * np.maximum(1.0, np.maximum(np.abs(a), np.abs(b)))))

    @staticmethod
    def _rect_tie(src, mesh_shape, margin=Fraction(1, 10**6)):
        """exact test: does a source-plane point lie within `margin` (in mesh-pixel units) of an INTERIOR
        cell boundary of the overlaid rectangular mesh?  There float rounding may pick either cell."""
        pts = [(Fraction(a), Fraction(b)) for a, b in src]
        buf = Fraction(1e-8)
        out = False
        for axis, S in ((0, mesh_shape[0]), (1, mesh_shape[1])):
            lo = min(p[axis] for p in pts) - buf
            hi = max(p[axis] for p in pts) + buf
            if hi == lo:
                continue
            for p in pts:
                c = (hi - p[axis]) / (hi - lo) * S if axis == 0 else (p[axis] - lo) / (hi - lo) * S
                if c < Fraction(1, 2) or c > S - Fraction(1, 2):
                    continue
                f = c - (c.numerator // c.denominator)
                if min(f, 1 - f) < margin:
                    out = True
        return out

    @staticmethod
    def _rect_tie_np(src, mesh_shape, margin=1e-6):
        """vectorised form of `_rect_tie` for the large stream (float evaluation: the margin, 1e-6 of a cell,
        is ~10^6 times the rounding error of the evaluation)"""
        pts = np.array([[float(Fraction(a)), float(Fraction(b))] for a, b in src], dtype=float)
        buf = 1e-8
        for axis, S in ((0, mesh_shape[0]), (1, mesh_shape[1])):
            lo, hi = pts[:, axis].min() - buf, pts[:, axis].max() + buf
            if hi == lo:
                continue
            c = (hi - pts[:, axis]) / (hi - lo) * S if axis == 0 else (pts[:, axis] - lo) / (hi - lo) * S
            inner = (c >= 0.5) & (c <= S - 0.5)
            f = c - np.floor(c)
            if np.any(inner & (np.minimum(f, 1 - f) < margin)):
                return True
        return False

    def oracle(self, case, obs):
        if case.get("group") == "history":
            return self._history_oracle(case, obs)
        if case.get("large"):
            # large stream: run_impl evaluated the very relation below (`_relation`) on the full arrays and kept a
            # summary (the arrays of a 10^5-pixel frame do not belong into evidence / replay files)
            if "relation" not in obs:
                return False, f"implementation raised {obs}"
            return bool(obs["relation"]["holds"]), obs["relation"]["detail"]
        if "err" in obs and "at_o" not in obs:
            return False, f"implementation raised {obs}"
        d = np.array([F(case["shift"][0]), F(case["shift"][1])])
        ok, detail = self._relation(case, obs["at_o"], obs["at_od"], d)
        if ok and case.get("r5"):
            ok, detail = self._r5_oracle(case, obs, d)
        return ok, detail

    def _relation(self, case, at_o, at_od, d, names=None):
        """the metamorphic relation of the property between the entries evaluated at origin o (`at_o`) and at
        o+d (`at_od`): coordinate-valued entries translate by d, everything else is unchanged."""
        unit = self._unit(case) if case.get("unit") is not None else None
        for name, e0 in at_o.items():
            if names is not None and name not in names:
                continue
            if name not in at_od:
                if names is None:
                    return False, f"{name}: evaluated at origin o but missing at o+d"
                continue
            e1 = at_od[name]
            if e0.get("err") or e1.get("err"):
                if e0.get("err") != e1.get("err"):
                    return False, f"{name}: raises {e0.get('err')} at origin o but {e1.get('err')} at o+d {e1.get('msg','')}"
                if e0.get("err") not in ("MaskException",) and case.get("group") != "dsopts" and not case.get("hb_opts"):
                    # only the documented footprint-outside-frame error is an acceptable outcome (crossed options may
                    # hit combinations the API does not support: then the same failure at both origins is no geometry)
                    return False, f"{name}: raises {e0.get('err')} at both origins {e0.get('msg','')}"
                continue
            k, v0, v1 = e0["kind"], e0["value"], e1["value"]
            if name == "mapper_rectangular":
                tie = self._rect_tie_np if case.get("large") else self._rect_tie
                if tie(v0["src"], case["mesh"]) or tie(v1["src"], case["mesh"]):
                    continue  # tie band of a mesh-cell boundary: either cell is acceptable
            if k == "coord":
                a0 = np.asarray(v0, dtype=float).reshape(-1, 2)
                a1 = np.asarray(v1, dtype=float).reshape(-1, 2)
                if a0.shape != a1.shape or not self._close(a0 + d, a1, unit=unit):
                    where = ""
                    if a0.shape == a1.shape and a0.size:
                        i = int(np.argmax(np.abs(a1 - (a0 + d)).max(axis=1)))
                        where = (f" (row {i} of {len(a0)}: {a0[i].tolist()} at o, {a1[i].tolist()} at o+d, moved by "
                                 f"{(a1[i] - a0[i]).tolist()} instead of d={np.asarray(d).tolist()})")
                    return False, f"{name}: coordinates at origin o+d are not those at o translated by d" + where
            elif k == "extent":
                if not self._close(np.asarray(v0) + np.array([d[1], d[1], d[0], d[0]]), v1, unit=unit):
                    return False, f"{name}: extent not translated by d"
            elif k == "inv":
                if name == "grid_pixels" and case.get("pix_mag"):
                    # continuous pixel coordinates are computed as -p/s + (centre + o/s): their rounding error is a few
                    # ulps of |o| / s, which for an origin 1e10 pixels away is not 1e-9 of a pixel
                    if not bool(np.all(np.abs(np.asarray(v0, dtype=float) - np.asarray(v1, dtype=float))
                                       <= max(1e-9, 2.0 ** -44 * float(case["pix_mag"])))):
                        return False, f"{name}: continuous pixel coordinates change with the origin"
                elif not self._deep_close(v0, v1, unit=unit):
                    return False, f"{name}: index/weight/matrix-valued result changes with the origin"
            elif k in ("coordrec", "dsrec"):
                if set(v0) != set(v1):
                    return False, f"{name}: record fields {sorted(v0)} at o but {sorted(v1)} at o+d"
                for key in v0:
                    if key.endswith("origin") or key.endswith("grid"):
                        a0 = np.asarray(v0[key], dtype=float).reshape(-1, 2)
                        a1 = np.asarray(v1[key], dtype=float).reshape(-1, 2)
                        if a0.shape != a1.shape or not self._close(a0 + d, a1, unit=unit):
                            return False, f"{name}.{key}: not translated by d"
                    elif key == "extent":
                        if not self._close(np.asarray(v0[key]) + np.array([d[1], d[1], d[0], d[0]]), v1[key], unit=unit):
                            return False, f"{name}.extent: not translated by d"
                    elif key == "data_random":
                        continue  # values drawn with a fresh random seed (noise_seed=-1): only the geometry is compared
                    else:
                        if not self._deep_close(v0[key], v1[key]):
                            return False, f"{name}.{key}: changes with the origin"
        return True, ""

    def _deep_close(self, a, b, unit=None):
        if isinstance(a, dict):
            return isinstance(b, dict) and set(a) == set(b) and all(
                k in ("src", "mesh_origin", "mesh_scales_q")  # coordinate-valued helpers, fed to the model, not invariants
                or (k.endswith("_rel") and self._close(a[k], b[k], unit=unit)) or
                (not k.endswith("_rel") and self._deep_close(a[k], b[k])) for k in a)
        if isinstance(a, str) or isinstance(b, str):
            return a == b
        try:
            return self._close(a, b)
        except Exception:
            return a == b

    def known_finding(self, case, obs):
        if case.get("group") == "hilbert" and case.get("masked_adapt"):
            return "D10h"
        return None

    # ------------------------------------------------------------------ model (geometry records)
    MODEL_ENTRIES = ["from_mask", "all_false", "unmasked", "edge", "border", "blurring", "padded",
                     "over_sampled", "border_sub_grid", "mask_centre", "extent", "scaled_minmax",
                     "zoom_mask_unmasked", "zoomed_around_mask", "resized", "pixel_coordinates",
                     "grid_pixel_indexes", "grid_pixel_centres", "grid_pixels", "radial_projected"]

    def model_requests(self, case, impl_obs):
        if case.get("group") == "history":
            return self._history_requests(case, impl_obs)
        if case.get("large"):
            return []  # large stream: judged by the oracle alone (see `_summarise_large`)
        if "at_o" not in impl_obs:
            return []
        if case["group"] == "mapper":
            reqs = []
            for key in ("at_o", "at_od"):
                e = impl_obs[key].get("mapper_rectangular", {})
                if e.get("err") or not e.get("value"):
                    raise Skip("mapper construction failed")
                reqs.append({"op": "c12.rect_mapper", "grid": e["value"]["src"], "mesh": case["mesh"],
                             "buffer": q(1e-8)})
            return reqs
        if case["group"] in ("dataset", "dsopts"):
            return self._ds_requests(case, impl_obs) if case.get("r5") else []
        if case["group"] != "geometry":
            return []
        reqs = []
        o = [Fraction(case["origin"][0]), Fraction(case["origin"][1])]
        d = [Fraction(case["shift"][0]), Fraction(case["shift"][1])]
        for key, org, sh in (("at_o", o, [0, 0]), ("at_od", [o[0] + d[0], o[1] + d[1]], d)):
            e = impl_obs[key]
            need = ("edge_slim", "border_slim", "blurring_bits", "resized_bits", "zoom_mask_unmasked",
                    "zoomed_around_mask")
            if any(e[n].get("err") for n in need):
                if case.get("r5"):
                    return []  # round-5 streams: judged by the oracle (relation + closed forms) when a table is missing
                raise Skip("an implementation-side table is unavailable (footprint outside frame)")
            reqs.append({
                "op": "c12.entries", "mask": case["mask"], "scales": case["scales"],
                "origin": [q(org[0]), q(org[1])], "kernel": case["kernel"], "sub": case["sub"],
                "edge_slim": e["edge_slim"]["value"], "border_slim": e["border_slim"]["value"],
                "blurring_bits": e["blurring_bits"]["value"],
                "resized_shape": case["resize_to"], "resized_bits": e["resized_bits"]["value"],
                "zoom_shape": e["zoom_mask_unmasked"]["value"]["shape"],
                "zoomed_shape": e["zoomed_around_mask"]["value"]["shape"],
                "points": [[q(Fraction(a) + sh[0]), q(Fraction(b) + sh[1])] for a, b in case["points"]],
            })
        import math
        phi = math.radians(float(case["angle"]))
        u = Fraction(case.get("unit", "1"))
        cr = case.get("centre_rel") or [q(u / 4), q(-u / 2)]
        for org in (o, [o[0] + d[0], o[1] + d[1]]):
            r = {"op": "c12.radial", "shape": [case["mask"]["h"], case["mask"]["w"]],
                 "scales": case["scales"], "origin": [q(org[0]), q(org[1])],
                 "centre": [q(org[0] + Fraction(cr[0])), q(org[1] + Fraction(cr[1]))],
                 "cos_sin": [q(math.cos(phi)), q(math.sin(phi))]}
            if (case.get("opts") or {}).get("shape_slim"):
                r["shape_slim"] = int(case["opts"]["shape_slim"])
            reqs.append(r)
        if case.get("r5"):
            reqs += self._ds_requests(case, impl_obs)  # derived-mask records (after the four requests above)
        return reqs

    # -- model judgement of dataset records (round-5 streams): the grid of the returned data / noise map is the
    # pixel-centre grid of the returned mask in the geometry (returned shape, world scales, WORLD ORIGIN): every
    # dataset operation keeps the origin (`datasetKeepGeom` / `datasetTrimmedGeom`, theorem dataset_records_commute)
    def _ds_plan(self, case, impl_obs):
        plan = []
        if "at_o" not in impl_obs:
            return plan
        o = [Fraction(case["origin"][0]), Fraction(case["origin"][1])]
        d = [Fraction(case["shift"][0]), Fraction(case["shift"][1])]
        for key, org in (("at_o", o), ("at_od", [o[0] + d[0], o[1] + d[1]])):
            for name, e in impl_obs[key].items():
                v = e.get("value")
                if e.get("err") or not isinstance(v, dict) or "bits" not in v:
                    continue
                h, w = v["shape"]
                if h * w != len(v["bits"]) or h * w == 0:
                    continue
                eo = org
                if "offset_q" in v:  # Grid2D.subtracted_from: the mask moves by -offset
                    eo = [org[0] - Fraction(v["offset_q"][0]), org[1] - Fraction(v["offset_q"][1])]
                plan.append((key, name, [q(eo[0]), q(eo[1])], {
                    "op": "c12.entries", "mask": {"h": h, "w": w, "bits": v["bits"]}, "scales": case["scales"],
                    "origin": [q(eo[0]), q(eo[1])], "kernel": [1, 1], "sub": 1, "edge_slim": [], "border_slim": [],
                    "blurring_bits": v["bits"], "resized_shape": [h, w], "resized_bits": v["bits"],
                    "zoom_shape": [1, 1], "zoomed_shape": [1, 1], "points": []}))
        return plan

    def _ds_requests(self, case, impl_obs):
        return [r for _, _, _, r in self._ds_plan(case, impl_obs)]

    def _ds_compare(self, case, impl_obs, responses, cmp):
        plan = self._ds_plan(case, impl_obs)
        if len(plan) != len(responses):
            return f"dataset records: {len(responses)} model responses for {len(plan)} requests"
        u = Fraction(case.get("unit", "1"))
        c2 = Cmp(rtol=Fraction(1, 2 ** 46), atol=Fraction(1, 10 ** 9))
        try:
            for (key, name, org, _), r in zip(plan, responses):
                if "err" in r:
                    return f"{key}.{name}: model error {r['err']}"
                v = impl_obs[key][name]["value"]
                okeys = [k for k in v if k.endswith("origin")]
                for k in okeys:
                    dd = c2.diff(self._unscale(v[k], u), self._unscale(org, u), f"$.{key}.{name}.{k}")
                    if dd:
                        return dd
                dd = c2.diff(self._unscale(v["grid"], u), self._unscale(r["ok"]["from_mask"], u), f"$.{key}.{name}.grid")
                if dd:
                    return dd
                if "extent" in v:
                    dd = c2.diff(self._unscale(v["extent"], u), self._unscale(r["ok"]["extent"], u), f"$.{key}.{name}.extent")
                    if dd:
                        return dd
                if "values_grid" in v:
                    dd = c2.diff(self._unscale(v["values_grid"], u), self._unscale(r["ok"]["from_mask"], u),
                                 f"$.{key}.{name}.values_grid")
                    if dd:
                        return dd
                if "noise_grid" in v and v.get("noise_shape") == v["shape"] and v.get("noise_bits") == v["bits"]:
                    dd = c2.diff(self._unscale(v["noise_grid"], u), self._unscale(r["ok"]["from_mask"], u),
                                 f"$.{key}.{name}.noise_grid")
                    if dd:
                        return dd
        finally:
            cmp.exact += c2.exact
            cmp.tolerant += c2.tolerant
        return None

    @classmethod
    def _unscale(cls, v, u):
        """every number of a coordinate-valued (nested) value divided by the power of two `u`, exactly"""
        if isinstance(v, (list, tuple)):
            return [cls._unscale(x, u) for x in v]
        if isinstance(v, float):
            if v != v or v in (float("inf"), float("-inf")):
                return v
            return Fraction(v) / u
        if isinstance(v, (int, Fraction)) and not isinstance(v, bool):
            return Fraction(v) / u
        if isinstance(v, str):
            try:
                return Fraction(v) / u
            except (ValueError, ZeroDivisionError):
                return v
        return v

    COORD_ENTRIES = ("from_mask", "all_false", "unmasked", "edge", "border", "blurring", "padded", "over_sampled",
                     "border_sub_grid", "mask_centre", "extent", "scaled_minmax", "radial_projected")
    REC_ENTRIES = ("zoom_mask_unmasked", "zoomed_around_mask", "resized")

    def model_obs(self, case, responses):
        if case.get("group") == "history":
            return {"steps": responses}
        if case.get("group") in ("dataset", "dsopts"):
            return {"records": responses}
        for r in responses:
            if "err" in r:
                return {"err": r["err"]}
        out = {"at_o": responses[0]["ok"], "at_od": responses[1]["ok"]}
        if len(responses) >= 4:
            out["at_o"]["radial_projected"] = responses[2]["ok"]
            out["at_od"]["radial_projected"] = responses[3]["ok"]
            out["records"] = responses[4:]
        return out

    def compare(self, case, impl_obs, model_obs, cmp):
        if case.get("group") == "history":
            return self._history_compare(case, impl_obs, model_obs, cmp)
        if case.get("group") in ("dataset", "dsopts"):
            return self._ds_compare(case, impl_obs, model_obs["records"], cmp)
        if "err" in model_obs:
            return f"model error {model_obs}"
        if case["group"] == "geometry" and case.get("r5"):
            recs = model_obs.pop("records", [])
            if case.get("unit") is not None or case.get("opts"):
                d = self._compare_r5_geometry(case, impl_obs, model_obs, cmp)
            else:
                d = self._compare_geometry(case, impl_obs, model_obs, cmp)
            return d or self._ds_compare(case, impl_obs, recs, cmp)
        if case["group"] == "mapper":
            unit = Fraction(case["unit"]) if case.get("unit") is not None else None
            cc = Cmp(rtol=Fraction(1, 2 ** 46), atol=Fraction(1, 10 ** 9)) if unit is not None else cmp
            us = (lambda x: self._unscale(x, unit)) if unit is not None else (lambda x: x)
            try:
                for key in ("at_o", "at_od"):
                    mo = model_obs[key]
                    if Fraction(mo["tie_margin"]) < Fraction(1, 10**6):
                        raise Skip("a source-plane point lies within the tie band of a mesh cell boundary")
                    v = impl_obs[key]["mapper_rectangular"]["value"]
                    d = cc.diff({"pix": [int(x[0]) if isinstance(x, list) else int(x) for x in v["pix_indexes"]],
                                 "origin": us(v["mesh_origin"]), "scales": us(v["mesh_scales_q"])},
                                {"pix": mo["pix_indexes"], "origin": us(mo["origin"]), "scales": us(mo["scales"])},
                                f"$.{key}.mapper_rectangular")
                    if d:
                        return d
            finally:
                if cc is not cmp:
                    cmp.exact += cc.exact
                    cmp.tolerant += cc.tolerant
            return None
        model_obs.pop("records", None)
        return self._compare_geometry(case, impl_obs, model_obs, cmp)

    def _compare_geometry(self, case, impl_obs, model_obs, cmp):
        for key in ("at_o", "at_od"):
            for name in self.MODEL_ENTRIES:
                e = impl_obs[key][name]
                if e.get("err"):
                    return f"{key}.{name}: implementation raised {e['err']}"
                iv = e["value"]
                mv = model_obs[key][name]
                if name in ("zoomed_around_mask",):
                    iv = {k: iv[k] for k in ("origin", "shape", "grid")}
                if name == "mask_centre":
                    iv = iv[0]
                d = cmp.diff(iv, mv, f"$.{key}.{name}")
                if d:
                    return d
        return None

    def _compare_r5_geometry(self, case, impl_obs, model_obs, cmp):
        """geometry entries of a decades / options case against the model: lengths are compared in units of the
        case's decade (division by a power of two: exact) with the band max(1e-9, 2^-46 |value / unit|)"""
        u = Fraction(case.get("unit", "1"))
        opts = case.get("opts") or {}
        c2 = Cmp(rtol=Fraction(1, 2 ** 46), atol=Fraction(1, 10 ** 9))
        try:
            for key in ("at_o", "at_od"):
                names = list(self.MODEL_ENTRIES) + (["over_sampled_via_grid"] if opts.get("from_mask_os") else [])
                for name in names:
                    e = impl_obs[key][name]
                    if e.get("err"):
                        return f"{key}.{name}: implementation raised {e['err']}"
                    iv = e["value"]
                    mv = model_obs[key]["over_sampled" if name == "over_sampled_via_grid" else name]
                    if name == "zoomed_around_mask":
                        iv = {k: iv[k] for k in ("origin", "shape", "grid")}
                    if name == "mask_centre":
                        iv = iv[0]
                    if name == "radial_projected" and opts.get("rpc") and isinstance(mv, list):
                        mv = mv[1:]  # remove_projected_centre=True: the line without its first point (the centre)
                    if name == "grid_pixels" and case.get("pix_mag"):
                        c3 = Cmp(rtol=0, atol=Fraction(max(1e-9, 2.0 ** -44 * float(case["pix_mag"]))))
                        d = c3.diff(iv, mv, f"$.{key}.{name}")
                        c2.exact += c3.exact
                        c2.tolerant += c3.tolerant
                        if d:
                            return d
                        continue
                    if name in self.COORD_ENTRIES or name == "over_sampled_via_grid":
                        iv, mv = self._unscale(iv, u), self._unscale(mv, u)
                    elif name in self.REC_ENTRIES and isinstance(iv, dict) and isinstance(mv, dict):
                        iv = {k: (self._unscale(x, u) if k in ("origin", "grid") else x) for k, x in iv.items()}
                        mv = {k: (self._unscale(x, u) if k in ("origin", "grid") else x) for k, x in mv.items()}
                    d = c2.diff(iv, mv, f"$.{key}.{name}")
                    if d:
                        return d
        finally:
            cmp.exact += c2.exact
            cmp.tolerant += c2.tolerant
        return None

    def theorems_for(self, case):
        return {"geometry": ["C12.grid_from_mask_covariant", "C12.gathered_grid_covariant",
                             "C12.padded_grid_covariant", "C12.over_sampled_grid_covariant",
                             "C12.mask_centre_covariant", "C12.extent_covariant", "C12.zoom_mask_covariant",
                             "C12.zoomed_around_mask_covariant", "C12.resized_grid_covariant",
                             "C12.pixel_indices_invariant", "C12.grid_pixel_indexes_invariant",
                             "C12.radial_projected_covariant"],
                "mapper": ["C12.overlay_mesh_covariant", "C12.rectangular_mapper_table_invariant",
                           "C12.delaunay_mapper_tables_invariant"],
                "dataset": ["C12.dataset_records_commute"],
                "dsopts": ["C12.dataset_records_commute"],
                "history": ["C12.grid_from_mask_covariant", "C12.over_sampled_grid_covariant",
                            "C12.gathered_grid_covariant", "C12.padded_grid_covariant", "C12.mask_centre_covariant",
                            "C12.zoom_mask_covariant", "C12.resized_grid_covariant",
                            "C12.pixel_indices_invariant", "C12.dataset_records_commute"]}.get(case["group"], ["C12.*"])

    def nontrivial(self, case, obs):
        if case.get("group") == "history":
            return len(case.get("ops", [])) >= 2
        if case.get("large"):  # recipe masks always have masked and unmasked pixels
            return Fraction(case["shift"][0]) != 0 or Fraction(case["shift"][1]) != 0
        bits = case.get("mask", {}).get("bits", "01")
        return "0" in bits and "1" in bits and (Fraction(case["shift"][0]) != 0 or Fraction(case["shift"][1]) != 0)

    def shrink(self, case):
        """histories only: fewer operations, fewer observed entries, fewer shared objects (large recipes and the
        ordinary cases are reported as generated)"""
        if case.get("group") != "history":
            # round-5 cases: drop crossed options / input variants one at a time
            for key in ("opts", "variant", "hb_opts"):
                for k in list(case.get(key) or {}):
                    if key == "variant" and k in ("src_origin", "src_scales"):
                        continue
                    c = dict(case)
                    c[key] = {a: b for a, b in case[key].items() if a != k}
                    yield c
            for sect in list((case.get("ds_opts") or {})):
                if isinstance(case["ds_opts"][sect], dict):
                    for k in list(case["ds_opts"][sect]):
                        c = dict(case)
                        c["ds_opts"] = dict(case["ds_opts"])
                        c["ds_opts"][sect] = {a: b for a, b in case["ds_opts"][sect].items() if a != k}
                        yield c
            return
        if case.get("script") == "hilbert_shared":
            return
        ops = case["ops"]
        n_obs = sum(1 for o in ops if o[0] == "obs")
        for i, op in enumerate(ops):
            if op[0] in ("decoy", "fault", "clone", "conf") or (op[0] == "obs" and n_obs > 1):
                c = dict(case)
                c["ops"] = ops[:i] + ops[i + 1:]
                yield c
            elif op[0] == "scribble":
                # with the rebuild that follows it (a rebuild is never removed on its own: reading objects that were
                # scribbled over is a different, uninteresting failure)
                j = i + 2 if i + 1 < len(ops) and ops[i + 1][0] == "rebuild" else i + 1
                c = dict(case)
                c["ops"] = ops[:i] + ops[j:]
                yield c
        for i, op in enumerate(ops):
            if op[0] == "obs" and len(op[2]) > 1:
                half = len(op[2]) // 2
                for part in (op[2][:half], op[2][half:]):
                    c = dict(case)
                    c["ops"] = ops[:i] + [["obs", op[1], part]] + ops[i + 1:]
                    yield c
        for s_ in case.get("share", []):
            c = dict(case)
            c["share"] = [x for x in case["share"] if x != s_]
            yield c
        if case.get("ro_arrays"):
            c = dict(case)
            c["ro_arrays"] = False
            yield c

    def sample_view(self, case):
        # in-memory expansions of a large recipe (`_mask_np`, `_points_np`, ...) never reach evidence / replays:
        # the recipe itself is the (complete, replayable) input
        return {k: v for k, v in case.items() if not k.startswith("_")}


CHECK = C12()
